#!/usr/bin/env python3
"""Run the registered checks against seeded changes IN PARALLEL, without touching /repo or /verif's build tree.

usage: python3 harness/seedpar.py [-j N] <seed-id>[:check,check…] …      (default checks: meta.json "checks")

For every seed a scratch worktree of /repo (/tmp/sp-wt-<id>, patch applied) and a scratch copy of /verif
(/tmp/sp-verif-<id>, with its Lean build output, so the rebuild is incremental) are made; the checks run in the copy
with VERIF_REPO=<worktree> and PYTHONPATH=<worktree>/src (the harness, the translators and the package under test all
follow these two variables), the outcome is recorded in /verif/seeded/<id>/meta.json (fields demo_clean, demo_mutated,
caught_by, missed_by, runs) and both scratch directories are removed.  /repo's working tree and /verif's evidence
files are never written, so any number of seeds can run side by side and next to other work.
(`harness/seedrun.py` is the sequential original that applies the patch to /repo itself.)
"""
import sys, os, json, subprocess, time, shutil
from concurrent.futures import ThreadPoolExecutor
VERIF = os.path.dirname(os.path.dirname(os.path.abspath(__file__)))


def sh(cmd, **kw):
    return subprocess.run(cmd, shell=True, capture_output=True, text=True, **kw)


def one(spec):
    sid, _, cl = spec.partition(":")
    d = os.path.join(VERIF, "seeded", sid)
    meta = json.load(open(os.path.join(d, "meta.json")))
    checks = [c for c in cl.split(",") if c] or meta.get("checks") or [meta["property"]]
    wt, vc = f"/tmp/sp-wt-{sid}", f"/tmp/sp-verif-{sid}"
    sh(f"git -C /repo worktree remove --force {wt}"); shutil.rmtree(wt, ignore_errors=True); shutil.rmtree(vc, ignore_errors=True)
    out = {}
    try:
        a = sh(f"git -C /repo worktree add --detach {wt} HEAD")
        assert a.returncode == 0, a.stderr
        demo = os.path.join(d, meta.get("demo", "demo.py"))
        r0 = sh(f"cd {d} && PYTHONPATH={wt}/src /venv/bin/python {demo}")
        meta["demo_clean"] = {"rc": r0.returncode, "tail": (r0.stdout + r0.stderr)[-300:]}
        a = sh(f"git -C {wt} apply {os.path.join(d, 'patch.diff')}")
        assert a.returncode == 0, a.stderr
        r1 = sh(f"cd {d} && PYTHONPATH={wt}/src /venv/bin/python {demo}")
        meta["demo_mutated"] = {"rc": r1.returncode, "tail": (r1.stdout + r1.stderr)[-300:]}
        a = sh(f"rsync -a --exclude .git --exclude seeded {VERIF}/ {vc}/")
        assert a.returncode == 0, a.stderr
        for c in checks:
            t0 = time.time()
            r = sh(f"cd {vc} && PYTHONPATH={wt}/src VERIF_REPO={wt} VERIF_SEED={os.environ.get('VERIF_SEED', '0')} ./check {c} --tier quick")
            lines = [l for l in r.stdout.split("\n") if l.startswith("VIOLATION") or l.startswith("[")]
            out[c] = {"rc": r.returncode, "lines": lines[:4], "s": round(time.time() - t0, 1)}
            if r.returncode == 1:
                # keep the replay of the first violation next to the seed (what the check pointed at)
                for l in lines:
                    if l.startswith("VIOLATION") and "replay=" in l:
                        rp = l.split("replay=", 1)[1].split()[0]
                        rp = rp if os.path.isabs(rp) else os.path.join(vc, rp)
                        if os.path.exists(rp):
                            try:
                                out[c]["replay_head"] = open(rp).read()[:600]
                            except Exception:
                                pass
                        break
    except AssertionError as ex:
        out["error"] = {"rc": -1, "lines": [str(ex)[:300]], "s": 0}
    finally:
        sh(f"git -C /repo worktree remove --force {wt}"); shutil.rmtree(wt, ignore_errors=True); shutil.rmtree(vc, ignore_errors=True)
    meta["caught_by"] = sorted(c for c, v in out.items() if v["rc"] == 1)
    meta["missed_by"] = sorted(c for c, v in out.items() if v["rc"] != 1)
    meta["runs"] = out
    json.dump(meta, open(os.path.join(d, "meta.json"), "w"), indent=1)
    return sid, meta["demo_clean"]["rc"] if "demo_clean" in meta else None, meta.get("demo_mutated", {}).get("rc"), {c: v["rc"] for c, v in out.items()}


def main():
    args = sys.argv[1:]
    j = 4
    if args and args[0] == "-j":
        j = int(args[1]); args = args[2:]
    with ThreadPoolExecutor(j) as ex:
        for res in ex.map(one, args):
            print(*res, flush=True)


if __name__ == "__main__":
    main()
