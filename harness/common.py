"""Shared harness code: exact number exchange, mesh/field/BC generators, driver I/O.

Everything random derives from one `random.Random(seed)`; numbers sent to the Lean
model are `Fraction(float)` — exactly the doubles the implementation received.
"""
import os, sys, subprocess, json, math, time, random, tempfile, warnings
from fractions import Fraction
import numpy as np

VERIF = os.path.dirname(os.path.dirname(os.path.abspath(__file__)))
LEAN = os.path.join(VERIF, "lean")
REPO = os.environ.get("VERIF_REPO", "/repo")

warnings.filterwarnings("ignore")
np.seterr(all="ignore")

import pyfvtool as pf                       # editable install: /repo/src
from pyfvtool.boundary import BoundaryConditions

KINDS = ["cart1", "cyl1", "sph1", "cart2", "cyl2", "pol2", "cart3", "cyl3", "sph3"]
KIND_CLASS = {
    "cart1": pf.Grid1D, "cyl1": pf.CylindricalGrid1D, "sph1": pf.SphericalGrid1D,
    "cart2": pf.Grid2D, "cyl2": pf.CylindricalGrid2D, "pol2": pf.PolarGrid2D,
    "cart3": pf.Grid3D, "cyl3": pf.CylindricalGrid3D, "sph3": pf.SphericalGrid3D,
}
DIM = {k: int(k[-1]) for k in KINDS}
RADIAL = {k: not k.startswith("cart") for k in KINDS}
TOL = 1e-9


def q(x):
    """exact rational text of a float / int / Fraction"""
    if isinstance(x, Fraction):
        fr = x
    else:
        xf = float(x)
        if not math.isfinite(xf):
            raise ValueError("non-finite number sent to the model")
        fr = Fraction(xf)
    return f"{fr.numerator}/{fr.denominator}" if fr.denominator != 1 else f"{fr.numerator}"


def qs(arr):
    return " ".join(q(v) for v in np.asarray(arr, dtype=float).ravel())


def parse_vals(reply):
    """reply tokens -> list of float|None"""
    out = []
    for t in reply.split():
        if t == "none":
            out.append(None)
        else:
            out.append(float(Fraction(t)))
    return out


# ---------------------------------------------------------------- meshes

def rand_faces(rng, n, origin_zero=False, lo=0.0, hi=None, style=None):
    """strictly increasing dyadic face positions, n cells"""
    style = style or rng.choice(["uniform", "graded", "random", "random", "random"])
    if style == "uniform":
        h = rng.choice([0.25, 0.5, 1.0, 2.0])
        inc = [h] * n
    elif style == "graded":
        h = rng.choice([0.25, 0.5, 1.0])
        g = rng.choice([2.0, 0.5, 1.5])
        inc = [h * g ** i for i in range(n)]
    else:
        inc = [rng.choice([0.125, 0.25, 0.5, 0.75, 1.0, 1.5, 2.0, 3.0]) for _ in range(n)]
    start = 0.0 if origin_zero else rng.choice([0.0, 0.5, 1.0, 2.5, -1.0, -3.0])
    if lo is not None and start < lo:
        start = lo if origin_zero else lo + rng.choice([0.0, 0.25, 0.5, 1.0])
    f = [start]
    for d in inc:
        f.append(f[-1] + d)
    f = np.array(f, dtype=float)
    if hi is not None and f[-1] > hi:
        # rescale into [f0, hi]
        span = f[-1] - f[0]
        f = f[0] + (f - f[0]) * ((hi - f[0]) / span) * rng.choice([1.0, 0.75, 0.5])
    return f


class MeshCase:
    """a generated mesh: kind, face arrays, the PyFVTool mesh object and its wire form"""

    def __init__(self, kind, faces, nl=None):
        self.kind = kind
        self.faces = [np.asarray(f, dtype=float) for f in faces]
        self.dims = [len(f) - 1 for f in self.faces]
        self.nl = nl
        cls = KIND_CLASS[kind]
        if nl is None:
            self.m = cls(*[f.copy() for f in self.faces])
        else:
            Ns, Ls = nl
            self.m = cls(*Ns, *Ls)
            self.dims = list(Ns)
        self.dim = DIM[kind]

    @property
    def n3(self):
        d = self.dims + [1] * (3 - len(self.dims))
        return d

    def mesh_sections(self):
        m = self.m
        nx, ny, nz = self.n3
        head = f"{self.kind} {nx} {ny} {nz}"
        if self.nl is None:
            fs = [qs(f) for f in self.faces] + [""] * (3 - self.dim)
        else:
            fs = [q(L) for L in self.nl[1]] + [""] * (3 - self.dim)
        if self.kind == "sph3":
            sC = qs(np.sin(m.cellcenters._y))
            sF = qs(np.sin(m.facecenters._y))
            cF = qs(np.cos(m.facecenters._y))
        else:
            sC = sF = cF = ""
        return [head] + fs + [sC, sF, cF, q(np.pi)]

    def shape(self):
        return tuple(self.dims)

    def gshape(self):
        return tuple(n + 2 for n in self.dims)

    def face_shapes(self):
        d = self.dims
        if self.dim == 1:
            return [(d[0] + 1,)]
        if self.dim == 2:
            return [(d[0] + 1, d[1]), (d[0], d[1] + 1)]
        return [(d[0] + 1, d[1], d[2]), (d[0], d[1] + 1, d[2]), (d[0], d[1], d[2] + 1)]

    def describe(self):
        return {"kind": self.kind, "faces": [f.tolist() for f in self.faces],
                "nl": None if self.nl is None else [list(self.nl[0]), list(self.nl[1])]}


def rand_mesh(rng, kind=None, nmax=4, small_bias=True):
    kind = kind or rng.choice(KINDS)
    dim = DIM[kind]

    def pickn():
        if small_bias:
            return rng.choice([1, 1, 2, 2, 3, 3, 4][:max(1, min(7, 2 * nmax - 1))]) if nmax < 4 else rng.choice([1, 1, 2, 2, 3, 3, 4, nmax])
        return rng.randint(1, nmax)
    ns = [pickn() for _ in range(dim)]
    if dim == 3:
        # keep 3-D boxes small
        while ns[0] * ns[1] * ns[2] > 36:
            ns[rng.randrange(3)] = max(1, ns[rng.randrange(3)] - 1)
    faces = []
    for ax in range(dim):
        n = ns[ax]
        if ax == 0 and RADIAL[kind]:
            f = rand_faces(rng, n, origin_zero=rng.random() < 0.5, lo=0.0)
        elif ax == 1 and kind in ("pol2", "cyl3"):
            f = rand_faces(rng, n, origin_zero=rng.random() < 0.5, lo=0.0, hi=2 * math.pi)
        elif ax == 1 and kind == "sph3":
            f = rand_faces(rng, n, origin_zero=rng.random() < 0.3, lo=0.0, hi=math.pi * 0.999)
        elif ax == 2 and kind == "sph3":
            f = rand_faces(rng, n, origin_zero=rng.random() < 0.5, lo=0.0, hi=2 * math.pi)
        else:
            f = rand_faces(rng, n)
        faces.append(f)
    return MeshCase(kind, faces)


# ---------------------------------------------------------------- fields

SPECIAL = [0.0, 1.0, -1.0, 2.0, -2.0, 0.5, 3.0]


def rand_vals(rng, shape, mode=None):
    mode = mode or rng.choice(["mixed", "mixed", "pos", "neg", "ints", "zeros"])
    n = int(np.prod(shape)) if len(shape) else 1
    if mode == "pos":
        v = [rng.choice([0.25, 0.5, 1.0, 1.5, 2.0, 3.0, 5.0]) for _ in range(n)]
    elif mode == "neg":
        v = [-rng.choice([0.25, 0.5, 1.0, 1.5, 2.0, 3.0]) for _ in range(n)]
    elif mode == "ints":
        v = [float(rng.randint(-3, 3)) for _ in range(n)]
    elif mode == "zeros":
        v = [rng.choice([0.0, 0.0, 1.0, -1.0, 2.0]) for _ in range(n)]
    else:
        v = [rng.choice(SPECIAL) if rng.random() < 0.3 else round(rng.uniform(-4, 4) * 64) / 64 for _ in range(n)]
    return np.array(v, dtype=float).reshape(shape)


def rand_face_arrays(rng, mc, mode=None):
    return [rand_vals(rng, s, mode) for s in mc.face_shapes()]


def make_facevar(mc, arrs):
    a = [np.array(x, dtype=float) for x in arrs] + [np.array([])] * (3 - mc.dim)
    return pf.FaceVariable(mc.m, a[0], a[1], a[2])


def face_sections(mc, arrs):
    return [qs(a) for a in arrs] + [""] * (3 - mc.dim)


def facevar_arrays(mc, fv):
    return [fv._xvalue, fv._yvalue, fv._zvalue][:mc.dim]


# ---------------------------------------------------------------- boundary conditions

SIDES = ["left", "right", "bottom", "top", "back", "front"]


def bc_face_shapes(mc):
    d = mc.dims
    if mc.dim == 1:
        return [(1,), (1,)]
    if mc.dim == 2:
        return [(d[1],), (d[1],), (d[0],), (d[0],)]
    return [(d[1], d[2]), (d[1], d[2]), (d[0], d[2]), (d[0], d[2]), (d[0], d[1]), (d[0], d[1])]


def rand_bc_spec(rng, mc, allow_periodic=True, kinds=("dirichlet", "neumann", "robin", "robinarr", "default")):
    """per side: dict(kind, a, b, c arrays, periodic)"""
    spec = []
    shapes = bc_face_shapes(mc)
    for ax in range(mc.dim):
        per = allow_periodic and rng.random() < 0.25 and not (ax == 0 and RADIAL[mc.kind])
        for side in range(2):
            shp = shapes[2 * ax + side]
            kind = rng.choice(kinds)
            if kind == "dirichlet":
                a = np.zeros(shp); b = np.ones(shp); c = np.full(shp, rng.choice([0.0, 1.0, -2.0, 0.5]))
            elif kind == "neumann":
                a = np.ones(shp); b = np.zeros(shp); c = np.full(shp, rng.choice([0.0, 1.0, -0.5]))
            elif kind == "robin":
                a = np.full(shp, rng.choice([1.0, 2.0, -1.0, 0.5])); b = np.full(shp, rng.choice([1.0, 3.0, -0.5]))
                c = np.full(shp, rng.choice([0.0, 1.0, 2.0]))
            elif kind == "robinarr":
                a = rand_vals(rng, shp, "mixed"); b = rand_vals(rng, shp, "pos"); c = rand_vals(rng, shp, "mixed")
            else:
                a = np.ones(shp); b = np.zeros(shp); c = np.zeros(shp)
            # which side carries the periodic flag: either or both
            flag = per and (rng.random() < 0.7 or side == 1)
            spec.append({"kind": kind, "a": a, "b": b, "c": c, "periodic": bool(flag)})
        if per and not (spec[-1]["periodic"] or spec[-2]["periodic"]):
            spec[-1]["periodic"] = True
    return spec


def make_bcs(mc, spec):
    bc = BoundaryConditions(mc.m)
    for s, name in zip(spec, SIDES):
        f = getattr(bc, name)
        f.a[:] = s["a"].reshape(f.a.shape)
        f.b[:] = s["b"].reshape(f.b.shape)
        f.c[:] = s["c"].reshape(f.c.shape)
        if s["periodic"]:
            f.periodic = True
    return bc


def bc_sections_from_obj(mc, bc):
    """24 sections read back from the real BC object (what the code actually holds)"""
    out = []
    shapes = bc_face_shapes(mc)
    for k, name in enumerate(SIDES):
        f = getattr(bc, name)
        if k < 2 * mc.dim:
            shp = shapes[k]
            out += ["1" if f.periodic else "0",
                    qs(np.broadcast_to(np.asarray(f.a, dtype=float).reshape(shp), shp)),
                    qs(np.broadcast_to(np.asarray(f.b, dtype=float).reshape(shp), shp)),
                    qs(np.broadcast_to(np.asarray(f.c, dtype=float).reshape(shp), shp))]
        else:
            out += ["0", "", "", ""]
    return out


def bc_describe(spec):
    return [{"kind": s["kind"], "periodic": s["periodic"], "a": s["a"].tolist(), "b": s["b"].tolist(),
             "c": s["c"].tolist()} for s in spec]


# ---------------------------------------------------------------- driver

_BUILD_DONE = False


def lake_build(targets=("PyFV",), quiet=True):
    """incremental build under a lock; returns (ok, output)"""
    import fcntl
    lock = open(os.path.join(LEAN, ".build.lock"), "w")
    fcntl.flock(lock, fcntl.LOCK_EX)
    try:
        p = subprocess.run(["lake", "build", *targets], cwd=LEAN, capture_output=True, text=True)
        return p.returncode == 0, p.stdout + p.stderr
    finally:
        fcntl.flock(lock, fcntl.LOCK_UN)
        lock.close()


class Driver:
    """collect request lines, run the Lean driver once, hand back the replies"""

    def __init__(self):
        self.lines = []

    def add(self, op, mc, payload=()):
        secs = [op] + (mc.mesh_sections() if mc is not None else []) + list(payload)
        self.lines.append("|".join(secs))
        return len(self.lines) - 1

    def add_raw(self, line):
        self.lines.append(line)
        return len(self.lines) - 1

    def run(self):
        if not self.lines:
            return []
        data = "\n".join(self.lines) + "\n"
        p = subprocess.run(["lake", "env", "lean", "--run", "Driver.lean"], cwd=LEAN,
                           input=data, capture_output=True, text=True)
        out = [l for l in p.stdout.split("\n")]
        if out and out[-1] == "":
            out.pop()
        if p.returncode != 0 or len(out) != len(self.lines):
            raise RuntimeError(f"driver failed rc={p.returncode} replies={len(out)}/{len(self.lines)}\n"
                               f"{p.stdout[-2000:]}\n{p.stderr[-2000:]}")
        return out


def close(impl, model, scale=None, tol=TOL):
    """impl: float (maybe nan/inf), model: float|None"""
    if model is None:
        return not math.isfinite(impl)
    if not math.isfinite(impl):
        return False
    s = max(abs(impl), abs(model), scale or 0.0, 1e-300)
    return abs(impl - model) <= tol * max(s, 1e-30) or abs(impl - model) <= 1e-300


def compare_arrays(impl, model, tol=TOL, scale=None):
    """returns list of (index, impl, model) mismatches; scale = max magnitude of both arrays"""
    impl = [float(x) for x in np.asarray(impl, dtype=float).ravel()]
    if len(impl) != len(model):
        return [("length", len(impl), len(model))]
    mags = [abs(x) for x in impl if math.isfinite(x)] + [abs(x) for x in model if x is not None]
    sc = max(mags + [scale or 0.0]) if (mags or scale) else 0.0
    bad = []
    for i, (a, b) in enumerate(zip(impl, model)):
        if not close(a, b, sc, tol):
            bad.append((i, a, b))
    return bad
