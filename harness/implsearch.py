"""Implementation-level searches for failing inputs of the properties themselves.

These never consult the Lean model: they evaluate the property directly on the real
code with tolerances far above rounding (1e-9 relative to the natural scale of the
compared quantity).  They are used (a) to find a concrete replayable input when a proof
obligation or a correspondence is broken, (b) as additional exploration in every run.
They are not proof obligations.
"""
import math, io, contextlib, itertools
import numpy as np
from scipy.sparse import csr_array
from common import *
from corr import interior_cells, gflat, LIMITERS

RTOL = 1e-9


class Search:
    def __init__(self, pid):
        self.pid = pid
        self.violations = []
        self.evaluations = 0
        self.sigs = set()
        self.samples = []

    def check(self, ok, key, what, inp, observed, expected):
        self.evaluations += 1
        if not ok:
            self.violations.append({"key": key, "what": what, "input": inp, "observed": observed, "expected": expected})

    def sig(self, *s):
        self.sigs.add(tuple(s))

    def stats(self):
        return {"evaluations": self.evaluations, "distinct": len(self.sigs), "samples": self.samples[:2],
                "violations_found": len(self.violations)}


def interior(mc, v):
    v = np.asarray(v, dtype=float).reshape(mc.gshape())
    return v[tuple(slice(1, -1) for _ in mc.dims)]


def vec_close(a, b, scale):
    a = np.asarray(a, dtype=float).ravel(); b = np.asarray(b, dtype=float).ravel()
    if a.shape != b.shape:
        return False, None
    if not (np.all(np.isfinite(a)) and np.all(np.isfinite(b))):
        return False, None
    err = np.abs(a - b)
    scale = np.asarray(scale, dtype=float)
    if scale.ndim > 0:
        scale = scale.ravel()
    tol = RTOL * np.maximum(scale, 1e-300)
    bad = np.nonzero(err > tol)[0]
    return len(bad) == 0, (int(bad[0]) if len(bad) else None)


def absmat_scale(M, x, extra=None):
    """natural scale of (M @ x): |M| @ |x| per row, at least the largest entry"""
    A = abs(csr_array(M))
    s = A @ np.abs(x)
    if extra is not None:
        s = s + np.abs(extra)
    return np.maximum(s, np.max(s) * 1e-3 if s.size else 0.0)


def full_cellvar(mc, vals):
    return pf.CellVariable(mc.m, np.array(vals, dtype=float).copy())


def no_zero(rng, arrs):
    out = []
    for a in arrs:
        a = a.copy()
        z = (a == 0)
        a[z] = rng.choice([0.5, -0.5, 1.0, -2.0])
        out.append(a)
    return out


def case_of(mc, **kw):
    d = {"mesh": mc.describe()}
    for k, v in kw.items():
        if isinstance(v, np.ndarray):
            d[k] = v.tolist()
        elif isinstance(v, list) and v and isinstance(v[0], np.ndarray):
            d[k] = [x.tolist() for x in v]
        else:
            d[k] = v
    return d


def mesh_from_case(case):
    md = case["mesh"]
    if md.get("nl"):
        return MeshCase(md["kind"], [np.array(f) for f in md["faces"]], nl=(md["nl"][0], md["nl"][1]))
    return MeshCase(md["kind"], [np.array(f) for f in md["faces"]])


# ------------------------------------------------------------------ C05 / C06

def c05_eval(mc, term, arrs, arrs2, vals, limiter=None):
    """returns (lhs, rhs, scale) for one C05 identity on the implementation"""
    u = make_facevar(mc, arrs)
    phi = full_cellvar(mc, vals)
    x = phi._value.ravel()
    sl = tuple(slice(1, -1) for _ in mc.dims)
    if term == "diffusion":
        M = pf.diffusionTerm(u)
        rhs = pf.divergenceTerm(u * pf.gradientTerm(phi))
    elif term == "convection":
        M = pf.convectionTerm(u)
        rhs = pf.divergenceTerm(u * pf.linearMean(phi))
    elif term == "upwind":
        M = pf.convectionUpwindTerm(u)
        rhs = pf.divergenceTerm(u * pf.upwindMean(phi, u))
    elif term == "upwind2":
        uu = make_facevar(mc, arrs2)
        M = pf.convectionUpwindTerm(u, uu)
        rhs = pf.divergenceTerm(u * pf.upwindMean(phi, uu))
    elif term == "tvd0":
        r = pf.convectionTVDupwindRHSTerm(u, phi, lambda r: 0.0 * r)
        return interior(mc, r).ravel(), np.zeros(int(np.prod(mc.dims))), np.ones(int(np.prod(mc.dims)))
    elif term == "tvd1":
        Mu = pf.convectionUpwindTerm(u)
        Mc = pf.convectionTerm(u)
        r = pf.convectionTVDupwindRHSTerm(u, phi, lambda r: 1.0 + 0.0 * r)
        lhs = (Mu @ x) - r
        rhs = Mc @ x
        sc = absmat_scale(Mu, x, r) + absmat_scale(Mc, x)
        return interior(mc, lhs).ravel(), interior(mc, rhs).ravel(), interior(mc, sc).ravel()
    lhs = M @ x
    sc = absmat_scale(M, x)
    return interior(mc, lhs).ravel(), interior(mc, rhs).ravel(), interior(mc, sc).ravel()


def search_c05(rng, n, S=None, kinds=None):
    S = S or Search("C05")
    terms = ["diffusion", "convection", "upwind", "upwind2", "tvd0", "tvd1"]
    for t in range(n):
        kind = (kinds or KINDS)[t % len(kinds or KINDS)]
        term = terms[(t // len(kinds or KINDS)) % len(terms)]
        if term == "tvd1":
            # uniform axes
            dim = DIM[kind]
            faces = []
            for ax in range(dim):
                nn = rng.choice([1, 2, 3, 4])
                h = rng.choice([0.25, 0.5, 1.0]) if not (ax >= 1 and kind in ("pol2", "cyl3", "sph3")) else rng.choice([0.25, 0.5])
                start = rng.choice([0.0, 1.0]) if (ax == 0 and RADIAL[kind]) else (0.25 if ax == 1 and kind == "sph3" else 0.0)
                faces.append(start + h * np.arange(nn + 1))
            mc = MeshCase(kind, faces)
        else:
            mc = rand_mesh(rng, kind, nmax=4)
        arrs = rand_face_arrays(rng, mc)
        arrs2 = no_zero(rng, rand_face_arrays(rng, mc)) if term == "upwind2" else None
        vals = rand_vals(rng, mc.gshape())
        inp = case_of(mc, term=term, face=arrs, face_upwind=arrs2, cell=vals)
        try:
            lhs, rhs, sc = c05_eval(mc, term, arrs, arrs2, vals)
            ok, where = vec_close(lhs, rhs, sc)
            S.check(ok, f"C05:{term}:{kind}", f"matrix·φ ≠ divergence chain for {term} on {kind}", inp,
                    lhs.tolist()[:32], rhs.tolist()[:32])
        except Exception as ex:
            S.check(False, f"C05:{term}:{kind}:exception", f"{term} raised {ex!r}", inp, repr(ex), "no exception")
        S.sig(kind, tuple(mc.dims), term)
        if len(S.samples) < 2:
            S.samples.append(inp)
    return S


def replay_c05(body):
    inp = body["input"]
    mc = mesh_from_case(inp)
    arrs = [np.array(a) for a in inp["face"]]
    arrs2 = [np.array(a) for a in inp["face_upwind"]] if inp.get("face_upwind") else None
    lhs, rhs, sc = c05_eval(mc, inp["term"], arrs, arrs2, np.array(inp["cell"]))
    ok, _ = vec_close(lhs, rhs, sc)
    return ok, f"replay C05 {inp['term']} on {mc.kind}: lhs={lhs.tolist()[:8]} rhs={rhs.tolist()[:8]} -> {'holds' if ok else 'FAILS'}"


def c06_eval(mc, term, arrs, k, extra=None):
    u = make_facevar(mc, arrs)
    shape = mc.gshape()
    phi = full_cellvar(mc, np.full(shape, k))
    x = phi._value.ravel()
    if term == "diffusion":
        M = pf.diffusionTerm(u); rhs = np.zeros(x.shape)
    elif term == "convection":
        M = pf.convectionTerm(u); rhs = k * pf.divergenceTerm(u)
    elif term == "upwind":
        M = pf.convectionUpwindTerm(u); rhs = k * pf.divergenceTerm(u)
    elif term == "tvd":
        with contextlib.redirect_stdout(io.StringIO()):
            FL = pf.fluxLimiter(extra)
        r = pf.convectionTVDupwindRHSTerm(u, phi, FL)
        return interior(mc, r).ravel(), np.zeros(int(np.prod(mc.dims))), np.ones(int(np.prod(mc.dims)))
    lhs = M @ x
    sc = absmat_scale(M, x)
    return interior(mc, lhs).ravel(), interior(mc, rhs).ravel(), interior(mc, sc).ravel()


def search_c06(rng, n, S=None, kinds=None):
    S = S or Search("C06")
    terms = ["diffusion", "convection", "upwind", "tvd", "source", "steady"]
    for t in range(n):
        kind = (kinds or KINDS)[t % len(kinds or KINDS)]
        term = terms[(t // len(kinds or KINDS)) % len(terms)]
        mc = rand_mesh(rng, kind, nmax=4)
        k = rng.choice([1.0, -2.0, 0.5, 3.0, 7.25])
        S.sig(kind, tuple(mc.dims), term)
        if term in ("diffusion", "convection", "upwind", "tvd"):
            arrs = rand_face_arrays(rng, mc, "pos" if term == "diffusion" else None)
            lim = rng.choice(LIMITERS) if term == "tvd" else None
            inp = case_of(mc, term=term, face=arrs, const=k, limiter=lim)
            try:
                lhs, rhs, sc = c06_eval(mc, term, arrs, k, lim)
                ok, _ = vec_close(lhs, rhs, sc)
                S.check(ok, f"C06:{term}:{kind}", f"{term} of a constant field is not c·div(u) / 0 on {kind}", inp,
                        lhs.tolist()[:32], rhs.tolist()[:32])
            except Exception as ex:
                S.check(False, f"C06:{term}:{kind}:exception", f"{term} raised {ex!r}", inp, repr(ex), "no exception")
        elif term == "source":
            beta = no_zero(rng, [rand_vals(rng, mc.shape())])[0]
            gamma = rand_vals(rng, mc.shape())
            inp = case_of(mc, term=term, beta=beta, gamma=gamma)
            try:
                phi = pf.CellVariable(mc.m, 0.0)
                b = pf.CellVariable(mc.m, beta); g = pf.CellVariable(mc.m, gamma)
                pf.solvePDE(phi, [pf.linearSourceTerm(b), pf.constantSourceTerm(g)])
                exp = gamma / beta
                ok, _ = vec_close(phi.value, exp, np.abs(exp) + 1e-30)
                S.check(ok, f"C06:source:{kind}", "βφ=γ not solved cell-locally", inp, np.asarray(phi.value).tolist(), exp.tolist())
            except Exception as ex:
                S.check(False, f"C06:source:{kind}:exception", repr(ex), inp, repr(ex), "no exception")
        else:
            # steady uniform state in a divergence-free flow (uniform Cartesian / q/r / q/r^2 radial flow)
            q0 = rng.choice([1.0, -0.5, 2.0])
            arrs = []
            m = mc.m
            for ax in range(mc.dim):
                shp = mc.face_shapes()[ax]
                if ax == 0:
                    rf = np.asarray(m.facecenters._x, dtype=float)
                    if kind in ("cyl1", "cyl2", "pol2", "cyl3"):
                        prof = np.where(rf > 0, q0 / np.where(rf > 0, rf, 1.0), 0.0) if rf[0] > 0 else np.zeros_like(rf)
                    elif kind in ("sph1", "sph3"):
                        prof = q0 / rf ** 2 if rf[0] > 0 else np.zeros_like(rf)
                    else:
                        prof = np.full(rf.shape, q0)
                    a = np.broadcast_to(prof.reshape((-1,) + (1,) * (mc.dim - 1)), shp).copy()
                else:
                    if kind.startswith("cart") or (kind == "cyl2" and ax == 1) or (kind == "cyl3" and ax == 2):
                        a = np.full(shp, rng.choice([0.0, 1.0, -1.5]))
                    else:
                        a = np.zeros(shp)
                arrs.append(a)
            dt = rng.choice([1e-3, 1.0, 1e4])
            alpha = rng.choice([1.0, 2.5])
            inp = case_of(mc, term=term, face=arrs, const=k, dt=dt, alpha=alpha)
            try:
                bc = BoundaryConditions(mc.m)
                for name in SIDES[:2 * mc.dim]:
                    getattr(bc, name).fixedValue(k)
                phi = pf.CellVariable(mc.m, k, bc)
                u = make_facevar(mc, arrs)
                D = pf.FaceVariable(mc.m, rng.choice([0.0, 1.0, 0.1]))
                for _ in range(2):
                    terms_ = [pf.transientTerm(phi, dt, alpha), pf.convectionUpwindTerm(u), -pf.diffusionTerm(D)]
                    pf.solvePDE(phi, terms_)
                ok, _ = vec_close(phi.value, np.full(mc.shape(), k), np.full(int(np.prod(mc.dims)), abs(k)) * 1e3)
                S.check(ok, f"C06:steady:{kind}", "uniform field in divergence-free flow is not a steady state", inp,
                        np.asarray(phi.value).ravel().tolist()[:16], k)
            except Exception as ex:
                S.check(False, f"C06:steady:{kind}:exception", repr(ex), inp, repr(ex), "no exception")
        if len(S.samples) < 2:
            S.samples.append(inp)
    return S
