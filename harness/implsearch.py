"""Implementation-level searches for failing inputs of the properties themselves.

These never consult the Lean model: they evaluate the property directly on the real
code with tolerances far above rounding (1e-9 relative to the natural scale of the
compared quantity).  They are used (a) to find a concrete replayable input when a proof
obligation or a correspondence is broken, (b) as additional exploration in every run.
They are not proof obligations.
"""
import math, io, contextlib, itertools
import numpy as np
from scipy.sparse import csr_array
from common import *
from corr import interior_cells, gflat, LIMITERS

RTOL = 1e-9


class Search:
    def __init__(self, pid):
        self.pid = pid
        self.violations = []
        self.evaluations = 0
        self.sigs = set()
        self.samples = []

    def check(self, ok, key, what, inp, observed, expected):
        self.evaluations += 1
        if not ok:
            self.violations.append({"key": key, "what": what, "input": inp, "observed": observed, "expected": expected})

    def sig(self, *s):
        self.sigs.add(tuple(s))

    def stats(self):
        return {"evaluations": self.evaluations, "distinct": len(self.sigs), "samples": self.samples[:2],
                "violations_found": len(self.violations)}


def interior(mc, v):
    v = np.asarray(v, dtype=float).reshape(mc.gshape())
    return v[tuple(slice(1, -1) for _ in mc.dims)]


def vec_close(a, b, scale):
    a = np.asarray(a, dtype=float).ravel(); b = np.asarray(b, dtype=float).ravel()
    if a.shape != b.shape:
        return False, None
    if not (np.all(np.isfinite(a)) and np.all(np.isfinite(b))):
        return False, None
    err = np.abs(a - b)
    scale = np.asarray(scale, dtype=float)
    if scale.ndim > 0:
        scale = scale.ravel()
    tol = RTOL * np.maximum(scale, 1e-300)
    bad = np.nonzero(err > tol)[0]
    return len(bad) == 0, (int(bad[0]) if len(bad) else None)


def absmat_scale(M, x, extra=None):
    """natural scale of (M @ x): |M| @ |x| per row, at least the largest entry"""
    A = abs(csr_array(M))
    s = A @ np.abs(x)
    if extra is not None:
        s = s + np.abs(extra)
    return np.maximum(s, np.max(s) * 1e-3 if s.size else 0.0)


def full_cellvar(mc, vals):
    return pf.CellVariable(mc.m, np.array(vals, dtype=float).copy())


def no_zero(rng, arrs):
    out = []
    for a in arrs:
        a = a.copy()
        z = (a == 0)
        a[z] = rng.choice([0.5, -0.5, 1.0, -2.0])
        out.append(a)
    return out


def case_of(mc, **kw):
    d = {"mesh": mc.describe()}
    for k, v in kw.items():
        if isinstance(v, np.ndarray):
            d[k] = v.tolist()
        elif isinstance(v, list) and v and isinstance(v[0], np.ndarray):
            d[k] = [x.tolist() for x in v]
        else:
            d[k] = v
    return d


def mesh_from_case(case):
    md = case["mesh"]
    if md.get("nl"):
        return MeshCase(md["kind"], [np.array(f) for f in md["faces"]], nl=(md["nl"][0], md["nl"][1]))
    return MeshCase(md["kind"], [np.array(f) for f in md["faces"]])


# ------------------------------------------------------------------ C05 / C06

def c05_eval(mc, term, arrs, arrs2, vals, limiter=None):
    """returns (lhs, rhs, scale) for one C05 identity on the implementation"""
    u = make_facevar(mc, arrs)
    phi = full_cellvar(mc, vals)
    x = phi._value.ravel()
    sl = tuple(slice(1, -1) for _ in mc.dims)
    if term == "diffusion":
        M = pf.diffusionTerm(u)
        rhs = pf.divergenceTerm(u * pf.gradientTerm(phi))
    elif term == "convection":
        M = pf.convectionTerm(u)
        rhs = pf.divergenceTerm(u * pf.linearMean(phi))
    elif term == "upwind":
        M = pf.convectionUpwindTerm(u)
        rhs = pf.divergenceTerm(u * pf.upwindMean(phi, u))
    elif term == "upwind2":
        uu = make_facevar(mc, arrs2)
        M = pf.convectionUpwindTerm(u, uu)
        rhs = pf.divergenceTerm(u * pf.upwindMean(phi, uu))
    elif term == "tvd0":
        r = pf.convectionTVDupwindRHSTerm(u, phi, lambda r: 0.0 * r)
        return interior(mc, r).ravel(), np.zeros(int(np.prod(mc.dims))), np.ones(int(np.prod(mc.dims)))
    elif term == "tvd1":
        Mu = pf.convectionUpwindTerm(u)
        Mc = pf.convectionTerm(u)
        r = pf.convectionTVDupwindRHSTerm(u, phi, lambda r: 1.0 + 0.0 * r)
        lhs = (Mu @ x) - r
        rhs = Mc @ x
        sc = absmat_scale(Mu, x, r) + absmat_scale(Mc, x)
        return interior(mc, lhs).ravel(), interior(mc, rhs).ravel(), interior(mc, sc).ravel()
    lhs = M @ x
    sc = absmat_scale(M, x)
    return interior(mc, lhs).ravel(), interior(mc, rhs).ravel(), interior(mc, sc).ravel()


def search_c05(rng, n, S=None, kinds=None):
    S = S or Search("C05")
    terms = ["diffusion", "convection", "upwind", "upwind2", "tvd0", "tvd1"]
    for t in range(n):
        kind = (kinds or KINDS)[t % len(kinds or KINDS)]
        term = terms[(t // len(kinds or KINDS)) % len(terms)]
        if term == "tvd1":
            # uniform axes
            dim = DIM[kind]
            faces = []
            for ax in range(dim):
                nn = rng.choice([1, 2, 3, 4])
                h = rng.choice([0.25, 0.5, 1.0]) if not (ax >= 1 and kind in ("pol2", "cyl3", "sph3")) else rng.choice([0.25, 0.5])
                start = rng.choice([0.0, 1.0]) if (ax == 0 and RADIAL[kind]) else (0.25 if ax == 1 and kind == "sph3" else 0.0)
                faces.append(start + h * np.arange(nn + 1))
            mc = MeshCase(kind, faces)
        else:
            mc = rand_mesh(rng, kind, nmax=4)
        arrs = rand_face_arrays(rng, mc)
        arrs2 = no_zero(rng, rand_face_arrays(rng, mc)) if term == "upwind2" else None
        vals = rand_vals(rng, mc.gshape())
        inp = case_of(mc, term=term, face=arrs, face_upwind=arrs2, cell=vals)
        try:
            lhs, rhs, sc = c05_eval(mc, term, arrs, arrs2, vals)
            ok, where = vec_close(lhs, rhs, sc)
            S.check(ok, f"C05:{term}:{kind}", f"matrix·φ ≠ divergence chain for {term} on {kind}", inp,
                    lhs.tolist()[:32], rhs.tolist()[:32])
        except Exception as ex:
            S.check(False, f"C05:{term}:{kind}:exception", f"{term} raised {ex!r}", inp, repr(ex), "no exception")
        S.sig(kind, tuple(mc.dims), term)
        if len(S.samples) < 2:
            S.samples.append(inp)
    return S


def replay_c05(body):
    inp = body["input"]
    mc = mesh_from_case(inp)
    arrs = [np.array(a) for a in inp["face"]]
    arrs2 = [np.array(a) for a in inp["face_upwind"]] if inp.get("face_upwind") else None
    lhs, rhs, sc = c05_eval(mc, inp["term"], arrs, arrs2, np.array(inp["cell"]))
    ok, _ = vec_close(lhs, rhs, sc)
    return ok, f"replay C05 {inp['term']} on {mc.kind}: lhs={lhs.tolist()[:8]} rhs={rhs.tolist()[:8]} -> {'holds' if ok else 'FAILS'}"


def c06_eval(mc, term, arrs, k, extra=None):
    u = make_facevar(mc, arrs)
    shape = mc.gshape()
    phi = full_cellvar(mc, np.full(shape, k))
    x = phi._value.ravel()
    if term == "diffusion":
        M = pf.diffusionTerm(u); rhs = np.zeros(x.shape)
    elif term == "convection":
        M = pf.convectionTerm(u); rhs = k * pf.divergenceTerm(u)
    elif term == "upwind":
        M = pf.convectionUpwindTerm(u); rhs = k * pf.divergenceTerm(u)
    elif term == "tvd":
        with contextlib.redirect_stdout(io.StringIO()):
            FL = pf.fluxLimiter(extra)
        r = pf.convectionTVDupwindRHSTerm(u, phi, FL)
        return interior(mc, r).ravel(), np.zeros(int(np.prod(mc.dims))), np.ones(int(np.prod(mc.dims)))
    lhs = M @ x
    sc = absmat_scale(M, x)
    return interior(mc, lhs).ravel(), interior(mc, rhs).ravel(), interior(mc, sc).ravel()


def search_c06(rng, n, S=None, kinds=None):
    S = S or Search("C06")
    terms = ["diffusion", "convection", "upwind", "tvd", "source", "steady"]
    for t in range(n):
        kind = (kinds or KINDS)[t % len(kinds or KINDS)]
        term = terms[(t // len(kinds or KINDS)) % len(terms)]
        mc = rand_mesh(rng, kind, nmax=4)
        k = rng.choice([1.0, -2.0, 0.5, 3.0, 7.25])
        S.sig(kind, tuple(mc.dims), term)
        if term in ("diffusion", "convection", "upwind", "tvd"):
            arrs = rand_face_arrays(rng, mc, "pos" if term == "diffusion" else None)
            lim = rng.choice(LIMITERS) if term == "tvd" else None
            inp = case_of(mc, term=term, face=arrs, const=k, limiter=lim)
            try:
                lhs, rhs, sc = c06_eval(mc, term, arrs, k, lim)
                ok, _ = vec_close(lhs, rhs, sc)
                S.check(ok, f"C06:{term}:{kind}", f"{term} of a constant field is not c·div(u) / 0 on {kind}", inp,
                        lhs.tolist()[:32], rhs.tolist()[:32])
            except Exception as ex:
                S.check(False, f"C06:{term}:{kind}:exception", f"{term} raised {ex!r}", inp, repr(ex), "no exception")
        elif term == "source":
            beta = no_zero(rng, [rand_vals(rng, mc.shape())])[0]
            gamma = rand_vals(rng, mc.shape())
            inp = case_of(mc, term=term, beta=beta, gamma=gamma)
            try:
                phi = pf.CellVariable(mc.m, 0.0)
                b = pf.CellVariable(mc.m, beta); g = pf.CellVariable(mc.m, gamma)
                pf.solvePDE(phi, [pf.linearSourceTerm(b), pf.constantSourceTerm(g)])
                exp = gamma / beta
                ok, _ = vec_close(phi.value, exp, np.abs(exp) + 1e-30)
                S.check(ok, f"C06:source:{kind}", "βφ=γ not solved cell-locally", inp, np.asarray(phi.value).tolist(), exp.tolist())
            except Exception as ex:
                S.check(False, f"C06:source:{kind}:exception", repr(ex), inp, repr(ex), "no exception")
        else:
            # steady uniform state in a divergence-free flow (uniform Cartesian / q/r / q/r^2 radial flow)
            q0 = rng.choice([1.0, -0.5, 2.0])
            arrs = []
            m = mc.m
            for ax in range(mc.dim):
                shp = mc.face_shapes()[ax]
                if ax == 0:
                    rf = np.asarray(m.facecenters._x, dtype=float)
                    if kind in ("cyl1", "cyl2", "pol2", "cyl3"):
                        prof = np.where(rf > 0, q0 / np.where(rf > 0, rf, 1.0), 0.0) if rf[0] > 0 else np.zeros_like(rf)
                    elif kind in ("sph1", "sph3"):
                        prof = q0 / rf ** 2 if rf[0] > 0 else np.zeros_like(rf)
                    else:
                        prof = np.full(rf.shape, q0)
                    a = np.broadcast_to(prof.reshape((-1,) + (1,) * (mc.dim - 1)), shp).copy()
                else:
                    if kind.startswith("cart") or (kind == "cyl2" and ax == 1) or (kind == "cyl3" and ax == 2):
                        a = np.full(shp, rng.choice([0.0, 1.0, -1.5]))
                    else:
                        a = np.zeros(shp)
                arrs.append(a)
            dt = rng.choice([1e-3, 1.0, 1e4])
            alpha = rng.choice([1.0, 2.5])
            inp = case_of(mc, term=term, face=arrs, const=k, dt=dt, alpha=alpha)
            try:
                bc = BoundaryConditions(mc.m)
                for name in SIDES[:2 * mc.dim]:
                    getattr(bc, name).fixedValue(k)
                phi = pf.CellVariable(mc.m, k, bc)
                u = make_facevar(mc, arrs)
                D = pf.FaceVariable(mc.m, rng.choice([0.0, 1.0, 0.1]))
                for _ in range(2):
                    terms_ = [pf.transientTerm(phi, dt, alpha), pf.convectionUpwindTerm(u), -pf.diffusionTerm(D)]
                    pf.solvePDE(phi, terms_)
                ok, _ = vec_close(phi.value, np.full(mc.shape(), k), np.full(int(np.prod(mc.dims)), abs(k)) * 1e3)
                S.check(ok, f"C06:steady:{kind}", "uniform field in divergence-free flow is not a steady state", inp,
                        np.asarray(phi.value).ravel().tolist()[:16], k)
            except Exception as ex:
                S.check(False, f"C06:steady:{kind}:exception", repr(ex), inp, repr(ex), "no exception")
        if len(S.samples) < 2:
            S.samples.append(inp)
    return S


# ------------------------------------------------------------------ C10

COORD_LABELS = {"cart1": {"x": "_x"}, "cyl1": {"r": "_x"}, "sph1": {"r": "_x"},
                "cart2": {"x": "_x", "y": "_y"}, "cyl2": {"r": "_x", "z": "_y"}, "pol2": {"r": "_x", "theta": "_y"},
                "cart3": {"x": "_x", "y": "_y", "z": "_z"}, "cyl3": {"r": "_x", "theta": "_y", "z": "_z"},
                "sph3": {"r": "_x", "theta": "_y", "phi": "_z"}}
ALL_LABELS = ["x", "y", "z", "r", "theta", "phi"]


def geometric_volumes(mc):
    """closed-form geometric cell volumes from the face arrays (independent of the package)"""
    f = mc.faces if mc.nl is None else [np.linspace(0.0, L, n + 1) for n, L in zip(*mc.nl)]
    k = mc.kind
    d = [np.diff(x) for x in f]
    if k == "cart1":
        return d[0]
    if k == "cart2":
        return d[0][:, None] * d[1][None, :]
    if k == "cart3":
        return d[0][:, None, None] * d[1][None, :, None] * d[2][None, None, :]
    r2 = np.diff(f[0] ** 2) / 2
    r3 = np.diff(f[0] ** 3) / 3
    if k == "cyl1":
        return r2 * 2 * np.pi
    if k == "sph1":
        return r3 * 2 * 2 * np.pi
    if k == "cyl2":
        return r2[:, None] * 2 * np.pi * d[1][None, :]
    if k == "pol2":
        return r2[:, None] * d[1][None, :]
    if k == "cyl3":
        return r2[:, None, None] * d[1][None, :, None] * d[2][None, None, :]
    if k == "sph3":
        dc = -(np.diff(np.cos(f[1])))
        return r3[:, None, None] * dc[None, :, None] * d[2][None, None, :]


def sph3_as_coded(mc):
    f = mc.faces if mc.nl is None else [np.linspace(0.0, L, n + 1) for n, L in zip(*mc.nl)]
    d = [np.diff(x) for x in f]
    r3 = np.diff(f[0] ** 3) / 3
    return r3[:, None, None] * (d[1] * 2 / np.pi)[None, :, None] * d[2][None, None, :]


def search_c10(rng, n, S=None, kinds=None):
    S = S or Search("C10")
    for t in range(n):
        kind = (kinds or KINDS)[t % len(kinds or KINDS)]
        if rng.random() < 0.7:
            mc = rand_mesh(rng, kind, nmax=6)
        else:
            dim = DIM[kind]
            # (N, L) form: also the pairs for which a float-step arange would give one face too many (N = 6, 9, 12, 21, ...)
            Ns = [rng.choice([1, 2, 3, 5, 6, 9, 12, 21, 24, 28]) for _ in range(dim)]
            while dim == 3 and Ns[0] * Ns[1] * Ns[2] > 2000:
                Ns[rng.randrange(3)] = rng.choice([1, 2, 3])
            Ls = [rng.choice([1.0, 0.5, 3.0, float(np.pi)]) for _ in range(dim)]
            mc = MeshCase(kind, [np.linspace(0, L, nn + 1) for nn, L in zip(Ns, Ls)], nl=(Ns, Ls))
        m = mc.m
        inp = case_of(mc)
        S.sig(kind, tuple(mc.dims), "nl" if mc.nl else "faces")
        faces = mc.faces if mc.nl is None else [np.linspace(0.0, L, nn + 1) for nn, L in zip(*mc.nl)]
        # constructor laws
        ok = list(m.dims) == [len(f) - 1 for f in faces]
        S.check(ok, f"C10:dims:{kind}", "dims != number of cells", inp, list(map(int, m.dims)), [len(f) - 1 for f in faces])
        for ax, nm in enumerate(["_x", "_y", "_z"][:mc.dim]):
            fc = np.asarray(getattr(m.facecenters, nm), dtype=float)
            cc = np.asarray(getattr(m.cellcenters, nm), dtype=float)
            cs = np.asarray(getattr(m.cellsize, nm), dtype=float)
            sc = max(1.0, float(np.max(np.abs(faces[ax]))))
            S.check(fc.shape == faces[ax].shape and np.allclose(fc, faces[ax], rtol=0, atol=1e-9 * sc), f"C10:faces:{kind}", "face positions not as given", inp, fc.tolist(), faces[ax].tolist())
            S.check(cc.shape == (len(faces[ax]) - 1,) and np.allclose(cc, 0.5 * (faces[ax][1:] + faces[ax][:-1]), rtol=0, atol=1e-9 * sc), f"C10:centres:{kind}", "centres not midway", inp, cc.tolist(), None)
            exp = np.hstack([faces[ax][1] - faces[ax][0], np.diff(faces[ax]), faces[ax][-1] - faces[ax][-2]])
            S.check(cs.shape == exp.shape and np.allclose(cs, exp, rtol=0, atol=1e-9 * sc) and np.all(cs > 0), f"C10:sizes:{kind}", "cell sizes != face differences (ghosts repeating end cells)", inp, cs.tolist(), exp.tolist())
        V = np.array(m.cellvolume, dtype=float)          # a copy: the array handed out is edited below
        G = geometric_volumes(mc)
        okv = V.shape == G.shape and np.allclose(V, G, rtol=1e-9, atol=0)
        if not okv and kind == "sph3" and V.shape == G.shape and np.allclose(V, sph3_as_coded(mc), rtol=1e-9, atol=0):
            S.check(False, "sph3-cellvolume-theta-factor", "SphericalGrid3D.cellvolume uses Δθ·2/π where the geometric factor is cosθ₁−cosθ₂",
                    inp, V.ravel().tolist()[:8], G.ravel().tolist()[:8])
        else:
            S.check(okv, f"C10:volume:{kind}", "cellvolume is not the geometric cell volume", inp, V.ravel().tolist()[:16], G.ravel().tolist()[:16])
        S.check(bool(np.all(V > 0)), f"C10:volume-positive:{kind}", "non-positive cell volume", inp, V.ravel().tolist()[:16], "> 0")
        # the geometry must stay exact whatever the caller does with the array it was handed
        try:
            Vr = m.cellvolume
            Vr /= Vr.sum()
            V2 = np.asarray(m.cellvolume, dtype=float)
            S.check(V2.shape == V.shape and np.array_equal(V2, V), f"C10:volume-after-edit:{kind}",
                    "cellvolume changed after the caller modified the array returned by an earlier request", inp, V2.ravel().tolist()[:16], V.ravel().tolist()[:16])
        except Exception as ex:
            S.check(False, f"C10:volume-after-edit:{kind}:exception", repr(ex), inp, repr(ex), "no exception")
        if len(S.samples) < 2:
            S.samples.append(inp)
    # labels: exhaustive over classes x labels x the three location objects
    for kind in KINDS:
        mc = rand_mesh(rng, kind, nmax=2)
        for objname in ("cellsize", "cellcenters", "facecenters"):
            obj = getattr(mc.m, objname)
            for lab in ALL_LABELS:
                S.evaluations += 1
                exp = COORD_LABELS[kind].get(lab)
                try:
                    val = getattr(obj, lab)
                    got = "ok"
                except AttributeError:
                    got = "AttributeError"
                except Exception as ex:
                    got = type(ex).__name__
                if exp is None:
                    ok = got == "AttributeError"
                else:
                    ok = got == "ok" and val is getattr(obj, exp)
                if not ok:
                    S.violations.append({"key": f"C10:label:{kind}:{lab}", "what": f"{objname}.{lab} on {kind}", "input": {"kind": kind, "object": objname, "label": lab},
                                         "observed": got, "expected": exp or "AttributeError"})
        S.sig(kind, "labels")
    return S


# ------------------------------------------------------------------ C13

def _clip(x):
    return np.maximum(0.0, x)


SPEC = {
    "CHARM": lambda r: np.where(r > 0, r * (3 * r + 1) / np.where(r > 0, (r + 1) ** 2, 1.0), 0.0),
    "HCUS": lambda r: np.where(r > 0, 3 * r / np.where(r > 0, r + 2, 1.0), 0.0),
    "HQUICK": lambda r: np.where(r > 0, 4 * r / np.where(r > 0, r + 3, 1.0), 0.0),
    "ospre": lambda r: 1.5 * (r * r + r) / (r * r + r + 1),
    "VanLeer": lambda r: (r + np.abs(r)) / (1 + np.abs(r)),
    "VanAlbada1": lambda r: (r * r + r) / (r * r + 1),
    "VanAlbada2": lambda r: 2 * r / (r * r + 1),
    "MinMod": lambda r: _clip(np.minimum(1.0, r)),
    "SUPERBEE": lambda r: _clip(np.maximum(np.minimum(2 * r, 1.0), np.minimum(r, 2.0))),
    "Osher": lambda r: _clip(np.minimum(r, 1.5)),
    "Sweby": lambda r: _clip(np.maximum(np.minimum(1.5 * r, 1.0), np.minimum(r, 1.5))),
    "smart": lambda r: _clip(np.minimum(2 * r, np.minimum(0.25 + 0.75 * r, 4.0))),
    "Koren": lambda r: _clip(np.minimum(2 * r, np.minimum((1 + 2 * r) / 3, 2.0))),
    "MUSCL": lambda r: _clip(np.minimum(2 * r, np.minimum((1 + r) / 2, 2.0))),
    "QUICK": lambda r: _clip(np.minimum(2 * r, np.minimum((3 + r) / 4, 2.0))),
    "UMIST": lambda r: _clip(np.minimum(2 * r, np.minimum((1 + 3 * r) / 4, np.minimum((3 + r) / 4, 2.0)))),
}
CLIPPING = ["MinMod", "SUPERBEE", "Osher", "Sweby", "Koren", "MUSCL", "QUICK", "UMIST", "smart", "VanLeer"]


def search_c13(rng, n_dense, S=None, n_tvd=60):
    S = S or Search("C13")
    from corr import limiter_points
    for name in LIMITERS + ["NoSuchLimiter"]:
        with contextlib.redirect_stdout(io.StringIO()) as out:
            FL = pf.fluxLimiter(name)
        spec = SPEC.get(name, SPEC["SUPERBEE"])
        pts = np.array(limiter_points(rng, n_dense), dtype=float)
        pts = pts[np.abs(pts) < 1e150]      # r*r overflows beyond; the property quantifies to 1e100
        v = np.asarray(FL(pts), dtype=float)
        S.sig(name)
        inp = {"limiter": name}
        S.check(v.shape == pts.shape and bool(np.all(np.isfinite(v))), f"C13:finite:{name}", "non-finite limiter value for finite r",
                {**inp, "r": pts[~np.isfinite(v)][:5].tolist() if v.shape == pts.shape else None}, "nan/inf", "finite")
        if v.shape == pts.shape:
            e = spec(pts)
            sc = np.maximum(1.0, np.abs(e))
            bad = np.nonzero(~(np.abs(v - e) <= 1e-9 * sc))[0]
            S.check(len(bad) == 0, f"C13:formula:{name}", "limiter differs from the published closed form",
                    {**inp, "r": pts[bad][:5].tolist()}, v[bad][:5].tolist(), e[bad][:5].tolist())
            pos = pts > 0
            okb = np.all(v[pos] >= -1e-12) and np.all(v[pos] <= np.minimum(2 * pts[pos], 4.0) * (1 + 1e-12) + 1e-300)
            S.check(bool(okb), f"C13:bounds:{name}", "0 <= psi(r) <= min(2r,4) violated for r>0", inp, None, None)
            if name in CLIPPING:
                S.check(bool(np.all(v[pts <= 0] == 0)), f"C13:nonpos:{name}", "clipping limiter does not vanish for r<=0", inp, None, 0)
        one = float(np.asarray(FL(np.array(1.0))))
        S.check(abs(one - 1.0) <= 1e-12, f"C13:one:{name}", "psi(1) != 1", inp, one, 1.0)
        # shapes 0-3D, elementwise
        for shp in [(), (3,), (2, 3), (2, 2, 2)]:
            a = np.array(rand_vals(rng, shp)) if shp else np.array(rng.choice([-2.0, 0.5, 3.0]))
            w = np.asarray(FL(a))
            ok = w.shape == a.shape and np.allclose(w.ravel(), [float(np.asarray(FL(np.array(x)))) for x in a.ravel()], rtol=0, atol=0, equal_nan=True)
            S.check(bool(ok), f"C13:elementwise:{name}", "limiter does not act elementwise / changes shape", {**inp, "shape": list(shp)}, list(w.shape), list(shp))
    # TVD finite on small integer-valued fields (hit r in {0, ±1, ±2, ±3, inf} exactly)
    for t in range(n_tvd):
        kind = KINDS[t % len(KINDS)]
        mc = rand_mesh(rng, kind, nmax=3, small_bias=True)
        # uniform-ish faces give exact small ratios: use the mesh as generated and integer values
        vals = rand_vals(rng, mc.gshape(), "ints")
        arrs = rand_face_arrays(rng, mc)
        name = LIMITERS[t % len(LIMITERS)]
        with contextlib.redirect_stdout(io.StringIO()):
            FL = pf.fluxLimiter(name)
        inp = case_of(mc, limiter=name, face=arrs, cell=vals)
        try:
            r = pf.convectionTVDupwindRHSTerm(make_facevar(mc, arrs), full_cellvar(mc, vals), FL)
            S.check(bool(np.all(np.isfinite(r))), f"C13:tvd-finite:{name}", "TVD correction is not finite for a finite field", inp, "nan/inf", "finite")
        except Exception as ex:
            S.check(False, f"C13:tvd-exception:{name}", repr(ex), inp, repr(ex), "no exception")
        S.sig("tvd", kind, name)
    return S


# ------------------------------------------------------------------ C11

def _two_point(name, w0, w1, p0, p1):
    """reference two-point means with the same width weighting (independent of the package)"""
    if name == "arithmetic":
        return (w0 * p0 + w1 * p1) / (w0 + w1)
    if name == "linear":
        return (w1 * p0 + w0 * p1) / (w0 + w1)
    if name == "harmonic":
        if p0 == 0 or p1 == 0:
            return 0.0
        return (w0 + w1) / (w0 / p0 + w1 / p1)
    if name == "geometric":
        if p0 == 0 or p1 == 0:
            return 0.0
        return math.exp((w0 * math.log(p0) + w1 * math.log(p1)) / (w0 + w1))


def face_pairs(mc, ax):
    """for every face of axis ax (in C order of the face array): (idx of low cell, idx of high cell) in the ghosted array"""
    rngs = []
    for a, n in enumerate(mc.dims):
        rngs.append(range(0, n + 1) if a == ax else range(1, n + 1))
    out = []
    for idx in itertools.product(*rngs):
        lo = tuple(idx)
        hi = tuple(i + 1 if a == ax else i for a, i in enumerate(idx))
        out.append((lo, hi))
    return out


def search_c11(rng, n, S=None, kinds=None):
    S = S or Search("C11")
    fns = {"arithmetic": pf.arithmeticMean, "linear": pf.linearMean, "harmonic": pf.harmonicMean, "geometric": pf.geometricMean}
    for t in range(n):
        kind = (kinds or KINDS)[t % len(kinds or KINDS)]
        mc = rand_mesh(rng, kind, nmax=4)
        mode = rng.choice(["pos", "pos", "poszero", "mixed"])
        if mode == "poszero":
            vals = rand_vals(rng, mc.gshape(), "pos")
            mask = np.array([rng.random() < 0.35 for _ in range(vals.size)]).reshape(vals.shape)
            vals[mask] = 0.0
        else:
            vals = rand_vals(rng, mc.gshape(), mode)
        # the means are homogeneous of degree one: exercise them over many magnitudes (hidden absolute thresholds)
        mag = 10.0 ** rng.choice([0, 0, -12, -9, -6, 6, 12])
        vals = vals * mag
        phi = full_cellvar(mc, vals)
        sizes = [np.asarray(getattr(mc.m.cellsize, nm), dtype=float) for nm in ["_x", "_y", "_z"][:mc.dim]]
        S.sig(kind, tuple(mc.dims), mode, mag)
        for name, fn in fns.items():
            if mode == "mixed" and name in ("harmonic", "geometric"):
                continue
            inp = case_of(mc, mean=name, cell=vals)
            try:
                out = fn(phi)
            except Exception as ex:
                S.check(False, f"C11:{name}:{kind}:exception", repr(ex), inp, repr(ex), "no exception")
                continue
            for ax, arr in enumerate(facevar_arrays(mc, out)):
                arr = np.asarray(arr, dtype=float).ravel()
                pairs = face_pairs(mc, ax)
                if len(pairs) != arr.size:
                    S.check(False, f"C11:{name}:{kind}:shape", "face array has the wrong size", inp, arr.size, len(pairs))
                    continue
                bad = None
                for k, (lo, hi) in enumerate(pairs):
                    p0, p1 = float(vals[lo]), float(vals[hi])
                    w0, w1 = float(sizes[ax][lo[ax]]), float(sizes[ax][hi[ax]])
                    ref = _two_point(name, w0, w1, p0, p1)
                    v = arr[k]
                    if not (math.isfinite(v) and abs(v - ref) <= 1e-9 * max(abs(ref), abs(p0), abs(p1), 1e-300)):
                        bad = (k, lo, hi, p0, p1, v, ref); break
                    if mode in ("pos", "poszero") and not (min(p0, p1) * (1 - 1e-12) - 1e-300 <= v <= max(p0, p1) * (1 + 1e-12)):
                        bad = (k, lo, hi, p0, p1, v, "between"); break
                zero_pair = bad is not None and bad[3] == 0 and bad[4] == 0
                S.check(bad is None, f"C11:{name}:{'zeros' if zero_pair else 'value'}:{'1d' if mc.dim == 1 else 'nd'}",
                        f"{name}Mean face value is not the width-weighted two-point mean of the adjacent cells" + (" (two adjacent zeros)" if zero_pair else ""),
                        {**inp, "axis": ax, "face": None if bad is None else bad[0]}, None if bad is None else bad[5], None if bad is None else bad[6])
            # ordering HM <= GM <= AM on positive data
        if mode == "pos":
            try:
                H, G, A = pf.harmonicMean(phi), pf.geometricMean(phi), pf.arithmeticMean(phi)
                for ax in range(mc.dim):
                    h, g, a = [np.asarray(facevar_arrays(mc, X)[ax], dtype=float) for X in (H, G, A)]
                    ok = np.all(h <= g * (1 + 1e-12)) and np.all(g <= a * (1 + 1e-12))
                    S.check(bool(ok), f"C11:ordering:{kind}", "harmonic <= geometric <= arithmetic violated", case_of(mc, cell=vals), None, None)
            except Exception as ex:
                S.check(False, f"C11:ordering:{kind}:exception", repr(ex), case_of(mc, cell=vals), repr(ex), "no exception")
        # upwind mean: donor cell / boundary value on inflow faces / average where u = 0
        arrs = rand_face_arrays(rng, mc, rng.choice(["mixed", "zeros", "ints"]))
        inp = case_of(mc, mean="upwind", cell=vals, face=arrs)
        try:
            out = pf.upwindMean(phi, make_facevar(mc, arrs))
            for ax, arr in enumerate(facevar_arrays(mc, out)):
                arr = np.asarray(arr, dtype=float).ravel()
                uu = np.asarray(arrs[ax], dtype=float).ravel()
                bad = None
                for k, (lo, hi) in enumerate(face_pairs(mc, ax)):
                    p0, p1 = float(vals[lo]), float(vals[hi])
                    avg = 0.5 * (p0 + p1)
                    if uu[k] > 0:
                        ref = avg if lo[ax] == 0 else p0
                    elif uu[k] < 0:
                        ref = avg if hi[ax] == mc.dims[ax] + 1 else p1
                    else:
                        ref = avg
                    if not abs(arr[k] - ref) <= 1e-12 * max(1.0, abs(ref)):
                        bad = (k, arr[k], ref); break
                S.check(bad is None, f"C11:upwind:{kind}", "upwindMean is not the donor value (boundary value on inflow boundary faces, average where u = 0)",
                        {**inp, "axis": ax}, None if bad is None else bad[1], None if bad is None else bad[2])
        except Exception as ex:
            S.check(False, f"C11:upwind:{kind}:exception", repr(ex), inp, repr(ex), "no exception")
        # linear mean reproduces linear fields at the face positions
        m = mc.m
        coef = [rng.choice([1.0, -2.0, 0.5]) for _ in range(mc.dim)]
        cen = []
        for ax, nm in enumerate(["_x", "_y", "_z"][:mc.dim]):
            f = np.asarray(getattr(m.facecenters, nm), dtype=float)
            c = np.asarray(getattr(m.cellcenters, nm), dtype=float)
            ds = np.asarray(getattr(m.cellsize, nm), dtype=float)
            cen.append(np.hstack([f[0] - ds[0] / 2, c, f[-1] + ds[-1] / 2]))
        grids = np.meshgrid(*cen, indexing="ij")
        lin = 0.75 + sum(cf * g for cf, g in zip(coef, grids))
        try:
            out = pf.linearMean(full_cellvar(mc, lin))
            for ax, arr in enumerate(facevar_arrays(mc, out)):
                f = np.asarray(getattr(m.facecenters, ["_x", "_y", "_z"][ax]), dtype=float)
                cc = [np.asarray(getattr(m.cellcenters, nm), dtype=float) for nm in ["_x", "_y", "_z"][:mc.dim]]
                cc[ax] = f
                gg = np.meshgrid(*cc, indexing="ij")
                ref = 0.75 + sum(cf * g for cf, g in zip(coef, gg))
                ok = np.allclose(np.asarray(arr, dtype=float), ref, rtol=1e-9, atol=1e-9)
                S.check(bool(ok), f"C11:linear-exact:{kind}", "linearMean does not reproduce a linear field at the face positions", case_of(mc, coef=coef), None, None)
        except Exception as ex:
            S.check(False, f"C11:linear-exact:{kind}:exception", repr(ex), case_of(mc, coef=coef), repr(ex), "no exception")
        if len(S.samples) < 2:
            S.samples.append(inp)
    return S


# ------------------------------------------------------------------ C03

def metric_factor(mc, ax, idx_interior):
    """m of DESIGN §3.3 for the boundary-normal direction `ax` at the interior cell (0-based interior index tuple)"""
    m = mc.m
    k = mc.kind
    if ax == 1 and k in ("pol2", "cyl3", "sph3"):
        return float(m.cellcenters._x[idx_interior[0]])
    if ax == 2 and k == "sph3":
        return float(m.cellcenters._x[idx_interior[0]] * np.sin(m.cellcenters._y[idx_interior[1]]))
    return 1.0


def robin_check(S, mc, bc, V, where, inp):
    """V: ghosted array. Face-by-face Robin residual / periodic wrap on every side."""
    dims = mc.dims
    sizes = [np.asarray(getattr(mc.m.cellsize, nm), dtype=float) for nm in ["_x", "_y", "_z"][:mc.dim]]
    for ax in range(mc.dim):
        lo_f, hi_f = getattr(bc, SIDES[2 * ax]), getattr(bc, SIDES[2 * ax + 1])
        periodic = bool(lo_f.periodic or hi_f.periodic)
        cross = [range(1, n + 1) for a, n in enumerate(dims) if a != ax]
        worst = None
        for cr in itertools.product(*cross):
            def full(i):
                l = list(cr); l.insert(ax, i); return tuple(l)
            cidx = tuple(x - 1 for x in cr)   # 0-based cross index into the BC arrays
            for side, f in ((0, lo_f), (1, hi_f)):
                ic = 1 if side == 0 else dims[ax]
                ig = 0 if side == 0 else dims[ax] + 1
                vc, vg = float(V[full(ic)]), float(V[full(ig)])
                if periodic:
                    ref = float(V[full(dims[ax] if side == 0 else 1)])
                    ok = abs(vg - ref) <= 1e-12 * max(1.0, abs(ref))
                    if not ok and worst is None:
                        worst = ("periodic-wrap", ax, side, cr, vg, ref)
                    continue
                a = float(np.asarray(f.a).reshape(bc_face_shapes(mc)[2 * ax + side])[cidx] if mc.dim > 1 else np.asarray(f.a).ravel()[0])
                b = float(np.asarray(f.b).reshape(bc_face_shapes(mc)[2 * ax + side])[cidx] if mc.dim > 1 else np.asarray(f.b).ravel()[0])
                c = float(np.asarray(f.c).reshape(bc_face_shapes(mc)[2 * ax + side])[cidx] if mc.dim > 1 else np.asarray(f.c).ravel()[0])
                ii = [x - 1 for x in full(ic)]
                mfac = metric_factor(mc, ax, ii)
                dxg = float(sizes[ax][ig])
                ghost_coef = (a / (mfac * dxg) if side == 1 else -a / (mfac * dxg)) + b / 2
                cell_coef = (-a / (mfac * dxg) if side == 1 else a / (mfac * dxg)) + b / 2
                scale = abs(a / (mfac * dxg)) * (abs(vc) + abs(vg)) + abs(b) * (abs(vc) + abs(vg)) / 2 + abs(c)
                if abs(ghost_coef) <= 1e-9 * (abs(a / (mfac * dxg)) + abs(b)):
                    continue          # excluded singular point: the relation does not involve the ghost value
                if not (math.isfinite(vg) and math.isfinite(vc)):
                    if worst is None:
                        worst = ("non-finite", ax, side, cr, vg, None)
                    continue
                quot = (vg - vc) / (mfac * dxg) if side == 1 else (vc - vg) / (mfac * dxg)
                res = a * quot + b * (vc + vg) / 2 - c
                if abs(res) > 1e-9 * max(scale, 1e-300) and worst is None:
                    worst = ("robin", ax, side, cr, res, 0.0)
        S.check(worst is None, f"C03:{where}:{'periodic' if periodic else 'robin'}:{mc.kind}:axis{ax}",
                f"boundary values after {where} do not satisfy the configured condition on axis {ax}", {**inp, "after": where},
                None if worst is None else list(map(str, worst)), "a*dphi/dn + b*phi = c on every face / wrap on periodic axes only")


class RecordingSolver:
    def __init__(self):
        self.calls = []

    def __call__(self, M, RHS):
        from scipy.sparse.linalg import spsolve
        x = spsolve(M, RHS)
        self.calls.append((M.copy(), np.array(RHS, copy=True), np.array(x, copy=True)))
        return x


def c03_utility_methods(S, rng, n):
    """the documented equivalences of the BoundaryFace utility methods, with scalar and face-wise array arguments, on
    every side; arguments are never modified, so the same arrays can be handed to several faces"""
    for t in range(n):
        kind = KINDS[t % len(KINDS)]
        mc = rand_mesh(rng, kind, nmax=3)
        bc = BoundaryConditions(mc.m)
        shapes = bc_face_shapes(mc)
        try:
            for k, name in enumerate(SIDES[:2 * mc.dim]):
                shp = shapes[k]
                f = getattr(bc, name)
                def arr():
                    return rand_vals(rng, shp, "pos") if rng.random() < 0.6 else float(rng.choice([0.5, 2.0, 3.0]))
                how = rng.choice(["fixedValue", "fixedGradient", "newton", "newton-rev", "noflux"])
                args = [arr(), arr(), arr()]
                kept = [np.array(a, copy=True) for a in args]
                if how == "fixedValue":
                    f.fixedValue(args[0]); exp = (0.0, 1.0, kept[0])
                elif how == "fixedGradient":
                    sc = float(rng.choice([1.0, 2.5]))
                    f.fixedGradient(args[0], sc); exp = (sc, 0.0, sc * kept[0])
                elif how == "newton":
                    f.newtonCooling(args[0], args[1], args[2]); exp = (kept[0], kept[1], kept[1] * kept[2])
                elif how == "newton-rev":
                    f.newtonCooling(args[0], args[1], args[2], reverse_direction=True); exp = (kept[0], -kept[1], -kept[1] * kept[2])
                    # the same arrays handed to the opposite face afterwards, not reversed
                    g = getattr(bc, SIDES[k ^ 1])
                    if np.shape(args[1]) == () or np.shape(args[1]) == np.shape(g.b):
                        g.newtonCooling(args[0], args[1], args[2])
                        ok2 = all(np.allclose(np.broadcast_to(np.asarray(x, dtype=float), np.shape(y)), y, rtol=1e-14, atol=0)
                                  for x, y in ((kept[0], g.a), (kept[1], g.b), (kept[1] * kept[2], g.c)))
                        S.check(bool(ok2), f"C03:utility:newton-after-reversed:{kind}",
                                "newtonCooling on a second face with the arrays already used for a reversed face does not give a = k, b = h, c = h*T_ext",
                                {"kind": kind, "side": SIDES[k ^ 1]}, [np.asarray(g.b).ravel().tolist()[:4]], [np.asarray(kept[1]).ravel().tolist()[:4]])
                else:
                    f.fixedValue(args[0]); f.defaultNoFlux(); exp = (1.0, 0.0, 0.0)
                got = (f.a, f.b, f.c)
                ok = all(np.allclose(np.broadcast_to(np.asarray(e, dtype=float), np.shape(gv)), gv, rtol=1e-14, atol=0) for e, gv in zip(exp, got))
                S.check(bool(ok), f"C03:utility:{how}:{kind}", f"BoundaryFace.{how} does not set the documented coefficients", {"kind": kind, "side": name, "how": how},
                        [np.asarray(x).ravel().tolist()[:4] for x in got], [np.asarray(x).ravel().tolist()[:4] for x in exp])
                same = all(np.array_equal(np.asarray(a), b) for a, b in zip(args, kept))
                S.check(bool(same), f"C03:utility:{how}:argument-modified:{kind}", f"BoundaryFace.{how} modified an argument array", {"kind": kind, "side": name, "how": how}, None, None)
            S.sig(kind, "utility")
        except Exception as ex:
            S.check(False, f"C03:utility:{kind}:exception", repr(ex), {"kind": kind}, repr(ex), "no exception")


def search_c03(rng, n, S=None, kinds=None):
    S = S or Search("C03")
    c03_utility_methods(S, rng, max(9, n // 8))
    for t in range(n):
        kind = (kinds or KINDS)[t % len(kinds or KINDS)]
        mc = rand_mesh(rng, kind, nmax=4)
        spec = rand_bc_spec(rng, mc)
        vals = rand_vals(rng, mc.shape(), rng.choice(["mixed", "pos"]))
        inp = case_of(mc, bc=bc_describe(spec), interior=vals)
        S.sig(kind, tuple(mc.dims), tuple(s["kind"][0] + ("P" if s["periodic"] else "") for s in spec))
        try:
            bc = make_bcs(mc, spec)
            phi = pf.CellVariable(mc.m, vals.copy(), bc)
            robin_check(S, mc, bc, np.asarray(phi._value), "construction", inp)
            # reading the profile (the values reported at the boundary faces) must not change what the variable holds,
            # and must give the same answer every time; on the boundary faces it is the face average of ghost and cell
            held = np.array(phi._value, copy=True)
            p1 = phi.plotprofile(); p2 = phi.plotprofile()
            same_prof = all(np.array_equal(np.asarray(x), np.asarray(y), equal_nan=True) for x, y in zip(p1, p2))
            S.check(bool(np.array_equal(np.asarray(phi._value), held, equal_nan=True) and same_prof), f"C03:profile-read-changes-state:{kind}",
                    "plotprofile() changed the values held by the variable, or two successive reads differ", inp, None, None)
            prof = np.asarray(p1[-1], dtype=float)
            if prof.shape == held.shape:
                for ax in range(mc.dim):
                    for pos, gi, ci in ((0, 0, 1), (-1, -1, -2)):
                        sl_p = [slice(1, -1)] * mc.dim; sl_p[ax] = pos
                        sl_g = [slice(1, -1)] * mc.dim; sl_g[ax] = gi
                        sl_c = [slice(1, -1)] * mc.dim; sl_c[ax] = ci
                        face = 0.5 * (held[tuple(sl_g)] + held[tuple(sl_c)])
                        okp = np.allclose(prof[tuple(sl_p)], face, rtol=1e-12, atol=1e-13, equal_nan=True)
                        S.check(bool(okp), f"C03:profile-boundary-value:{kind}", "the boundary value reported by plotprofile() is not the face average of ghost and adjacent cell",
                                {**inp, "axis": ax, "side": pos}, prof[tuple(sl_p)].ravel().tolist()[:6], face.ravel().tolist()[:6])
            # edit BC + apply_BCs
            side = rng.choice(SIDES[:2 * mc.dim])
            getattr(bc, side).c[:] = rng.choice([0.5, -1.0, 2.0])
            phi.apply_BCs()
            robin_check(S, mc, bc, np.asarray(phi._value), "apply_BCs", inp)
            # explicit step
            RHS = np.zeros(int(np.prod(mc.gshape())))
            RHS[:] = rand_vals(rng, mc.gshape()).ravel()
            phi2 = pf.solveExplicitPDE(phi, 0.125, RHS)
            robin_check(S, mc, phi2.BCs, np.asarray(phi2._value), "solveExplicitPDE", inp)
            # implicit step with a recording solver
            D = pf.FaceVariable(mc.m, 1.0)
            rec = RecordingSolver()
            dt = rng.choice([0.1, 1.0, 10.0])
            # a boundary relation whose ghost coefficient b/2 +- a/h vanishes does not determine the ghost value (the model
            # says `none`, the matrix is singular): nothing to check for the solve
            from pyfvtool.boundary import boundaryConditionsTerm as _bct
            Mb = csr_array(_bct(bc)[0])
            dg = np.abs(Mb.diagonal()); rmax = np.asarray(abs(Mb).max(axis=1).todense()).ravel()
            if np.any((rmax > 0) & (dg < 1e-9 * rmax)):
                continue
            pf.solvePDE(phi, [pf.transientTerm(phi, dt, 1.0), -pf.diffusionTerm(D)], externalsolver=rec)
            if np.all(np.isfinite(np.asarray(phi._value))):
                robin_check(S, mc, bc, np.asarray(phi._value), "solvePDE", inp)
                xs = rec.calls[-1][2].reshape(mc.gshape())
                rep = np.asarray(phi._value)
                # compare face ghosts the solver computed with the reported ones
                mask = np.zeros(mc.gshape(), dtype=bool)
                for ax in range(mc.dim):
                    sl = [slice(1, -1)] * mc.dim
                    sl[ax] = 0; mask[tuple(sl)] = True
                    sl[ax] = -1; mask[tuple(sl)] = True
                sc = max(1.0, float(np.max(np.abs(rep[np.isfinite(rep)]))))
                diff = np.abs(xs - rep)[mask]
                ok = bool(np.all(diff <= 1e-8 * sc))
                per_uneq = any((getattr(bc, SIDES[2 * ax]).periodic or getattr(bc, SIDES[2 * ax + 1]).periodic)
                               and abs(np.asarray(getattr(mc.m.cellsize, ["_x", "_y", "_z"][ax]))[1] - np.asarray(getattr(mc.m.cellsize, ["_x", "_y", "_z"][ax]))[-2]) > 1e-12
                               for ax in range(mc.dim))
                key = "periodic-unequal-end-cells" if (not ok and per_uneq) else f"C03:solver-vs-reported:{kind}"
                S.check(ok, key, "ghost unknowns computed by the solver differ from the boundary values reported afterwards", inp,
                        float(np.max(diff)) if diff.size else 0.0, 0.0)
            # a second variable sharing the same BoundaryConditions object, BCs edited, the other variable solved first:
            # the solver's boundary rows of the second variable must still be the current ones
            if not any(sp["periodic"] for sp in spec):
                bcs_ = make_bcs(mc, spec)
                pa = pf.CellVariable(mc.m, vals.copy(), bcs_); pb = pf.CellVariable(mc.m, vals.copy() + 0.5, bcs_)
                sd = getattr(bcs_, rng.choice(SIDES[1:2 * mc.dim] if RADIAL[kind] else SIDES[:2 * mc.dim]))
                sd.a = 0.5; sd.b = 1.0; sd.c = rng.choice([1.5, -0.75, 2.25])
                pf.solvePDE(pa, [pf.transientTerm(pa, dt, 1.0), -pf.diffusionTerm(D)])
                rec2 = RecordingSolver()
                pf.solvePDE(pb, [pf.transientTerm(pb, dt, 1.0), -pf.diffusionTerm(D)], externalsolver=rec2)
                if np.all(np.isfinite(np.asarray(pb._value))):
                    xs2 = rec2.calls[-1][2].reshape(mc.gshape()); rep2 = np.asarray(pb._value)
                    mask2 = np.zeros(mc.gshape(), dtype=bool)
                    for ax in range(mc.dim):
                        sl = [slice(1, -1)] * mc.dim
                        sl[ax] = 0; mask2[tuple(sl)] = True
                        sl[ax] = -1; mask2[tuple(sl)] = True
                    sc2 = max(1.0, float(np.max(np.abs(rep2))))
                    d2 = np.abs(xs2 - rep2)[mask2]
                    S.check(bool(np.all(d2 <= 1e-8 * sc2)), f"C03:shared-bc:solver-vs-reported:{kind}",
                            "with a BoundaryConditions object shared by two variables, the ghost unknowns computed by the solver differ from the boundary values reported afterwards",
                            {**inp, "scenario": "shared BC object, edited, other variable solved first"}, float(np.max(d2)) if d2.size else 0.0, 0.0)
            # scaling (a,b,c) by a non-zero factor changes nothing
            lam = rng.choice([2.0, -3.0, 0.5])
            spec2 = [dict(s, a=s["a"] * lam, b=s["b"] * lam, c=s["c"] * lam) for s in spec]
            bcA, bcB = make_bcs(mc, spec), make_bcs(mc, spec2)
            pA = pf.CellVariable(mc.m, vals.copy(), bcA); pB = pf.CellVariable(mc.m, vals.copy(), bcB)
            pf.solvePDE(pA, [pf.transientTerm(pA, dt, 1.0), -pf.diffusionTerm(D)])
            pf.solvePDE(pB, [pf.transientTerm(pB, dt, 1.0), -pf.diffusionTerm(D)])
            a_, b_ = np.asarray(pA.value), np.asarray(pB.value)
            if np.all(np.isfinite(a_)) and np.all(np.isfinite(b_)):
                sc = max(1.0, float(np.max(np.abs(a_))))
                S.check(bool(np.all(np.abs(a_ - b_) <= 1e-7 * sc)), f"C03:scale-invariance:{kind}", "multiplying (a,b,c) by a non-zero factor changed the solution",
                        {**inp, "factor": lam}, float(np.max(np.abs(a_ - b_))), 0.0)
            # plotprofile boundary entries are the face averages (1-D)
            if mc.dim == 1:
                x, prof = phi.plotprofile()
                V = np.asarray(phi._value)
                ok = abs(prof[0] - 0.5 * (V[0] + V[1])) <= 1e-12 * max(1, abs(prof[0])) and abs(prof[-1] - 0.5 * (V[-1] + V[-2])) <= 1e-12 * max(1, abs(prof[-1]))
                S.check(bool(ok) or not np.all(np.isfinite(V)), f"C03:plotprofile:{kind}", "plot profile boundary entries are not the face averages", inp, None, None)
        except ValueError as ex:
            S.check("Radial periodic" in str(ex) and RADIAL[kind] and (spec[0]["periodic"] or spec[1]["periodic"]),
                    f"C03:{kind}:exception", repr(ex), inp, repr(ex), "no exception")
        except Exception as ex:
            S.check(False, f"C03:{kind}:exception", repr(ex), inp, repr(ex), "no exception")
        if len(S.samples) < 2:
            S.samples.append(inp)
    return S


def replay_c03(body):
    inp = body["input"]
    mc = mesh_from_case(inp)
    spec = [{"kind": s["kind"], "periodic": s["periodic"], "a": np.array(s["a"]), "b": np.array(s["b"]), "c": np.array(s["c"])} for s in inp["bc"]]
    S = Search("C03")
    bc = make_bcs(mc, spec)
    phi = pf.CellVariable(mc.m, np.array(inp["interior"]), bc)
    robin_check(S, mc, bc, np.asarray(phi._value), "construction", inp)
    rec = RecordingSolver()
    D = pf.FaceVariable(mc.m, 1.0)
    pf.solvePDE(phi, [pf.transientTerm(phi, 1.0, 1.0), -pf.diffusionTerm(D)], externalsolver=rec)
    robin_check(S, mc, bc, np.asarray(phi._value), "solvePDE", inp)
    xs = rec.calls[-1][2].reshape(mc.gshape())
    rep = np.asarray(phi._value)
    mask = np.zeros(mc.gshape(), dtype=bool)
    for ax in range(mc.dim):
        sl = [slice(1, -1)] * mc.dim
        sl[ax] = 0; mask[tuple(sl)] = True
        sl[ax] = -1; mask[tuple(sl)] = True
    d = float(np.max(np.abs(xs - rep)[mask]))
    ok = not S.violations and d <= 1e-8 * max(1.0, float(np.max(np.abs(rep))))
    return ok, f"replay C03 on {mc.kind}: robin/wrap violations={len(S.violations)}, max |solver ghost - reported ghost|={d:.3e} -> {'holds' if ok else 'FAILS'}"


# ------------------------------------------------------------------ C01

def vcons(mc):
    """volume the discrete operators are consistent with (product of line weights), up to a constant"""
    m = mc.m
    k = mc.kind
    ds = [np.asarray(getattr(m.cellsize, nm), dtype=float)[1:-1] for nm in ["_x", "_y", "_z"][:mc.dim]]
    r = np.asarray(m.cellcenters._x, dtype=float)
    rf = np.asarray(m.facecenters._x, dtype=float)
    if k.startswith("cart"):
        w = [d for d in ds]
    elif k in ("cyl1", "cyl2", "pol2", "cyl3"):
        w = [r * ds[0]] + ds[1:]
    elif k == "sph1":
        w = [np.diff(rf ** 3) / 3]
    else:  # sph3
        w = [r ** 2 * ds[0], np.sin(np.asarray(m.cellcenters._y, dtype=float)) * ds[1], ds[2]]
    out = w[0]
    for a in range(1, mc.dim):
        out = np.multiply.outer(out, w[a])
    return out


def zero_boundary_faces(mc, arrs, axes=None):
    out = []
    for ax, a in enumerate(arrs):
        a = a.copy()
        if axes is None or ax in axes:
            sl = [slice(None)] * mc.dim
            sl[ax] = 0; a[tuple(sl)] = 0.0
            sl[ax] = -1; a[tuple(sl)] = 0.0
        out.append(a)
    return out


def periodic_mesh(rng, kind, per_axes):
    """mesh whose periodic axes are uniform (equal end cells)"""
    mc0 = rand_mesh(rng, kind, nmax=4)
    faces = []
    for ax, f in enumerate(mc0.faces):
        if ax in per_axes:
            n = len(f) - 1
            h = rng.choice([0.25, 0.5, 1.0]) if not (ax >= 1 and kind in ("pol2", "cyl3", "sph3")) else rng.choice([0.25, 0.5])
            faces.append(f[0] + h * np.arange(n + 1))
        else:
            faces.append(f)
    return MeshCase(kind, faces)


def search_c01(rng, n, S=None, kinds=None):
    S = S or Search("C01")
    for t in range(n):
        kind = (kinds or KINDS)[t % len(kinds or KINDS)]
        mode = ["operator", "closed", "periodic", "explicit", "open1d"][(t // len(kinds or KINDS)) % 5]
        S.sig(kind, mode)
        try:
            if mode == "operator":
                mc = rand_mesh(rng, kind, nmax=4)
                x = rand_vals(rng, mc.gshape())
                term = rng.choice(["diffusion", "convection", "upwind", "tvd", "divergence"])
                arrs = zero_boundary_faces(mc, rand_face_arrays(rng, mc))
                fv = make_facevar(mc, arrs)
                inp = case_of(mc, mode=mode, term=term, face=arrs, cell=x)
                if term == "diffusion":
                    r = pf.diffusionTerm(fv) @ x.ravel(); sc = absmat_scale(pf.diffusionTerm(fv), x.ravel())
                elif term == "convection":
                    r = pf.convectionTerm(fv) @ x.ravel(); sc = absmat_scale(pf.convectionTerm(fv), x.ravel())
                elif term == "upwind":
                    r = pf.convectionUpwindTerm(fv) @ x.ravel(); sc = absmat_scale(pf.convectionUpwindTerm(fv), x.ravel())
                elif term == "tvd":
                    with contextlib.redirect_stdout(io.StringIO()):
                        FL = pf.fluxLimiter(rng.choice(LIMITERS))
                    r = pf.convectionTVDupwindRHSTerm(fv, full_cellvar(mc, x), FL); sc = np.abs(r) + 1e-300
                else:
                    r = pf.divergenceTerm(fv); sc = np.abs(r) + 1e-300
                ri = interior(mc, r); sci = interior(mc, sc)
                for label, V in (("cellvolume", np.asarray(mc.m.cellvolume, dtype=float)), ("vcons", vcons(mc))):
                    tot = float(np.sum(V * ri)); scale = float(np.sum(np.abs(V) * sci))
                    ok = abs(tot) <= 1e-9 * max(scale, 1e-300)
                    if label == "cellvolume" and kind == "sph3":
                        key = "sph3-volume-inconsistent"
                    else:
                        key = f"C01:operator:{term}:{kind}:{label}"
                    S.check(ok, key, f"interior face fluxes of {term} do not cancel in the {label}-weighted sum", {**inp, "weight": label}, tot, 0.0)
            elif mode == "open1d" :
                k1 = ["cart1", "cyl1", "sph1"][t % 3]
                mc = rand_mesh(rng, k1, nmax=5)
                arrs = rand_face_arrays(rng, mc)
                F = arrs[0]
                rf = np.asarray(mc.m.facecenters._x, dtype=float)
                A = {"cart1": np.ones_like(rf), "cyl1": 2 * np.pi * rf, "sph1": 4 * np.pi * rf ** 2}[k1]
                r = interior(mc, pf.divergenceTerm(make_facevar(mc, arrs)))
                V = np.asarray(mc.m.cellvolume, dtype=float)
                tot = float(np.sum(V * r)); exp = float(A[-1] * F[-1] - A[0] * F[0])
                sc = float(np.sum(np.abs(V * r))) + abs(exp)
                S.check(abs(tot - exp) <= 1e-9 * max(sc, 1e-300), f"C01:open:{k1}", "volume-weighted sum of a divergence is not the net flux through the two boundary faces",
                        case_of(mc, mode=mode, face=arrs), tot, exp)
            else:
                per_axes = []
                if mode == "periodic":
                    cand = [ax for ax in range(DIM[kind]) if not (ax == 0 and RADIAL[kind]) and not (kind == "sph3" and ax == 1)]
                    if not cand:
                        continue
                    per_axes = [rng.choice(cand)]
                    # periodic axes with unequal end cells conserve too (2 cases out of 3 are non-uniform)
                    mc = periodic_mesh(rng, kind, per_axes) if rng.random() < 0.34 else rand_mesh(rng, kind, nmax=4)
                else:
                    mc = rand_mesh(rng, kind, nmax=4)
                conv = rng.choice(["none", "central", "upwind", "upwind+tvd"])
                Darr = [np.abs(a) + 0.25 for a in rand_face_arrays(rng, mc, "pos")]
                uarr = rand_face_arrays(rng, mc)
                # closed axes: zero wall-normal velocity; periodic axes: equal end-face coefficients
                closed_axes = [ax for ax in range(mc.dim) if ax not in per_axes]
                uarr = zero_boundary_faces(mc, uarr, closed_axes)
                for ax in per_axes:
                    for arr in (Darr, uarr):
                        sl0 = [slice(None)] * mc.dim; sl1 = [slice(None)] * mc.dim
                        sl0[ax] = 0; sl1[ax] = -1
                        arr[ax][tuple(sl1)] = arr[ax][tuple(sl0)]
                bc = BoundaryConditions(mc.m)
                for ax in per_axes:
                    getattr(bc, SIDES[2 * ax]).periodic = True
                    getattr(bc, SIDES[2 * ax + 1]).periodic = True
                x0 = rand_vals(rng, mc.shape(), "pos")
                phi = pf.CellVariable(mc.m, x0.copy(), bc)
                D = make_facevar(mc, Darr); u = make_facevar(mc, uarr)
                dt = rng.choice([1e-3, 0.1, 1.0, 50.0])
                alpha = rng.choice([1.0, 2.5])
                steps = rng.choice([1, 2, 3])
                inp = case_of(mc, mode=mode, conv=conv, D=Darr, u=uarr, interior=x0, dt=dt, alpha=alpha, steps=steps, periodic_axes=per_axes)
                V = np.asarray(mc.m.cellvolume, dtype=float)
                I0 = float(phi.domainIntegral()); Ic0 = float(np.sum(vcons(mc) * np.asarray(phi.value)))
                # the weights of the integral belong to the mesh: what a caller does with the array it got from `cellvolume`
                # (here: normalising it in place) must not change the integral reported afterwards
                w = mc.m.cellvolume
                w /= w.sum()
                I0b = float(phi.domainIntegral())
                S.check(abs(I0b - I0) <= 1e-12 * max(abs(I0), 1e-300), f"C01:integral-weights-aliased:{kind}",
                        "domainIntegral() changed after the caller modified the array returned by mesh.cellvolume", case_of(mc), I0b, I0)
                with contextlib.redirect_stdout(io.StringIO()):
                    FL = pf.fluxLimiter("Koren")
                for _ in range(steps):
                    if mode == "explicit":
                        Mx = -pf.diffusionTerm(D)
                        if conv == "central":
                            Mx = Mx + pf.convectionTerm(u)
                        elif conv.startswith("upwind"):
                            Mx = Mx + pf.convectionUpwindTerm(u)
                        rhs = -(Mx @ np.asarray(phi._value).ravel())
                        if conv == "upwind+tvd":
                            rhs = rhs + pf.convectionTVDupwindRHSTerm(u, phi, FL)
                        dte = min(dt, 1e-2)
                        phi = pf.solveExplicitPDE(phi, dte, rhs / alpha)
                    else:
                        terms = [pf.transientTerm(phi, dt, alpha), -pf.diffusionTerm(D)]
                        if conv == "central":
                            terms.append(pf.convectionTerm(u))
                        elif conv.startswith("upwind"):
                            terms.append(pf.convectionUpwindTerm(u))
                        if conv == "upwind+tvd":
                            terms.append(pf.convectionTVDupwindRHSTerm(u, phi, FL))
                        pf.solvePDE(phi, terms)
                I1 = float(phi.domainIntegral()); Ic1 = float(np.sum(vcons(mc) * np.asarray(phi.value)))
                sc = float(np.sum(np.abs(V) * (np.abs(x0) + np.abs(np.asarray(phi.value)))))
                scc = float(np.sum(np.abs(vcons(mc)) * (np.abs(x0) + np.abs(np.asarray(phi.value)))))
                if not np.all(np.isfinite(np.asarray(phi.value))):
                    continue
                ok = abs(I1 - I0) <= 1e-8 * max(sc, 1e-300)
                okc = abs(Ic1 - Ic0) <= 1e-8 * max(scc, 1e-300)
                upw_per = bool(per_axes) and conv.startswith("upwind") and any(np.any(uarr[ax] != 0) for ax in per_axes)
                if upw_per:
                    key = keyc = "upwind-periodic-nonconservative"
                else:
                    key = "sph3-volume-inconsistent" if kind == "sph3" else f"C01:{mode}:{conv}:{kind}"
                    keyc = f"C01:{mode}:{conv}:{kind}:vcons"
                S.check(ok, key, f"domainIntegral() changed over {steps} {mode} step(s) of a closed/periodic system", inp, I1 - I0, 0.0)
                S.check(okc, keyc, f"consistent-volume integral changed over {steps} {mode} step(s) of a closed/periodic system", inp, Ic1 - Ic0, 0.0)
                if len(S.samples) < 2:
                    S.samples.append(inp)
        except Exception as ex:
            S.check(False, f"C01:{mode}:{kind}:exception", repr(ex), {"kind": kind, "mode": mode}, repr(ex) , "no exception")
    # two species sharing one BoundaryConditions object: loading through a Dirichlet wall, then the wall is closed
    # (defaultNoFlux) and both must conserve their integrals from then on
    for t in range(max(4, n // 20)):
        kind = rng.choice(["cart1", "cart2", "cyl2", "cart3"])
        try:
            mc = rand_mesh(rng, kind, nmax=3)
            bc = BoundaryConditions(mc.m)
            if t % 2 == 0:          # the wall is opened before the variables exist (their cached terms start as Dirichlet)
                bc.right.fixedValue(1.0)
            a = pf.CellVariable(mc.m, rand_vals(rng, mc.shape(), "pos"), bc)
            b = pf.CellVariable(mc.m, rand_vals(rng, mc.shape(), "pos"), bc)
            D = make_facevar(mc, [np.abs(x) + 0.25 for x in rand_face_arrays(rng, mc, "pos")])
            bc.right.fixedValue(1.0)
            for _ in range(2):
                for v in (a, b):
                    pf.solvePDE(v, [pf.transientTerm(v, 0.5, 1.0), -pf.diffusionTerm(D)])
            bc.right.defaultNoFlux()
            I0 = [float(v.domainIntegral()) for v in (a, b)]
            for _ in range(3):
                for v in (a, b):
                    pf.solvePDE(v, [pf.transientTerm(v, 0.5, 1.0), -pf.diffusionTerm(D)])
            I1 = [float(v.domainIntegral()) for v in (a, b)]
            sc = max(abs(x) for x in I0 + I1) + 1e-300
            S.check(all(abs(x - y) <= 1e-9 * sc for x, y in zip(I0, I1)), f"C01:shared-bc-closed:{kind}",
                    "two variables sharing one BoundaryConditions object: after the wall is closed the domain integral of one of them still changes",
                    case_of(mc, mode="shared-bc-closed"), I1, I0)
            S.sig(kind, "shared-bc-closed")
        except Exception as ex:
            S.check(False, f"C01:shared-bc-closed:{kind}:exception", repr(ex), {"kind": kind}, repr(ex), "no exception")
    return S


# ---------------------------------------------------------------- refused / failed solve, then the corrected call
def refused_then_retry(S, pid, rng, n=9):
    """A solvePDE call that does not complete (unknown term after valid ones -> documented TypeError; external solver
    that raises) followed by the corrected call on the SAME variable must give what the same call gives on a fresh
    variable: the numbers solvePDE produces are determined by the term list and the BCs, not by earlier failed calls.
    (Seeded changes C02-m11, C04-m11, C07-m12, C12-m12, C15-m11: accumulation into the cached boundary system.)"""
    from common import KINDS, rand_mesh, rand_vals, rand_bc_spec, make_bcs, bc_describe
    for t in range(n):
        mc = rand_mesh(rng, KINDS[t % len(KINDS)], nmax=3)
        spec = rand_bc_spec(rng, mc, allow_periodic=False, kinds=("dirichlet", "robin", "default"))
        vals = rand_vals(rng, mc.shape(), "pos")
        try:
            phi = pf.CellVariable(mc.m, vals.copy(), make_bcs(mc, spec))
            twin = pf.CellVariable(mc.m, vals.copy(), make_bcs(mc, spec))
        except ValueError:
            continue
        if not np.all(np.isfinite(np.asarray(phi._value))):
            continue
        D = pf.FaceVariable(mc.m, 1.0)
        src = pf.CellVariable(mc.m, rand_vals(rng, mc.shape(), "pos"))
        dt = 0.25
        def terms(v):
            return [pf.transientTerm(v, dt, 1.0), -pf.diffusionTerm(D), pf.constantSourceTerm(src)]
        inp = case_of(mc, bc=bc_describe(spec), interior=vals, scenario="refused solvePDE then corrected call")
        mode = t % 2
        raised = None
        try:
            if mode == 0:
                pf.solvePDE(phi, terms(phi) + [None])
            else:
                def boom(M, RHS):
                    raise RuntimeError("external solver failed")
                pf.solvePDE(phi, terms(phi), externalsolver=boom)
        except Exception as ex:
            raised = type(ex).__name__
        S.sig("refused-retry", mc.kind, mode)
        if raised is None:
            continue          # acceptance of the unknown term is C16's business
        try:
            pf.solvePDE(phi, terms(phi)); pf.solvePDE(twin, terms(twin))
        except Exception as ex:
            S.check(False, f"{pid}:retry-after-failed-solve-raises", repr(ex), inp, repr(ex), "no exception")
            continue
        a, b = np.asarray(phi.value), np.asarray(twin.value)
        if not (np.all(np.isfinite(a)) and np.all(np.isfinite(b))):
            continue
        ok = bool(np.allclose(a, b, rtol=1e-9, atol=1e-9 * (1 + float(np.max(np.abs(b))))))
        S.check(ok, f"{pid}:retry-after-failed-solve-differs",
                "after a solvePDE call that raised (unknown term / failing external solver) the corrected call on the same variable "
                "differs from the same call on a fresh variable", inp, float(np.max(np.abs(a - b))), 0.0)
    return S
