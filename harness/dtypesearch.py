"""Implementation-only search: integer-typed inputs.

Every property quantifies over "any field / any spacing"; a field whose numbers happen to be whole may reach the
package as an int64 array (faces given as np.array([0, 1, 3, 6]), a velocity built with np.where(cond, 2, -2), cell
values from np.arange, a FaceVariable built from the Python int 2).  The answer must be the one obtained with the same
numbers typed as float64.  This module evaluates each family of public functions on both typings and compares; it
never consults the model.  Keys: "<Cxx>:int-dtype:<what>:<kind>" so that each property's check reports the families it
relies on (areas below).
"""
import numpy as np
import pyfvtool as pf
from common import KINDS, DIM, RADIAL, KIND_CLASS
from implsearch import Search

AREAS = {
    "mesh": "faces given as an integer array",
    "ghost": "integer-typed cell values -> ghost cells / boundary values",
    "means": "integer-typed cell values (also ghost-shaped) -> face means",
    "ops": "integer-typed mesh / velocity / field -> matrix terms, divergence, gradient, TVD",
    "face-arith": "FaceVariable built from Python ints / integer arrays -> arithmetic",
    "steps": "integer-typed values -> explicit and implicit steps, value assignment",
}

UNBOUNDED = ("cart1", "cart2", "cart3", "cyl1", "cyl2", "sph1")


def int_faces(rng, kind):
    out = []
    for ax in range(DIM[kind]):
        n = rng.choice([1, 2, 3, 4])
        start = rng.choice([0, 0, 1, 2]) if not (ax == 0 and RADIAL[kind]) else rng.choice([0, 1, 2])
        steps = [rng.choice([1, 2, 3]) for _ in range(n)]
        out.append(np.array([start] + list(start + np.cumsum(steps)), dtype=np.int64))
    return out


def meshes(kind, faces):
    cls = KIND_CLASS[kind]
    return cls(*[f.copy() for f in faces]), cls(*[f.astype(float) for f in faces])


def ints(rng, shape, lo=-3, hi=3, nonzero=False):
    a = np.array([rng.randint(lo, hi) for _ in range(int(np.prod(shape)))], dtype=np.int64).reshape(shape)
    if nonzero:
        a[a == 0] = 1
    return a


def face_shapes(dims):
    d = list(dims)
    return [tuple(d[:ax] + [d[ax] + 1] + d[ax + 1:]) for ax in range(len(d))]


def fv(m, arrs, dtype):
    a = [np.array(x, dtype=dtype) for x in arrs] + [np.array([])] * (3 - len(arrs))
    return pf.FaceVariable(m, a[0], a[1], a[2])


def same(a, b, rtol=1e-12):
    a = np.asarray(a, dtype=float); b = np.asarray(b, dtype=float)
    if a.shape != b.shape:
        return False
    if not (np.all(np.isfinite(a)) and np.all(np.isfinite(b))):
        return bool(np.array_equal(np.isfinite(a), np.isfinite(b)) and np.allclose(a[np.isfinite(a)], b[np.isfinite(b)], rtol=rtol, atol=0))
    sc = max(float(np.max(np.abs(b))) if b.size else 0.0, 1e-300)
    return bool(np.all(np.abs(a - b) <= rtol * sc + 0 * a))


def dense(M):
    return np.asarray(M.todense()) if hasattr(M, "todense") else np.asarray(M)


def fv_arrays(f, dim):
    return [f._xvalue, f._yvalue, f._zvalue][:dim]


def search_dtype(rng, n, areas, pid="C05", S=None):
    S = S or Search(pid)
    kinds = list(UNBOUNDED)
    for t in range(n):
        kind = kinds[t % len(kinds)]
        dim = DIM[kind]
        try:
            faces = int_faces(rng, kind)
            mi, mf = meshes(kind, faces)
            dims = [len(f) - 1 for f in faces]
            inp = {"kind": kind, "faces": [f.tolist() for f in faces]}
            S.sig(kind, tuple(dims), "int")

            def chk(area, what, got, exp, extra=None):
                ok = same(got, exp)
                S.check(ok, f"{pid}:int-dtype:{what}:{kind}", f"{AREAS[area]}: result differs from the one obtained with the same numbers typed as float64 ({what})",
                        {**inp, **(extra or {})}, np.asarray(got, dtype=float).ravel().tolist()[:12], np.asarray(exp, dtype=float).ravel().tolist()[:12])

            if "mesh" in areas:
                for nm in ("_x", "_y", "_z")[:dim]:
                    for obj in ("cellsize", "cellcenters", "facecenters"):
                        chk("mesh", f"{obj}{nm}", getattr(getattr(mi, obj), nm), getattr(getattr(mf, obj), nm))
                chk("mesh", "cellvolume", mi.cellvolume, mf.cellvolume)
            # integer-valued data
            cells = ints(rng, dims, 0, 5)
            ghosted = ints(rng, [d + 2 for d in dims], 0, 5)
            uarrs = [ints(rng, s, -2, 2) for s in face_shapes(dims)]
            Darrs = [ints(rng, s, 1, 4) for s in face_shapes(dims)]
            ex = {"cells": cells.tolist(), "u": [a.tolist() for a in uarrs]}

            def bcs(m):
                bc = pf.BoundaryConditions(m)
                bc.left.a[:] = 1.0; bc.left.b[:] = 2.0; bc.left.c[:] = 3.0
                bc.right.fixedValue(0.5)
                return bc
            if "ghost" in areas:
                for vals, nm in ((cells, "interior"),):
                    a = pf.CellVariable(mi, vals.copy(), bcs(mi))
                    b = pf.CellVariable(mf, vals.astype(float), bcs(mf))
                    chk("ghost", f"ghost-cells-{nm}", a._value, b._value, ex)
                    a.apply_BCs(); b.apply_BCs()
                    chk("ghost", f"ghost-cells-after-apply-{nm}", a._value, b._value, ex)
            if "means" in areas:
                for vals, nm in ((cells, "interior"), (ghosted, "ghost-shaped")):
                    pos = np.abs(vals) + 1
                    a = pf.CellVariable(mi, pos.copy(), bcs(mi)); b = pf.CellVariable(mf, pos.astype(float), bcs(mf))
                    ui, uf = fv(mi, uarrs, np.int64), fv(mf, uarrs, float)
                    for fname in ("linearMean", "arithmeticMean", "harmonicMean", "geometricMean"):
                        fa, fb = getattr(pf, fname)(a), getattr(pf, fname)(b)
                        for ax, (x, y) in enumerate(zip(fv_arrays(fa, dim), fv_arrays(fb, dim))):
                            chk("means", f"{fname}-{nm}-ax{ax}", x, y, {"values": pos.tolist()})
                    fa, fb = pf.upwindMean(a, ui), pf.upwindMean(b, uf)
                    for ax, (x, y) in enumerate(zip(fv_arrays(fa, dim), fv_arrays(fb, dim))):
                        chk("means", f"upwindMean-{nm}-ax{ax}", x, y, {"values": pos.tolist(), "u": ex["u"]})
            if "ops" in areas:
                ui, uf = fv(mi, uarrs, np.int64), fv(mf, uarrs, float)
                Di, Df = fv(mi, Darrs, np.int64), fv(mf, Darrs, float)
                a = pf.CellVariable(mi, cells.copy(), bcs(mi)); b = pf.CellVariable(mf, cells.astype(float), bcs(mf))
                chk("ops", "diffusionTerm", dense(pf.diffusionTerm(Di)), dense(pf.diffusionTerm(Df)), ex)
                chk("ops", "convectionTerm", dense(pf.convectionTerm(ui)), dense(pf.convectionTerm(uf)), ex)
                chk("ops", "convectionUpwindTerm", dense(pf.convectionUpwindTerm(ui)), dense(pf.convectionUpwindTerm(uf)), ex)
                chk("ops", "divergenceTerm", pf.divergenceTerm(ui), pf.divergenceTerm(uf), ex)
                for lim in ("SUPERBEE", "VanLeer"):
                    FL = pf.fluxLimiter(lim)
                    chk("ops", f"convectionTVDupwindRHSTerm-{lim}", pf.convectionTVDupwindRHSTerm(ui, a, FL), pf.convectionTVDupwindRHSTerm(uf, b, FL), ex)
                ga, gb = pf.gradientTerm(a), pf.gradientTerm(b)
                for ax, (x, y) in enumerate(zip(fv_arrays(ga, dim), fv_arrays(gb, dim))):
                    chk("ops", f"gradientTerm-ax{ax}", x, y, ex)
                Mi, Ri = pf.boundaryConditionsTerm(bcs(mi)); Mf, Rf = pf.boundaryConditionsTerm(bcs(mf))
                chk("ops", "boundaryConditionsTerm-matrix", dense(Mi), dense(Mf), ex)
                chk("ops", "boundaryConditionsTerm-rhs", Ri, Rf, ex)
                chk("ops", "linearSourceTerm", dense(pf.linearSourceTerm(pf.CellVariable(mi, cells.copy()))), dense(pf.linearSourceTerm(pf.CellVariable(mf, cells.astype(float)))), ex)
                chk("ops", "constantSourceTerm", pf.constantSourceTerm(pf.CellVariable(mi, cells.copy())), pf.constantSourceTerm(pf.CellVariable(mf, cells.astype(float))), ex)
            if "face-arith" in areas:
                k = rng.choice([2, 3, 10])
                for cons, nm in ((lambda m, dt: pf.FaceVariable(m, k if dt is np.int64 else float(k)), f"scalar-{k}"),
                                 (lambda m, dt: fv(m, [np.abs(x) + 1 for x in uarrs], dt), "arrays")):
                    A, B = cons(mi, np.int64), cons(mf, float)
                    for opname, op in (("pow-neg", lambda x: x ** -1), ("truediv", lambda x: x / 4), ("rtruediv", lambda x: 1 / x), ("pow-big", lambda x: x ** 20),
                                       ("mul", lambda x: x * x), ("neg", lambda x: -x), ("add-float", lambda x: x + 0.5)):
                        try:
                            ra = fv_arrays(op(A), dim)
                        except Exception as exn:
                            S.check(False, f"{pid}:int-dtype:face-{opname}-{nm}:{kind}", f"{AREAS['face-arith']}: raised {exn!r}", inp, repr(exn), "same as float")
                            continue
                        rb = fv_arrays(op(B), dim)
                        for ax, (x, y) in enumerate(zip(ra, rb)):
                            chk("face-arith", f"face-{opname}-{nm}-ax{ax}", x, y)
            if "steps" in areas:
                a = pf.CellVariable(mi, cells.copy(), bcs(mi)); b = pf.CellVariable(mf, cells.astype(float), bcs(mf))
                Di, Df = fv(mi, Darrs, np.int64), fv(mf, Darrs, float)
                ra = pf.solveExplicitPDE(a, 0.125, pf.divergenceTerm(Di * pf.gradientTerm(a)))
                rb = pf.solveExplicitPDE(b, 0.125, pf.divergenceTerm(Df * pf.gradientTerm(b)))
                chk("steps", "explicit-step", ra.value, rb.value, ex)
                # the generated system may be singular (e.g. Robin data on the r = 0 face): then both typings must fail alike
                errs = []
                for var, Dv in ((a, Di), (b, Df)):
                    try:
                        pf.solvePDE(var, [pf.transientTerm(var, 0.5, 1.0), -pf.diffusionTerm(Dv)]); errs.append(None)
                    except Exception as exn:
                        errs.append(type(exn).__name__)
                if errs[0] is None and errs[1] is None:
                    chk("steps", "implicit-step", a.value, b.value, ex)
                else:
                    S.check(errs[0] == errs[1], f"{pid}:int-dtype:implicit-step-raises:{kind}", f"{AREAS['steps']}: only one of the two typings raised", {**inp, **ex}, errs[0], errs[1])
                # value assignment on variables built from integer arrays (interior- and ghost-shaped)
                for vals, nm in ((cells, "interior"), (ghosted, "ghost-shaped")):
                    a = pf.CellVariable(mi, vals.copy()); b = pf.CellVariable(mf, vals.astype(float))
                    new = ints(rng, dims, 0, 5) + 0.5
                    a.value = new; b.value = new
                    chk("steps", f"value-assign-{nm}", a.value, b.value, {"new": new.tolist()})
        except Exception as exn:
            import traceback
            S.check(False, f"{pid}:int-dtype:exception:{kind}", repr(exn), {"kind": kind, "trace": traceback.format_exc()[-600:]}, repr(exn), "no exception")
    return S
