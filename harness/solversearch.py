"""Solver-level implementation searches (C02, C04, C07, C08, C12, C17).

Like implsearch.py these evaluate the properties directly on the real code, never the
model; tolerances are far above rounding.  Used to find replayable failing inputs when an
obligation / correspondence breaks and as additional exploration on every run.
"""
import math, io, contextlib, itertools, copy
import numpy as np
from scipy.sparse import csr_array
from common import *
from implsearch import (Search, case_of, mesh_from_case, interior, vec_close, absmat_scale, full_cellvar,
                        no_zero, robin_check, zero_boundary_faces, periodic_mesh, RecordingSolver, vcons)
from corr import LIMITERS


def quiet_limiter(name):
    with contextlib.redirect_stdout(io.StringIO()):
        return pf.fluxLimiter(name)


def wellposed_bcs(rng, mc, kinds=("dirichlet", "noflux", "robin"), periodic_ok=True, at_least_one_dirichlet=True):
    """BC spec that keeps transient-diffusion systems comfortably non-singular"""
    spec = []
    shapes = bc_face_shapes(mc)
    for ax in range(mc.dim):
        per = periodic_ok and rng.random() < 0.2 and not (ax == 0 and RADIAL[mc.kind])
        for side in range(2):
            shp = shapes[2 * ax + side]
            k = rng.choice(kinds)
            if k == "dirichlet":
                a, b, c = np.zeros(shp), np.ones(shp), np.full(shp, rng.choice([0.0, 1.0, 2.0, 0.5]))
            elif k == "noflux":
                a, b, c = np.ones(shp), np.zeros(shp), np.zeros(shp)
            else:  # Robin with signs of a physical Newton-cooling condition (outward flux = h (phi - ext))
                sgn = 1.0 if side == 1 else -1.0
                a, b, c = np.full(shp, sgn * rng.choice([1.0, 2.0])), np.full(shp, rng.choice([1.0, 0.5])), np.full(shp, rng.choice([0.0, 1.0]))
            spec.append({"kind": k, "a": a, "b": b, "c": c, "periodic": bool(per)})
    if at_least_one_dirichlet and not (spec[1]["kind"] in ("dirichlet", "robin") and not spec[1]["periodic"]):
        # the high side of the first axis always has a non-degenerate face area (the low side may be the axis r = 0,
        # whose boundary condition cannot influence the interior): anchor the problem there
        s = spec[1]
        shp = shapes[1]
        s.update(kind="dirichlet", a=np.zeros(shp), b=np.ones(shp), c=np.full(shp, 1.0), periodic=False)
        spec[0]["periodic"] = False
    return spec


def spatial_terms(rng, mc, phi, kinds=("diffusion",), posD=True, store=None):
    """list of (name, python term) of a physically signed spatial operator: -div(D grad) + div(u .) + beta ."""
    out = []
    desc = {}
    if "diffusion" in kinds:
        Darr = [np.abs(a) + 0.25 for a in rand_face_arrays(rng, mc, "pos")]
        out.append(("diffusion", -pf.diffusionTerm(make_facevar(mc, Darr))))
        desc["D"] = [a.tolist() for a in Darr]
    if "central" in kinds:
        uarr = [0.25 * a for a in rand_face_arrays(rng, mc)]
        out.append(("central", pf.convectionTerm(make_facevar(mc, uarr))))
        desc["u_central"] = [a.tolist() for a in uarr]
    if "upwind" in kinds:
        uarr = rand_face_arrays(rng, mc)
        out.append(("upwind", pf.convectionUpwindTerm(make_facevar(mc, uarr))))
        desc["u_upwind"] = [a.tolist() for a in uarr]
    if "linsrc" in kinds:
        b = rand_vals(rng, mc.shape(), "pos")
        out.append(("linsrc", pf.linearSourceTerm(pf.CellVariable(mc.m, b))))
        desc["beta"] = b.tolist()
    if "constsrc" in kinds:
        g = rand_vals(rng, mc.shape())
        out.append(("constsrc", pf.constantSourceTerm(pf.CellVariable(mc.m, g))))
        desc["gamma"] = g.tolist()
    if store is not None:
        store.update(desc)
    return out


# ------------------------------------------------------------------ C04

def c04_signed_pairs(S, rng, n):
    """(matrix, vector) pairs wrapped in utilities.SignedTuple so that they can be negated: negation returns the negated
    pair and leaves the original alone, so a pair built once can be written as `-Q` in the term list of every step"""
    from pyfvtool.boundary import boundaryConditionsTerm
    from pyfvtool.utilities import SignedTuple
    from scipy.sparse.linalg import spsolve
    for t in range(n):
        kind = ["cart1", "cyl1", "cart2", "cyl2", "sph1"][t % 5]
        mc = rand_mesh(rng, kind, nmax=3)
        try:
            spec = wellposed_bcs(rng, mc)
            bc = make_bcs(mc, spec)
            phi = pf.CellVariable(mc.m, rand_vals(rng, mc.shape()), bc)
            beta = np.abs(rand_vals(rng, mc.shape(), "pos")) + 0.5
            gamma = rand_vals(rng, mc.shape())
            Q = SignedTuple((pf.linearSourceTerm(pf.CellVariable(mc.m, beta)), pf.constantSourceTerm(pf.CellVariable(mc.m, gamma))))
            M0 = csr_array(Q[0]).copy(); R0 = np.array(Q[1], copy=True)
            D = make_facevar(mc, [np.abs(a) + 0.25 for a in rand_face_arrays(rng, mc, "pos")])
            inp = case_of(mc, bc=bc_describe(spec), beta=beta, gamma=gamma)
            for step in range(3):
                old = np.array(phi._value, copy=True)
                Mt, Rt = pf.transientTerm(phi, 0.5, 1.0)
                Md = pf.diffusionTerm(D)
                nQ = -Q
                neg_ok = abs(csr_array(nQ[0]) + M0).max() == 0 and np.array_equal(np.asarray(nQ[1]), -R0)
                kept = abs(csr_array(Q[0]) - M0).max() == 0 and np.array_equal(np.asarray(Q[1]), R0)
                S.check(bool(neg_ok and kept), f"C04:signed-pair-negation:{kind}", "negating a SignedTuple pair does not return the negated pair, or changes the original pair",
                        {**inp, "step": step}, None, None)
                pf.solvePDE(phi, [(Mt, Rt), -Md, -Q])
                Mb, Rb = boundaryConditionsTerm(phi.BCs)
                ref = spsolve(csr_array(Mb) + csr_array(Mt) - csr_array(Md) - M0, np.asarray(Rb) + np.asarray(Rt) - R0)
                got = np.asarray(phi._value).ravel()
                inner = np.zeros(mc.gshape(), dtype=bool); inner[tuple(slice(1, -1) for _ in mc.dims)] = True
                sc = max(1.0, float(np.max(np.abs(ref))))
                S.check(bool(np.all(np.abs(got - ref)[inner.ravel()] <= 1e-9 * sc)), f"C04:signed-pair-solve:{kind}",
                        "solvePDE with a negated SignedTuple pair (built once, negated at every step) differs from the system assembled from independent copies",
                        {**inp, "step": step}, got[inner.ravel()].tolist()[:8], ref[inner.ravel()].tolist()[:8])
            S.sig(kind, "signed-pair")
        except Exception as ex:
            S.check(False, f"C04:signed-pair:{kind}:exception", repr(ex), {"kind": kind}, repr(ex), "no exception")


def search_c04(rng, n, S=None, kinds=None):
    from pyfvtool.boundary import boundaryConditionsTerm
    S = S or Search("C04")
    c04_signed_pairs(S, rng, max(5, n // 8))
    for t in range(n):
        kind = (kinds or KINDS)[t % len(kinds or KINDS)]
        mc = rand_mesh(rng, kind, nmax=3)
        spec = wellposed_bcs(rng, mc)
        x0 = rand_vals(rng, mc.shape())
        desc = {}
        try:
            bc = make_bcs(mc, spec)
            phi = pf.CellVariable(mc.m, x0.copy(), bc)
            tk = rng.sample(["diffusion", "central", "upwind", "linsrc", "constsrc"], rng.choice([2, 3, 4]))
            if "diffusion" not in tk:
                tk.append("diffusion")
            sp = spatial_terms(rng, mc, phi, tk, store=desc)
            dt = rng.choice([0.05, 1.0, 20.0])
            tr = pf.transientTerm(phi, dt, 1.0)
            terms = [tr] + [t_ for _, t_ in sp]
            inp = case_of(mc, bc=bc_describe(spec), interior=x0, dt=dt, terms=[nm for nm, _ in sp], **desc)
            S.sig(kind, tuple(mc.dims), tuple(sorted(tk)))
            # (1) the system handed to the solver = Mbc + sum of the terms, by independent assembly
            Mbc, RHSbc = boundaryConditionsTerm(bc)
            Mh = csr_array(Mbc).copy(); Rh = np.array(RHSbc, dtype=float, copy=True)
            for term in terms:
                if isinstance(term, tuple):
                    Mh = Mh + term[0]; Rh = Rh + term[1]
                elif term.ndim == 2:
                    Mh = Mh + term
                else:
                    Rh = Rh + term
            rec = RecordingSolver()
            phi1 = pf.CellVariable(mc.m, x0.copy(), make_bcs(mc, spec))
            ret = pf.solvePDE(phi1, terms, externalsolver=rec)
            M, RHS, xs = rec.calls[-1]
            S.check(ret is phi1, f"C04:returns-argument:{kind}", "solvePDE did not return the variable it was given", inp, "different object", "same object")
            S.check(len(rec.calls) == 1, f"C04:solver-calls:{kind}", "external solver not called exactly once", inp, len(rec.calls), 1)
            dM = abs(csr_array(M) - Mh)
            scM = max(1.0, float(abs(Mh).max()))
            S.check(float(dM.max()) <= 1e-12 * scM and np.allclose(RHS, Rh, rtol=1e-12, atol=1e-12 * max(1.0, float(np.max(np.abs(Rh))))),
                    f"C04:system:{kind}", "system handed to the solver differs from boundary term + sum of the terms", inp, float(dM.max()), 0.0)
            if not np.all(np.isfinite(xs)):
                continue
            # (2) stored values satisfy the equations (interior and boundary rows)
            res = Mh @ np.asarray(xs) - Rh
            sc = absmat_scale(Mh, np.asarray(xs), Rh)
            ok, _ = vec_close(res, np.zeros_like(res), sc * 1e3)
            S.check(ok, f"C04:residual:{kind}", "solver result does not satisfy (sum of matrix terms) phi = (sum of vector terms) with the boundary equations", inp,
                    float(np.max(np.abs(res))), 0.0)
            S.check(bool(np.allclose(np.asarray(phi1.value), interior(mc, xs), rtol=1e-12, atol=1e-14)), f"C04:stored:{kind}",
                    "interior values stored in the variable are not the solver's", inp, None, None)
            # (3) solveMatrixPDE on the hand-assembled system
            pm = pf.solveMatrixPDE(mc.m, Mh, Rh)
            sclx = max(1.0, float(np.max(np.abs(xs))))
            S.check(bool(np.all(np.abs(np.asarray(pm.value) - np.asarray(phi1.value)) <= 1e-9 * sclx)), f"C04:solveMatrixPDE:{kind}",
                    "solveMatrixPDE on the hand-assembled system differs from solvePDE", inp, None, None)
            # (4) order of terms / split and negated terms
            perm = terms[:]
            rng.shuffle(perm)
            phi2 = pf.CellVariable(mc.m, x0.copy(), make_bcs(mc, spec))
            pf.solvePDE(phi2, perm)
            S.check(bool(np.all(np.abs(np.asarray(phi2.value) - np.asarray(phi1.value)) <= 1e-9 * sclx)), f"C04:order:{kind}",
                    "permuting the term list changed the solution", inp, None, None)
            alt = [tr]
            for nm, t_ in sp:
                if nm == "constsrc":
                    alt += [0.5 * t_, 0.5 * t_]
                else:
                    alt += [2.0 * t_, -t_]
            phi3 = pf.CellVariable(mc.m, x0.copy(), make_bcs(mc, spec))
            pf.solvePDE(phi3, alt)
            S.check(bool(np.all(np.abs(np.asarray(phi3.value) - np.asarray(phi1.value)) <= 1e-9 * sclx)), f"C04:scaled-terms:{kind}",
                    "replacing a term T by [2T, -T] (or γ by two halves) changed the solution", inp, None, None)
            # (5) default solver == external solver with the identical system
            phi4 = pf.CellVariable(mc.m, x0.copy(), make_bcs(mc, spec))
            pf.solvePDE(phi4, terms)
            S.check(bool(np.all(np.abs(np.asarray(phi4.value) - np.asarray(phi1.value)) <= 1e-10 * sclx)), f"C04:external-solver:{kind}",
                    "external solver path and default path disagree", inp, None, None)
            # (5b) a variable whose BoundaryConditions object is shared with another variable that was solved first after an edit
            bcsh = make_bcs(mc, spec)
            pa = pf.CellVariable(mc.m, x0.copy(), bcsh); pb = pf.CellVariable(mc.m, x0.copy(), bcsh)
            sd = getattr(bcsh, SIDES[1])
            sd.a = 0.0; sd.b = 1.0; sd.c = rng.choice([1.5, -0.75, 2.25])
            pf.solvePDE(pa, [pf.transientTerm(pa, dt, 1.0)] + [t_ for _, t_ in sp])
            recb = RecordingSolver()
            pf.solvePDE(pb, [pf.transientTerm(pb, dt, 1.0)] + [t_ for _, t_ in sp], externalsolver=recb)
            Mb, Rb, xb_ = recb.calls[-1]
            Mbc2, RHSbc2 = boundaryConditionsTerm(bcsh)
            Mh2 = csr_array(Mbc2).copy(); Rh2 = np.array(RHSbc2, dtype=float, copy=True)
            for term in [pf.transientTerm(pf.CellVariable(mc.m, x0.copy(), make_bcs(mc, spec)), dt, 1.0)] + [t_ for _, t_ in sp]:
                if isinstance(term, tuple):
                    Mh2 = Mh2 + term[0]; Rh2 = Rh2 + term[1]
                elif term.ndim == 2:
                    Mh2 = Mh2 + term
                else:
                    Rh2 = Rh2 + term
            S.check(float(abs(csr_array(Mb) - Mh2).max()) <= 1e-12 * max(1.0, float(abs(Mh2).max())) and np.allclose(Rb, Rh2, rtol=1e-12, atol=1e-12 * max(1.0, float(np.max(np.abs(Rh2))))),
                    f"C04:system-shared-bc:{kind}", "with a shared BoundaryConditions object the system handed to the solver is not (current boundary term + sum of the terms)", inp, None, None)
            # (5c) the in-place contract also holds for a variable that came from the explicit solver
            #      (it has no precalculated boundary terms) and for one constructed with BCsTerm_precalc=False
            for how in ("explicit", "noprecalc"):
                if how == "explicit":
                    p0 = pf.CellVariable(mc.m, x0.copy(), make_bcs(mc, spec))
                    pe = pf.solveExplicitPDE(p0, 1e-3, np.zeros(int(np.prod(mc.gshape()))))
                else:
                    pe = pf.CellVariable(mc.m, x0.copy(), make_bcs(mc, spec), BCsTerm_precalc=False)
                old_int = np.array(pe.value, copy=True)
                tl = [pf.transientTerm(pe, dt, 1.0)] + [t_ for _, t_ in sp]
                rece = RecordingSolver()
                rete = pf.solvePDE(pe, tl, externalsolver=rece)
                S.check(rete is pe, f"C04:returns-argument-{how}:{kind}", f"solvePDE on a variable without precalculated boundary terms ({how}) did not return / update the variable it was given",
                        inp, "different object", "same object")
                xe = rece.calls[-1][2]
                if np.all(np.isfinite(xe)):
                    S.check(bool(np.allclose(np.asarray(pe.value), interior(mc, xe), rtol=1e-12, atol=1e-14)), f"C04:stored-{how}:{kind}",
                            f"the variable passed to solvePDE ({how}) does not hold the solver's solution afterwards", inp,
                            float(np.max(np.abs(np.asarray(pe.value) - interior(mc, xe)))), 0.0)
            # (6) linearity in sources, boundary data c, previous values
            s_ = rng.choice([2.0, -0.5, 3.0])
            Dm = -pf.diffusionTerm(make_facevar(mc, [np.array(a) for a in desc["D"]]))

            def run(old, gam, cscale_spec):
                p = pf.CellVariable(mc.m, old.copy(), make_bcs(mc, cscale_spec))
                pf.solvePDE(p, [pf.transientTerm(p, dt, 1.0), Dm, pf.constantSourceTerm(pf.CellVariable(mc.m, gam))])
                return np.asarray(p.value).copy()
            old1, old2 = rand_vals(rng, mc.shape()), rand_vals(rng, mc.shape())
            g1, g2 = rand_vals(rng, mc.shape()), rand_vals(rng, mc.shape())
            spec1 = spec
            spec2 = [dict(s, c=rand_vals(rng, s["c"].shape)) for s in spec]
            spec3 = [dict(s1, c=s_ * s1["c"] + s2["c"]) for s1, s2 in zip(spec1, spec2)]
            xa, xb = run(old1, g1, spec1), run(old2, g2, spec2)
            xc = run(s_ * old1 + old2, s_ * g1 + g2, spec3)
            sc3 = max(1.0, float(np.max(np.abs(xa))), float(np.max(np.abs(xb))))
            if np.all(np.isfinite(xc)):
                S.check(bool(np.all(np.abs(xc - (s_ * xa + xb)) <= 1e-8 * sc3 * (1 + abs(s_)))), f"C04:linearity:{kind}",
                        "solution is not linear in (sources, boundary data c, previous values)", inp, float(np.max(np.abs(xc - (s_ * xa + xb)))), 0.0)
            if len(S.samples) < 2:
                S.samples.append(inp)
        except Exception as ex:
            S.check(False, f"C04:{kind}:exception", repr(ex), case_of(mc, bc=bc_describe(spec)), repr(ex), "no exception")
    return S


# ------------------------------------------------------------------ C12

def snapshot(phi):
    parts = [np.asarray(phi._value).tobytes()]
    for nm in SIDES:
        f = getattr(phi.BCs, nm)
        parts += [np.asarray(f.a).tobytes(), np.asarray(f.b).tobytes(), np.asarray(f.c).tobytes(), bytes([int(bool(f.periodic))])]
    return b"|".join(parts)


def search_c12(rng, n, S=None, kinds=None):
    S = S or Search("C12")
    for t in range(n):
        kind = (kinds or KINDS)[t % len(kinds or KINDS)]
        mc = rand_mesh(rng, kind, nmax=3)
        spec = wellposed_bcs(rng, mc, periodic_ok=False)
        x0 = rand_vals(rng, mc.shape())
        desc = {}
        try:
            tk = ["diffusion"] + rng.sample(["central", "upwind", "linsrc", "constsrc"], rng.choice([0, 1, 2]))
            phi = pf.CellVariable(mc.m, x0.copy(), make_bcs(mc, spec))
            sp = spatial_terms(rng, mc, phi, tk, store=desc)
            if rng.random() < 0.5:
                alpha = rng.choice([1.0, 0.25, 3.0]); aarr = np.full(mc.shape(), alpha)
            else:
                aarr = rand_vals(rng, mc.shape(), "pos"); alpha = pf.CellVariable(mc.m, aarr)
            dt = 10.0 ** rng.randint(-6, 6)
            inp = case_of(mc, bc=bc_describe(spec), interior=x0, dt=dt, alpha=aarr, terms=tk, **desc)
            S.sig(kind, tuple(mc.dims), tuple(sorted(tk)), "alpha-field" if not np.isscalar(alpha) else "alpha-scalar")
            Ms = None; Rs = np.zeros(int(np.prod(mc.gshape())))
            for nm, t_ in sp:
                if t_.ndim == 2:
                    Ms = t_ if Ms is None else Ms + t_
                else:
                    Rs = Rs + t_
            # (1) row law
            old = np.asarray(phi._value).copy()
            pf.solvePDE(phi, [pf.transientTerm(phi, dt, alpha)] + [t_ for _, t_ in sp])
            new = np.asarray(phi._value)
            if not np.all(np.isfinite(new)):
                continue
            # the ghost values used by the solver are those of the solved system; recompute residual with interior law only
            rec = RecordingSolver()
            phib = pf.CellVariable(mc.m, x0.copy(), make_bcs(mc, spec))
            pf.solvePDE(phib, [pf.transientTerm(phib, dt, alpha)] + [t_ for _, t_ in sp], externalsolver=rec)
            xs = rec.calls[-1][2]
            lhs = interior(mc, (Ms @ xs) - Rs).ravel() + (aarr.ravel() * (interior(mc, xs).ravel() - interior(mc, old).ravel()) / dt)
            sc = interior(mc, absmat_scale(Ms, xs, Rs)).ravel() + np.abs(aarr.ravel() / dt) * (np.abs(interior(mc, xs).ravel()) + np.abs(interior(mc, old).ravel()))
            ok, _ = vec_close(lhs, np.zeros_like(lhs), sc * 1e3)
            S.check(ok, f"C12:row-law:{kind}", "alpha*(new-old)/dt + spatial(new) = sources violated in an interior cell", inp, float(np.max(np.abs(lhs))), 0.0)
            # (2) steady state is a fixed point; dt -> inf returns it; dt -> 0 returns the old field
            ps = pf.CellVariable(mc.m, x0.copy(), make_bcs(mc, spec))
            pf.solvePDE(ps, [t_ for _, t_ in sp])
            xs_ = np.asarray(ps.value).copy()
            if np.all(np.isfinite(xs_)) and float(np.max(np.abs(xs_))) < 1e6:
                scs = max(1.0, float(np.max(np.abs(xs_))))
                pf.solvePDE(ps, [pf.transientTerm(ps, dt, alpha)] + [t_ for _, t_ in sp])
                S.check(bool(np.all(np.abs(np.asarray(ps.value) - xs_) <= 1e-7 * scs)), f"C12:steady-fixed-point:{kind}",
                        "a steady solution was changed by a transient step", inp, float(np.max(np.abs(np.asarray(ps.value) - xs_))), 0.0)
                pbig = pf.CellVariable(mc.m, x0.copy(), make_bcs(mc, spec))
                pf.solvePDE(pbig, [pf.transientTerm(pbig, 1e13, alpha)] + [t_ for _, t_ in sp])
                S.check(bool(np.all(np.abs(np.asarray(pbig.value) - xs_) <= 1e-5 * max(scs, float(np.max(np.abs(x0)))))), f"C12:dt-infinity:{kind}",
                        "a step with dt = 1e13 does not return the steady solution", inp, float(np.max(np.abs(np.asarray(pbig.value) - xs_))), 0.0)
            psm = pf.CellVariable(mc.m, x0.copy(), make_bcs(mc, spec))
            pf.solvePDE(psm, [pf.transientTerm(psm, 1e-13, alpha)] + [t_ for _, t_ in sp])
            S.check(bool(np.all(np.abs(np.asarray(psm.value) - x0) <= 1e-6 * max(1.0, float(np.max(np.abs(x0)))))), f"C12:dt-zero:{kind}",
                    "a step with dt = 1e-13 does not return the old field", inp, float(np.max(np.abs(np.asarray(psm.value) - x0))), 0.0)
            # (3) explicit step
            pe = pf.CellVariable(mc.m, x0.copy(), make_bcs(mc, spec))
            before = snapshot(pe)
            old_e = np.asarray(pe._value).copy()
            RHS = rand_vals(rng, mc.gshape()).ravel()
            dte = rng.choice([1e-3, 0.5, 4.0])
            pn = pf.solveExplicitPDE(pe, dte, RHS)
            S.check(snapshot(pe) == before, f"C12:explicit-input-untouched:{kind}", "solveExplicitPDE modified its input variable", inp, None, None)
            exp = interior(mc, old_e) + dte * interior(mc, RHS)
            S.check(bool(np.allclose(np.asarray(pn.value), exp, rtol=1e-13, atol=1e-13)), f"C12:explicit-step:{kind}",
                    "explicit step != old + dt*RHS on interior cells", inp, None, None)
            robin_check(S, mc, pn.BCs, np.asarray(pn._value), "solveExplicitPDE(C12)", inp)
            S.check(pn is not pe, f"C12:explicit-new-object:{kind}", "explicit solver returned its input object", inp, None, None)
            # explicit step followed by an implicit step on the returned variable: in place, and obeying the row law
            oldn = np.asarray(pn._value).copy()
            recn = RecordingSolver()
            retn = pf.solvePDE(pn, [pf.transientTerm(pn, dt, alpha)] + [t_ for _, t_ in sp], externalsolver=recn)
            xn = recn.calls[-1][2]
            okn = retn is pn and np.all(np.isfinite(xn)) and np.allclose(np.asarray(pn.value), interior(mc, xn), rtol=1e-12, atol=1e-14)
            if np.all(np.isfinite(xn)):
                S.check(bool(okn), f"C12:explicit-then-implicit:{kind}", "a variable returned by the explicit solver is not updated in place by a following implicit step", inp, None, None)
                lhs2 = interior(mc, (Ms @ xn) - Rs).ravel() + (aarr.ravel() * (interior(mc, xn).ravel() - interior(mc, oldn).ravel()) / dt)
                sc2 = interior(mc, absmat_scale(Ms, xn, Rs)).ravel() + np.abs(aarr.ravel() / dt) * (np.abs(interior(mc, xn).ravel()) + np.abs(interior(mc, oldn).ravel()))
                ok2, _ = vec_close(lhs2, np.zeros_like(lhs2), sc2 * 1e3)
                S.check(ok2, f"C12:row-law-after-explicit:{kind}", "row law violated for an implicit step that follows an explicit step", inp, float(np.max(np.abs(lhs2))), 0.0)
            # (3b) a per-cell alpha given as ONE CellVariable object that is updated in place between the steps
            aobj = pf.CellVariable(mc.m, rand_vals(rng, mc.shape(), "pos"))
            pa_ = pf.CellVariable(mc.m, x0.copy(), make_bcs(mc, spec))
            for stepi in range(3):
                aobj.value = rand_vals(rng, mc.shape(), "pos") * (1.0 + stepi)
                oldv = np.asarray(pa_._value).copy()
                reca = RecordingSolver()
                pf.solvePDE(pa_, [pf.transientTerm(pa_, dt, aobj)] + [t_ for _, t_ in sp], externalsolver=reca)
                xa_ = reca.calls[-1][2]
                if not np.all(np.isfinite(xa_)):
                    break
                an = np.asarray(aobj.value).ravel()
                lhs3 = interior(mc, (Ms @ xa_) - Rs).ravel() + an * (interior(mc, xa_).ravel() - interior(mc, oldv).ravel()) / dt
                sc3 = interior(mc, absmat_scale(Ms, xa_, Rs)).ravel() + np.abs(an / dt) * (np.abs(interior(mc, xa_).ravel()) + np.abs(interior(mc, oldv).ravel()))
                ok3, _ = vec_close(lhs3, np.zeros_like(lhs3), sc3 * 1e3)
                S.check(ok3, f"C12:row-law-alpha-reused:{kind}", "row law violated when the same alpha CellVariable is updated in place and reused in the next step", {**inp, "step": stepi},
                        float(np.max(np.abs(lhs3))), 0.0)
            # (3c) two variables sharing one BoundaryConditions object; boundary value changed between steps, the other stepped first:
            #      the steady solution under the CURRENT conditions must be a fixed point / the dt -> infinity limit for both
            bsh = make_bcs(mc, spec)
            va = pf.CellVariable(mc.m, x0.copy(), bsh); vb = pf.CellVariable(mc.m, x0.copy(), bsh)
            for v_ in (va, vb):
                pf.solvePDE(v_, [pf.transientTerm(v_, 1.0, 1.0)] + [t_ for _, t_ in sp])
            sdh = getattr(bsh, SIDES[1])
            sdh.a = 0.0; sdh.b = 1.0; sdh.c = 2.75
            ref = pf.CellVariable(mc.m, x0.copy(), bsh)
            pf.solvePDE(ref, [t_ for _, t_ in sp])
            sref = np.asarray(ref.value).copy()
            if np.all(np.isfinite(sref)) and float(np.max(np.abs(sref))) < 1e6:
                for v_ in (va, vb):
                    pf.solvePDE(v_, [pf.transientTerm(v_, 1e13, 1.0)] + [t_ for _, t_ in sp])
                scr = max(1.0, float(np.max(np.abs(sref))), float(np.max(np.abs(x0))))
                S.check(bool(np.all(np.abs(np.asarray(va.value) - sref) <= 1e-5 * scr) and np.all(np.abs(np.asarray(vb.value) - sref) <= 1e-5 * scr)),
                        f"C12:dt-infinity-shared-bc:{kind}", "with a shared BoundaryConditions object a dt = 1e13 step of the second variable does not return the steady solution for the current conditions",
                        inp, [float(np.max(np.abs(np.asarray(va.value) - sref))), float(np.max(np.abs(np.asarray(vb.value) - sref)))], 0.0)
            if len(S.samples) < 2:
                S.samples.append(inp)
        except Exception as ex:
            S.check(False, f"C12:{kind}:exception", repr(ex), case_of(mc, bc=bc_describe(spec)), repr(ex), "no exception")
    # (4) implicit vs explicit agree to O(dt^2): halving dt divides the gap by ~4 (1-D diffusion, smooth data)
    for kind in ("cart1", "cyl1", "sph1"):
        try:
            mc = MeshCase(kind, [np.linspace(0.5, 1.5, 9)])
            x0 = np.sin(np.linspace(0.5, 1.5, 8) * 2.0) + 2.0
            D = pf.FaceVariable(mc.m, 1.0)
            gaps = []
            for dt in (2e-3, 1e-3):
                pi_ = pf.CellVariable(mc.m, x0.copy())
                pf.solvePDE(pi_, [pf.transientTerm(pi_, dt, 1.0), -pf.diffusionTerm(D)])
                pe = pf.CellVariable(mc.m, x0.copy())
                rhs = pf.diffusionTerm(D) @ np.asarray(pe._value)
                pn = pf.solveExplicitPDE(pe, dt, rhs)
                gaps.append(float(np.max(np.abs(np.asarray(pn.value) - np.asarray(pi_.value)))))
            ratio = gaps[0] / gaps[1] if gaps[1] > 0 else 4.0
            S.check(3.0 <= ratio <= 5.0, f"C12:gap-order:{kind}", "implicit/explicit gap is not O(dt^2)", {"kind": kind, "gaps": gaps}, ratio, 4.0)
            S.sig(kind, "gap")
        except Exception as ex:
            S.check(False, f"C12:gap:{kind}:exception", repr(ex), {"kind": kind}, repr(ex), "no exception")
    return S


# ------------------------------------------------------------------ C17

LENGTHLIKE = {"cart1": [1], "cyl1": [1], "sph1": [1], "cart2": [1, 1], "cyl2": [1, 1], "pol2": [1, 0],
              "cart3": [1, 1, 1], "cyl3": [1, 0, 1], "sph3": [1, 0, 0]}


def search_c17(rng, n, S=None, kinds=None):
    S = S or Search("C17")
    for t in range(n):
        kind = (kinds or KINDS)[t % len(kinds or KINDS)]
        mc = rand_mesh(rng, kind, nmax=3)
        L = 10.0 ** rng.choice([-6, -3, -1, 0, 2, 3, 6]) * rng.choice([1.0, 2.5])
        T = 10.0 ** rng.choice([-6, -2, 0, 1, 4, 6]) * rng.choice([1.0, 3.0])
        K = 10.0 ** rng.choice([-6, -3, 0, 2, 6]) * rng.choice([1.0, -2.0, 7.0])
        faces2 = [f * (L if LENGTHLIKE[kind][ax] else 1.0) for ax, f in enumerate(mc.faces)]
        mc2 = MeshCase(kind, faces2)
        spec = wellposed_bcs(rng, mc)
        spec2 = []
        for k_, s in enumerate(spec):
            ax = k_ // 2
            # a multiplies a length-like derivative: a x L on every axis (the metric factor r carries the length on angular axes)
            spec2.append(dict(s, a=s["a"] * L, b=s["b"], c=s["c"] * K))
        x0 = rand_vals(rng, mc.shape(), "mixed")
        Darr = [np.abs(a) + 0.25 for a in rand_face_arrays(rng, mc, "pos")]
        uarr = rand_face_arrays(rng, mc)
        beta = rand_vals(rng, mc.shape(), "pos")
        gamma = rand_vals(rng, mc.shape())
        dt = rng.choice([0.01, 1.0, 30.0])
        conv = rng.choice(["upwind", "central", "upwind+tvd", "none"])
        steps = rng.choice([1, 2, 3])
        lim = rng.choice(LIMITERS)
        inp = case_of(mc, bc=bc_describe(spec), interior=x0, D=Darr, u=uarr, beta=beta, gamma=gamma, dt=dt, conv=conv, steps=steps, L=L, T=T, K=K, limiter=lim,
                      mean=[None, "harmonic", "geometric", "arithmetic"][t % 4])
        S.sig(kind, tuple(mc.dims), conv, int(math.log10(abs(L))), int(math.log10(T)))

        meanname = [None, "harmonic", "geometric", "arithmetic"][t % 4]
        kcell = np.abs(rand_vals(rng, mc.shape(), "pos")) * 1e-5 + 1e-6

        def run(mcX, specX, x_init, Ds, us, b_, g_, dt_, kscale=1.0, explicit=False):
            phi = pf.CellVariable(mcX.m, x_init.copy(), make_bcs(mcX, specX))
            if meanname is not None:
                # diffusivity given as a cell field (small in SI-like units) and averaged to the faces
                fn = {"harmonic": pf.harmonicMean, "geometric": pf.geometricMean, "arithmetic": pf.arithmeticMean}[meanname]
                D = fn(pf.CellVariable(mcX.m, kcell * kscale))
            else:
                D = make_facevar(mcX, Ds)
            u = make_facevar(mcX, us)
            if explicit:
                # explicit steps read the re-imposed ghost cells: -(M x) as right-hand side
                for _ in range(steps):
                    Mx = -pf.diffusionTerm(D) + pf.convectionUpwindTerm(u)
                    rhs = -(Mx @ np.asarray(phi._value).ravel())
                    phi = pf.solveExplicitPDE(phi, dt_ * 1e-3, rhs)
                return np.asarray(phi._value).copy()
            FL = quiet_limiter(lim)
            for _ in range(steps):
                terms = [pf.transientTerm(phi, dt_, 1.0), -pf.diffusionTerm(D), pf.linearSourceTerm(pf.CellVariable(mcX.m, b_)),
                         pf.constantSourceTerm(pf.CellVariable(mcX.m, g_))]
                if conv == "central":
                    terms.append(pf.convectionTerm(u))
                elif conv.startswith("upwind"):
                    terms.append(pf.convectionUpwindTerm(u))
                if conv == "upwind+tvd":
                    terms.append(pf.convectionTVDupwindRHSTerm(u, phi, FL))
                pf.solvePDE(phi, terms)
            return np.asarray(phi._value).copy()
        try:
            v1 = run(mc, spec, x0, Darr, uarr, beta, gamma, dt)
            v2 = run(mc2, spec2, x0 * K, [a * L * L / T for a in Darr], [a * L / T for a in uarr], beta / T, gamma * K / T, dt * T, kscale=L * L / T)
            # explicit stepping in both unit systems (reads the ghost cells re-imposed by the boundary conditions)
            e1 = run(mc, spec, x0, Darr, uarr, beta, gamma, dt, explicit=True)
            e2 = run(mc2, spec2, x0 * K, [a * L * L / T for a in Darr], [a * L / T for a in uarr], beta / T, gamma * K / T, dt * T, kscale=L * L / T, explicit=True)
            if np.all(np.isfinite(e1)) and np.all(np.isfinite(e2)) and float(np.max(np.abs(e1))) < 1e6 * max(1.0, float(np.max(np.abs(x0)))):
                j1, j2 = interior(mc, e1), interior(mc, e2)
                sce = max(float(np.max(np.abs(j1))), 1e-300) * abs(K)
                S.check(bool(np.all(np.abs(j2 - K * j1) <= 1e-7 * sce)), f"C17:units-explicit:{kind}", "explicit steps in rescaled units are not K times the steps in the original units", inp,
                        float(np.max(np.abs(j2 - K * j1)) / sce), 0.0)
            if not (np.all(np.isfinite(v1)) and np.all(np.isfinite(v2))):
                continue
            i1, i2 = interior(mc, v1), interior(mc, v2)
            sc = max(float(np.max(np.abs(i1))), 1e-300) * abs(K)
            ok = bool(np.all(np.abs(i2 - K * i1) <= 1e-7 * sc))
            S.check(ok, f"C17:units:{conv}:{kind}", "solution in rescaled units is not K times the solution in the original units", inp,
                    float(np.max(np.abs(i2 - K * i1)) / sc), 0.0)
        except Exception as ex:
            S.check(False, f"C17:{kind}:exception", repr(ex), inp, repr(ex), "no exception")
        # coefficient linearity of every term
        try:
            A1, A2 = rand_face_arrays(rng, mc), rand_face_arrays(rng, mc)
            s_ = rng.choice([2.0, -3.0, 0.5])
            for nm, build in (("diffusion", pf.diffusionTerm), ("convection", pf.convectionTerm)):
                M12 = build(make_facevar(mc, [a + b for a, b in zip(A1, A2)]))
                M1, M2 = build(make_facevar(mc, A1)), build(make_facevar(mc, A2))
                Ms = build(make_facevar(mc, [s_ * a for a in A1]))
                scl = max(1.0, float(abs(M1).max()), float(abs(M2).max()))
                S.check(float(abs(M12 - M1 - M2).max()) <= 1e-11 * scl and float(abs(Ms - s_ * M1).max()) <= 1e-11 * scl * abs(s_),
                        f"C17:linear:{nm}:{kind}", f"{nm}Term is not linear in its coefficient field", case_of(mc, face=A1, face2=A2), None, None)
            Uup = no_zero(rng, rand_face_arrays(rng, mc))
            fu = make_facevar(mc, Uup)
            M12 = pf.convectionUpwindTerm(make_facevar(mc, [a + b for a, b in zip(A1, A2)]), fu)
            M1, M2 = pf.convectionUpwindTerm(make_facevar(mc, A1), fu), pf.convectionUpwindTerm(make_facevar(mc, A2), fu)
            scl = max(1.0, float(abs(M1).max()), float(abs(M2).max()))
            S.check(float(abs(M12 - M1 - M2).max()) <= 1e-11 * scl, f"C17:linear:upwind:{kind}", "upwind term is not linear in u at fixed upwind direction",
                    case_of(mc, face=A1, face2=A2, face_upwind=Uup), None, None)
            d12 = pf.divergenceTerm(make_facevar(mc, [a + b for a, b in zip(A1, A2)]))
            d1, d2 = pf.divergenceTerm(make_facevar(mc, A1)), pf.divergenceTerm(make_facevar(mc, A2))
            S.check(bool(np.allclose(d12, d1 + d2, rtol=1e-11, atol=1e-11 * max(1.0, float(np.max(np.abs(d1)))))), f"C17:linear:divergence:{kind}",
                    "divergenceTerm is not linear", case_of(mc, face=A1, face2=A2), None, None)
        except Exception as ex:
            S.check(False, f"C17:linear:{kind}:exception", repr(ex), {"kind": kind}, repr(ex), "no exception")
        if len(S.samples) < 2:
            S.samples.append(inp)
    return S


# ------------------------------------------------------------------ C07

def divfree_velocity(rng, mc):
    """a discretely divergence-free face velocity field on mc (families of DESIGN §6 C07), or None"""
    kind = mc.kind
    m = mc.m
    shapes = mc.face_shapes()
    arrs = [np.zeros(s) for s in shapes]
    rf = np.asarray(m.facecenters._x, dtype=float)
    fam = rng.choice(["uniform", "radial", "stream", "zero"])
    if kind == "cart3" and rng.random() < 0.4:
        fam = "stream"
    if kind.startswith("cart"):
        if fam == "stream" and mc.dim == 2:
            nx, ny = mc.dims
            psi = rand_vals(rng, (nx + 1, ny + 1))
            dx = np.diff(mc.faces[0]); dy = np.diff(mc.faces[1])
            arrs[0] = (psi[:, 1:] - psi[:, :-1]) / dy[None, :]
            arrs[1] = -(psi[1:, :] - psi[:-1, :]) / dx[:, None]
            return arrs, "stream"
        if fam == "stream" and mc.dim == 3:
            # recirculating flow in a random coordinate plane (mixed signs on two face families), uniform along the third axis
            a, b = rng.choice([(0, 1), (0, 2), (1, 2)])
            c = 3 - a - b
            na, nb_ = mc.dims[a], mc.dims[b]
            psi = rand_vals(rng, (na + 1, nb_ + 1))
            da = np.diff(mc.faces[a]); db = np.diff(mc.faces[b])
            ua = (psi[:, 1:] - psi[:, :-1]) / db[None, :]          # (na+1, nb)
            ub = -(psi[1:, :] - psi[:-1, :]) / da[:, None]         # (na, nb+1)
            arrs[a][...] = np.expand_dims(ua, c)
            arrs[b][...] = np.expand_dims(ub, c)
            if rng.random() < 0.5:
                arrs[c][...] = rng.choice([1.0, -2.0, 0.5])
            return arrs, "stream3"
        for ax in range(mc.dim):
            arrs[ax][...] = rng.choice([0.0, 1.0, -2.0, 0.5])
        return arrs, "uniform"
    if fam in ("radial", "stream", "uniform") and rf[0] > 0:
        q0 = rng.choice([1.0, -1.5, 0.5])
        prof = q0 / rf if kind in ("cyl1", "cyl2", "pol2", "cyl3") else q0 / rf ** 2
        arrs[0][...] = prof.reshape((-1,) + (1,) * (mc.dim - 1))
        # axial uniform component where the axis is Cartesian-like
        if kind == "cyl2":
            arrs[1][...] = rng.choice([0.0, 1.0, -1.0])
        if kind == "cyl3":
            arrs[2][...] = rng.choice([0.0, 1.0, -1.0])
        return arrs, "radial"
    if kind == "cyl2":
        arrs[1][...] = rng.choice([1.0, -1.0])
        return arrs, "axial"
    if kind == "cyl3":
        arrs[2][...] = rng.choice([1.0, -1.0])
        return arrs, "axial"
    return arrs, "zero"


def search_c07(rng, n, S=None, kinds=None):
    S = S or Search("C07")
    for t in range(n):
        kind = (kinds or KINDS)[t % len(kinds or KINDS)]
        mc = rand_mesh(rng, kind, nmax=4)
        uarr, fam = divfree_velocity(rng, mc)
        # boundary kinds per axis
        spec = []
        shapes = bc_face_shapes(mc)
        dvals = []
        for ax in range(mc.dim):
            per = rng.random() < 0.25 and not (ax == 0 and RADIAL[kind])
            for side in range(2):
                shp = shapes[2 * ax + side]
                if rng.random() < 0.5:
                    c = rand_vals(rng, shp, rng.choice(["pos", "mixed"]))
                    spec.append({"kind": "dirichlet", "a": np.zeros(shp), "b": np.ones(shp), "c": c, "periodic": per})
                    if not per:
                        dvals += list(c.ravel())
                else:
                    spec.append({"kind": "noflux", "a": np.ones(shp), "b": np.zeros(shp), "c": np.zeros(shp), "periodic": per})
        contrast = rng.choice([1.0, 1e3, 1e6])
        Darr = [np.where(np.array([rng.random() < 0.5 for _ in range(a.size)]).reshape(a.shape), contrast, 1.0) * rng.choice([0.0, 1e-3, 1.0])
                for a in rand_face_arrays(rng, mc, "pos")]
        sink = rng.random() < 0.4
        beta = rand_vals(rng, mc.shape(), "pos") * rng.choice([0.1, 10.0]) if sink else np.zeros(mc.shape())
        x0 = rand_vals(rng, mc.shape(), rng.choice(["pos", "mixed", "zeros"]))
        dt = 10.0 ** rng.randint(-4, 4)
        steps = rng.choice([1, 2, 4])
        inp = case_of(mc, bc=bc_describe(spec), interior=x0, D=Darr, u=uarr, family=fam, beta=beta, dt=dt, steps=steps)
        S.sig(kind, tuple(mc.dims), fam, sink, int(math.log10(dt)))
        try:
            u = make_facevar(mc, uarr)
            # discrete divergence must vanish, otherwise the case is outside the property's hypothesis
            dv = interior(mc, pf.divergenceTerm(u))
            usc = max(1e-300, max(float(np.max(np.abs(a))) for a in uarr))
            if float(np.max(np.abs(dv))) > 1e-9 * usc / min(float(np.min(np.diff(f))) for f in mc.faces):
                continue
            phi = pf.CellVariable(mc.m, x0.copy(), make_bcs(mc, spec))
            D = make_facevar(mc, Darr)
            lo = min([float(np.min(x0))] + dvals + ([0.0] if sink else []))
            hi = max([float(np.max(x0))] + dvals + ([0.0] if sink else []))
            ok = True
            worst = None
            for _ in range(steps):
                terms = [pf.transientTerm(phi, dt, 1.0), -pf.diffusionTerm(D), pf.convectionUpwindTerm(u)]
                if sink:
                    terms.append(pf.linearSourceTerm(pf.CellVariable(mc.m, beta)))
                pf.solvePDE(phi, terms)
                v = np.asarray(phi.value)
                if not np.all(np.isfinite(v)):
                    ok = None; break
                # far above rounding, far below any overshoot of a non-monotone row; rounding of the solve grows with the
                # condition number ~ dt * (D/dx^2 + |u|/dx) / alpha of the step matrix (1e10 at D = 1e6, dt = 1e4)
                hmin = min(float(np.min(np.diff(f))) for f in mc.faces)
                if kind in ("pol2", "cyl3", "sph3"):          # angular spacings are r*dtheta (r*sin(theta)*dphi)
                    rc = 0.5 * (mc.faces[0][1:] + mc.faces[0][:-1])
                    hmin *= min(1.0, float(np.min(rc))) * (0.05 if kind == "sph3" else 1.0)
                cond = 1.0 + dt * (max(float(np.max(a)) for a in Darr) / hmin ** 2 + max(float(np.max(np.abs(a))) for a in uarr) / hmin)
                slack = max(1e-6, 1e-14 * cond) * max(hi - lo, abs(hi), abs(lo), 1e-300)
                if float(np.min(v)) < lo - slack or float(np.max(v)) > hi + slack:
                    ok = False; worst = (float(np.min(v)), float(np.max(v))); break
            if ok is None:
                continue
            S.check(ok, f"C07:range:{kind}:{'sink' if sink else 'nosink'}", "a cell value left the range spanned by previous values and Dirichlet data"
                    + (" (extended by 0 because of the sink)" if sink else ""), inp, worst, [lo, hi])
        except Exception as ex:
            S.check(False, f"C07:{kind}:exception", repr(ex), inp, repr(ex), "no exception")
        if len(S.samples) < 2:
            S.samples.append(inp)
    return S


# ------------------------------------------------------------------ C08

def run_steps(mc, spec, x0, Darr, uarr, conv, dt, steps, lim="Koren", beta=None):
    phi = pf.CellVariable(mc.m, x0.copy(), make_bcs(mc, spec))
    D = make_facevar(mc, Darr); u = make_facevar(mc, uarr)
    FL = quiet_limiter(lim)
    for _ in range(steps):
        terms = [pf.transientTerm(phi, dt, 1.0), -pf.diffusionTerm(D)]
        if conv == "central":
            terms.append(pf.convectionTerm(u))
        elif conv.startswith("upwind"):
            terms.append(pf.convectionUpwindTerm(u))
        if conv == "upwind+tvd":
            terms.append(pf.convectionTVDupwindRHSTerm(u, phi, FL))
        if beta is not None:
            terms.append(pf.linearSourceTerm(pf.CellVariable(mc.m, beta)))
        pf.solvePDE(phi, terms)
    return np.asarray(phi._value).copy()


def simple_spec(rng, mc, per_axes=()):
    spec = []
    shapes = bc_face_shapes(mc)
    for ax in range(mc.dim):
        for side in range(2):
            shp = shapes[2 * ax + side]
            if ax in per_axes:
                spec.append({"kind": "noflux", "a": np.ones(shp), "b": np.zeros(shp), "c": np.zeros(shp), "periodic": True})
            else:
                k = rng.choice(["dirichlet", "noflux", "robin"])
                if k == "dirichlet":
                    spec.append({"kind": k, "a": np.zeros(shp), "b": np.ones(shp), "c": np.full(shp, rng.choice([0.0, 1.0, 2.0])), "periodic": False})
                elif k == "noflux":
                    spec.append({"kind": k, "a": np.ones(shp), "b": np.zeros(shp), "c": np.zeros(shp), "periodic": False})
                else:
                    sgn = 1.0 if side == 1 else -1.0
                    spec.append({"kind": k, "a": np.full(shp, sgn), "b": np.full(shp, 1.0), "c": np.full(shp, rng.choice([0.0, 1.0])), "periodic": False})
    return spec


EMBED = [("cart3", "cart2", 2, [0, 1]), ("cart2", "cart1", 1, [0]), ("cyl3", "cyl2", 1, [0, 2]), ("pol2", "cyl1", 1, [0])]


def search_c08(rng, n, S=None):
    S = S or Search("C08")
    for t in range(n):
        mode = ["embed", "perm", "mirror", "shift"][t % 4]
        conv = rng.choice(["none", "central", "upwind", "upwind+tvd"])
        dt = rng.choice([0.05, 1.0, 10.0]); steps = rng.choice([1, 2, 3])
        try:
            if mode == "embed":
                big, small, drop, keep = EMBED[(t // 4) % len(EMBED)]
                mcs = rand_mesh(rng, small, nmax=3)
                nd = rng.choice([1, 2, 3])
                if big in ("cyl3", "pol2"):
                    fdrop = rand_faces(rng, nd, origin_zero=True, lo=0.0, hi=2 * math.pi)
                else:
                    fdrop = rand_faces(rng, nd)
                faces_big = [None] * DIM[big]
                for a_small, a_big in enumerate(keep):
                    faces_big[a_big] = mcs.faces[a_small]
                faces_big[drop] = fdrop
                mcb = MeshCase(big, faces_big)
                per = rng.random() < 0.5
                specs = simple_spec(rng, mcs)
                # big spec: kept axes copy the small spec (broadcast along the dropped direction), dropped axis no-flux or periodic
                shapes_b = bc_face_shapes(mcb)
                specb = [None] * (2 * mcb.dim)
                for a_small, a_big in enumerate(keep):
                    for side in range(2):
                        s = specs[2 * a_small + side]
                        shp = shapes_b[2 * a_big + side]
                        specb[2 * a_big + side] = {"kind": s["kind"], "periodic": s["periodic"],
                                                  "a": np.full(shp, float(s["a"].ravel()[0])), "b": np.full(shp, float(s["b"].ravel()[0])),
                                                  "c": np.full(shp, float(s["c"].ravel()[0]))}
                for side in range(2):
                    shp = shapes_b[2 * drop + side]
                    specb[2 * drop + side] = {"kind": "noflux", "a": np.ones(shp), "b": np.zeros(shp), "c": np.zeros(shp), "periodic": per}

                def lift(arr_small, shape_big_fn):
                    return arr_small
                x0s = rand_vals(rng, mcs.shape(), "pos")
                x0b = np.repeat(np.expand_dims(x0s, drop), mcb.dims[drop], axis=drop)
                Ds = [np.abs(a) + 0.25 for a in rand_face_arrays(rng, mcs, "pos")]
                us = rand_face_arrays(rng, mcs)
                Db = [None] * mcb.dim; ub = [None] * mcb.dim
                for a_small, a_big in enumerate(keep):
                    Db[a_big] = np.repeat(np.expand_dims(Ds[a_small], drop), mcb.dims[drop], axis=drop)
                    ub[a_big] = np.repeat(np.expand_dims(us[a_small], drop), mcb.dims[drop], axis=drop)
                Db[drop] = np.full(mcb.face_shapes()[drop], 0.7)
                ub[drop] = np.zeros(mcb.face_shapes()[drop])
                inp = case_of(mcb, mode=mode, pair=[big, small], conv=conv, dt=dt, steps=steps, small_mesh=mcs.describe(), interior=x0s, D=Ds, u=us, drop_periodic=per)
                vs = interior(mcs, run_steps(mcs, specs, x0s, Ds, us, conv, dt, steps))
                vb = interior(mcb, run_steps(mcb, specb, x0b, Db, ub, conv, dt, steps))
                if not (np.all(np.isfinite(vs)) and np.all(np.isfinite(vb))):
                    continue
                ref = np.repeat(np.expand_dims(vs, drop), mcb.dims[drop], axis=drop)
                sc = max(1.0, float(np.max(np.abs(vs))))
                S.check(bool(np.all(np.abs(vb - ref) <= 1e-8 * sc)), f"C08:embed:{big}-{small}:{conv}", "solution on the higher-dimensional grid is not the lifted reduced solution", inp,
                        float(np.max(np.abs(vb - ref))), 0.0)
                S.sig(mode, big, conv, per)
            elif mode == "perm":
                kind = rng.choice(["cart2", "cart3"])
                mc = rand_mesh(rng, kind, nmax=3)
                perm = [1, 0] if kind == "cart2" else rng.choice([[1, 0, 2], [2, 1, 0], [0, 2, 1], [1, 2, 0], [2, 0, 1]])
                mcp = MeshCase(kind, [mc.faces[p] for p in perm])
                spec = simple_spec(rng, mc, per_axes=[ax for ax in range(mc.dim) if rng.random() < 0.2])
                shapes_p = bc_face_shapes(mcp)
                specp = []
                for newax, oldax in enumerate(perm):
                    for side in range(2):
                        s = spec[2 * oldax + side]
                        shp = shapes_p[2 * newax + side]
                        specp.append({"kind": s["kind"], "periodic": s["periodic"], "a": np.full(shp, float(s["a"].ravel()[0])),
                                      "b": np.full(shp, float(s["b"].ravel()[0])), "c": np.full(shp, float(s["c"].ravel()[0]))})
                x0 = rand_vals(rng, mc.shape(), "pos")
                Ds = [np.abs(a) + 0.25 for a in rand_face_arrays(rng, mc, "pos")]
                us = rand_face_arrays(rng, mc)
                x0p = np.transpose(x0, perm)
                Dp = [np.transpose(Ds[oldax], perm) for oldax in perm]
                up = [np.transpose(us[oldax], perm) for oldax in perm]
                meanname = [None, "harmonic", None, "arithmetic", None, "geometric", None, "linear"][(t // 4) % 8]
                if meanname is not None:
                    # face diffusivity obtained from a cell coefficient through one of the averaging functions, on both grids
                    fn = {"harmonic": pf.harmonicMean, "arithmetic": pf.arithmeticMean, "geometric": pf.geometricMean, "linear": pf.linearMean}[meanname]
                    kc = rand_vals(rng, mc.shape(), "pos")
                    Ds = [np.asarray(a, dtype=float) for a in facevar_arrays(mc, fn(pf.CellVariable(mc.m, kc)))]
                    Dp = [np.asarray(a, dtype=float) for a in facevar_arrays(mcp, fn(pf.CellVariable(mcp.m, np.transpose(kc, perm))))]
                inp = case_of(mc, mode=mode, perm=perm, conv=conv, dt=dt, steps=steps, interior=x0, D=Ds, u=us, bc=bc_describe(spec), mean=meanname)
                v = interior(mc, run_steps(mc, spec, x0, Ds, us, conv, dt, steps))
                vp = interior(mcp, run_steps(mcp, specp, x0p, Dp, up, conv, dt, steps))
                if not (np.all(np.isfinite(v)) and np.all(np.isfinite(vp))):
                    continue
                sc = max(1.0, float(np.max(np.abs(v))))
                S.check(bool(np.all(np.abs(vp - np.transpose(v, perm)) <= 1e-8 * sc)), f"C08:perm:{kind}:{conv}", "permuting the axes does not permute the solution", inp,
                        float(np.max(np.abs(vp - np.transpose(v, perm)))), 0.0)
                S.sig(mode, kind, tuple(perm), conv)
            elif mode == "mirror":
                kind = rng.choice(["cart1", "cart2", "cart3"])
                mc = rand_mesh(rng, kind, nmax=4)
                ax = rng.randrange(mc.dim)
                facesm = [f.copy() for f in mc.faces]
                facesm[ax] = -(mc.faces[ax][::-1])
                mcm = MeshCase(kind, facesm)
                spec = simple_spec(rng, mc)
                specm = [dict(s) for s in spec]
                # swap the two sides of the mirrored axis; the normal derivative changes sign: a -> -a
                lo_, hi_ = spec[2 * ax], spec[2 * ax + 1]
                specm[2 * ax] = dict(hi_, a=-hi_["a"])
                specm[2 * ax + 1] = dict(lo_, a=-lo_["a"])
                x0 = rand_vals(rng, mc.shape(), "pos")
                Ds = [np.abs(a) + 0.25 for a in rand_face_arrays(rng, mc, "pos")]
                us = rand_face_arrays(rng, mc)
                fl = lambda a: np.flip(a, axis=ax)
                x0m = fl(x0); Dm = [fl(a) for a in Ds]
                um = [(-fl(a) if k_ == ax else fl(a)) for k_, a in enumerate(us)]
                inp = case_of(mc, mode=mode, axis=ax, conv=conv, dt=dt, steps=steps, interior=x0, D=Ds, u=us, bc=bc_describe(spec))
                v = interior(mc, run_steps(mc, spec, x0, Ds, us, conv, dt, steps))
                vm = interior(mcm, run_steps(mcm, specm, x0m, Dm, um, conv, dt, steps))
                if not (np.all(np.isfinite(v)) and np.all(np.isfinite(vm))):
                    continue
                sc = max(1.0, float(np.max(np.abs(v))))
                S.check(bool(np.all(np.abs(vm - fl(v)) <= 1e-8 * sc)), f"C08:mirror:{kind}:{conv}", "mirroring an axis (velocity component reversed) does not mirror the solution", inp,
                        float(np.max(np.abs(vm - fl(v)))), 0.0)
                S.sig(mode, kind, ax, conv)
            else:
                kind = rng.choice(["cart1", "cart2", "cart3"])
                dim = DIM[kind]
                ax = rng.randrange(dim)
                mc = periodic_mesh(rng, kind, [ax])
                if mc.dims[ax] < 2:
                    continue
                spec = simple_spec(rng, mc, per_axes=[ax])
                x0 = rand_vals(rng, mc.shape(), "pos")
                Ds = [np.abs(a) + 0.25 for a in rand_face_arrays(rng, mc, "pos")]
                us = rand_face_arrays(rng, mc)
                # make face data periodic along ax (first face == last face)
                for arr in (Ds, us):
                    sl0 = [slice(None)] * dim; sl1 = [slice(None)] * dim
                    sl0[ax] = 0; sl1[ax] = -1
                    arr[ax][tuple(sl1)] = arr[ax][tuple(sl0)]
                s_ = rng.randrange(1, mc.dims[ax])

                def roll_cell(a):
                    return np.roll(a, s_, axis=ax)

                def roll_face(a, k_):
                    if k_ != ax:
                        return np.roll(a, s_, axis=ax)
                    core = np.take(a, range(0, a.shape[ax] - 1), axis=ax)       # faces 0..n-1 (face n == face 0)
                    core = np.roll(core, s_, axis=ax)
                    first = np.take(core, [0], axis=ax)
                    return np.concatenate([core, first], axis=ax)
                inp = case_of(mc, mode=mode, axis=ax, shift=s_, conv=conv, dt=dt, steps=steps, interior=x0, D=Ds, u=us, bc=bc_describe(spec))
                v = interior(mc, run_steps(mc, spec, x0, Ds, us, conv, dt, steps))
                vr = interior(mc, run_steps(mc, spec, roll_cell(x0), [roll_face(a, k_) for k_, a in enumerate(Ds)],
                                            [roll_face(a, k_) for k_, a in enumerate(us)], conv, dt, steps))
                if not (np.all(np.isfinite(v)) and np.all(np.isfinite(vr))):
                    continue
                sc = max(1.0, float(np.max(np.abs(v))))
                upw_per = conv.startswith("upwind") and bool(np.any(us[ax] != 0))
                S.check(bool(np.all(np.abs(vr - roll_cell(v)) <= 1e-8 * sc)), "upwind-periodic-not-shift-invariant" if upw_per else f"C08:shift:{kind}:{conv}",
                        "cyclic shift along a periodic uniform axis does not shift the solution", inp,
                        float(np.max(np.abs(vr - roll_cell(v)))), 0.0)
                S.sig(mode, kind, ax, conv)
            if len(S.samples) < 2:
                S.samples.append(inp)
        except Exception as ex:
            S.check(False, f"C08:{mode}:exception", repr(ex), {"mode": mode}, repr(ex), "no exception")
    return S


# ------------------------------------------------------------------ C02 (manufactured solutions)

def nd4(f, x, d, h=1e-3):
    """4th-order central difference of f along coordinate d at points x (tuple of arrays)"""
    def sh(k):
        y = list(x); y[d] = y[d] + k * h
        return f(*y)
    return (-sh(2) + 8 * sh(1) - 8 * sh(-1) + sh(-2)) / (12 * h)


def scale_factors(kind):
    """(h_d functions of the coordinates) for the coordinate system of a grid class"""
    one = lambda *x: np.ones_like(x[0])
    if kind.startswith("cart"):
        return [one, one, one]
    if kind in ("cyl1", "cyl2"):
        return [one, one, one]          # (r, z): h = 1, Jacobian r
    if kind in ("pol2", "cyl3"):
        return [one, lambda *x: x[0], one]
    if kind == "sph1":
        return [one, one, one]
    if kind == "sph3":
        return [one, lambda *x: x[0], lambda *x: x[0] * np.sin(x[1])]


def jacobian(kind):
    if kind.startswith("cart"):
        return lambda *x: np.ones_like(x[0])
    if kind in ("cyl1", "cyl2", "pol2", "cyl3"):
        return lambda *x: x[0]
    if kind == "sph1":
        return lambda *x: x[0] ** 2
    return lambda *x: x[0] ** 2 * np.sin(x[1])


def exact_family(rng, kind):
    """smooth exact solution with non-trivial dependence on every coordinate, D(x) > 0, u_d(x)"""
    dim = DIM[kind]
    k = [rng.choice([0.7, 1.0, 1.3]) for _ in range(3)]
    if dim == 1:
        phi = lambda x: 1.5 + np.sin(k[0] * x) + 0.3 * x ** 2
        D = lambda x: 1.0 + 0.3 * x
        u = [lambda x: 0.5 + 0.2 * x]
    elif dim == 2:
        phi = lambda x, y: 1.5 + np.sin(k[0] * x) * np.cos(k[1] * y) + 0.2 * x * x
        D = lambda x, y: 1.0 + 0.2 * x + 0.1 * np.sin(y)
        u = [lambda x, y: 0.4 + 0.1 * x, lambda x, y: -0.3 + 0.1 * np.cos(y)]
    else:
        phi = lambda x, y, z: 1.5 + np.sin(k[0] * x) * np.cos(k[1] * y) * np.cos(k[2] * z) + 0.2 * x * x
        D = lambda x, y, z: 1.0 + 0.2 * x + 0.1 * np.sin(y) + 0.05 * np.cos(z)
        u = [lambda x, y, z: 0.4 + 0.1 * x, lambda x, y, z: -0.3 + 0.1 * np.cos(y), lambda x, y, z: 0.2 + 0.1 * np.sin(z)]
    return phi, D, u


def manufactured_error(kind, N, graded, termset, bck, fam, beta0=0.5):
    phi_e, D_e, u_e = fam
    dim = DIM[kind]
    # domains away from coordinate singularities
    lo = [1.0, 0.4, 0.3][:dim]; hi = [2.0, 1.4, 1.3][:dim]
    faces = []
    for ax in range(dim):
        s = np.linspace(0.0, 1.0, N + 1)
        if graded:
            s = (s + 0.25 * s * s) / 1.25
        faces.append(lo[ax] + (hi[ax] - lo[ax]) * s)
    mc = MeshCase(kind, faces)
    m = mc.m
    h = scale_factors(kind); J = jacobian(kind)
    cen = [np.asarray(getattr(m.cellcenters, nm), dtype=float) for nm in ["_x", "_y", "_z"][:dim]]
    C = np.meshgrid(*cen, indexing="ij")
    use_conv = "central" in termset or "upwind" in termset

    def flux(d):
        def F(*x):
            g = nd4(phi_e, x, d) / h[d](*x)
            val = -D_e(*x) * g
            if use_conv:
                val = val + u_e[d](*x) * phi_e(*x)
            return val
        return F

    def Lphi(*x):
        tot = np.zeros_like(x[0])
        for d in range(dim):
            Fd = flux(d)
            G = lambda *y, d=d, Fd=Fd: J(*y) / h[d](*y) * Fd(*y)
            tot = tot + nd4(G, x, d) / J(*x)
        if "linsrc" in termset:
            tot = tot + beta0 * phi_e(*x)
        return tot
    gamma = Lphi(*C)
    # face coefficient arrays
    Darr, uarr = [], []
    for d in range(dim):
        pts = [cen[a] for a in range(dim)]
        pts[d] = np.asarray(getattr(m.facecenters, ["_x", "_y", "_z"][d]), dtype=float)
        P = np.meshgrid(*pts, indexing="ij")
        Darr.append(D_e(*P) * np.ones_like(P[0]))
        uarr.append(u_e[d](*P) * np.ones_like(P[0]))
    # boundary conditions from the exact solution
    bc = BoundaryConditions(m)
    for d in range(dim):
        for side in range(2):
            f = getattr(bc, SIDES[2 * d + side])
            pts = [cen[a] for a in range(dim)]
            xb = faces[d][0] if side == 0 else faces[d][-1]
            pts[d] = np.array([xb])
            P = np.meshgrid(*pts, indexing="ij")
            val = np.squeeze(phi_e(*P), axis=d)
            dn = np.squeeze(nd4(phi_e, tuple(P), d) / h[d](*P), axis=d)
            shp = f.a.shape
            kind_bc = bck[2 * d + side]
            if kind_bc == "dirichlet":
                f.a[:] = 0.0; f.b[:] = 1.0; f.c[:] = np.reshape(val, shp)
            elif kind_bc == "neumann":
                f.a[:] = 1.0; f.b[:] = 0.0; f.c[:] = np.reshape(dn, shp)
            else:
                # physically signed Robin condition: outward normal derivative + 2 phi = g
                sg = 1.0 if side == 1 else -1.0
                f.a[:] = sg; f.b[:] = 2.0; f.c[:] = np.reshape(sg * dn + 2.0 * val, shp)
    phi = pf.CellVariable(m, 0.0, bc)
    terms = [-pf.diffusionTerm(make_facevar(mc, Darr)), pf.constantSourceTerm(pf.CellVariable(m, gamma))]
    if "central" in termset:
        terms.append(pf.convectionTerm(make_facevar(mc, uarr)))
    if "upwind" in termset:
        terms.append(pf.convectionUpwindTerm(make_facevar(mc, uarr)))
    if "linsrc" in termset:
        terms.append(pf.linearSourceTerm(pf.CellVariable(m, beta0)))
    if "transient" in termset:
        # march to steady state with large steps: the steady limit is the manufactured solution
        for _ in range(4):
            pf.solvePDE(phi, terms + [pf.transientTerm(phi, 1e6, 1.0)])
    else:
        pf.solvePDE(phi, terms)
    err = float(np.max(np.abs(np.asarray(phi.value) - phi_e(*C))))
    return err


def search_c02(rng, n, S=None, kinds=None, Ns=None):
    S = S or Search("C02")
    for t in range(n):
        kind = (kinds or KINDS)[t % len(kinds or KINDS)]
        dim = DIM[kind]
        graded = rng.random() < 0.5
        termset = rng.choice([("diffusion",), ("diffusion", "central"), ("diffusion", "upwind"), ("diffusion", "linsrc"),
                              ("diffusion", "central", "linsrc", "transient")])
        bck = [rng.choice(["dirichlet", "neumann", "robin"]) for _ in range(2 * dim)]
        if "dirichlet" not in bck and "robin" not in bck and "linsrc" not in termset:
            bck[rng.randrange(2 * dim)] = "dirichlet"       # pure Neumann without sink is singular
        fam = exact_family(rng, kind)
        NN = Ns or ({1: (16, 32, 64), 2: (8, 16, 32), 3: (4, 8, 16)}[dim])
        inp = {"kind": kind, "graded": graded, "terms": list(termset), "bc": bck, "N": list(NN)}
        S.sig(kind, graded, termset, tuple(bck))
        try:
            errs = [manufactured_error(kind, N, graded, termset, bck, fam) for N in NN]
            orders = [math.log(errs[i] / errs[i + 1], 2) if errs[i + 1] > 0 else 9.0 for i in range(len(errs) - 1)]
            nominal = 1.0 if "upwind" in termset else 2.0
            # asymptotic order on 1-D/2-D grids; on the coarse 3-D grids only a clear decrease is demanded
            # (a wrong metric factor, sign or coefficient placement makes the error stall: ratio ~ 1)
            if dim == 3:
                ok = errs[-1] < errs[0] and errs[-1] <= (0.9 if nominal == 1.0 else 0.6) * errs[-2]
            else:
                thr = 0.8 * nominal - 0.15
                ok = errs[-1] < errs[0] and orders[-1] >= thr
                if not ok and errs[-1] < errs[0]:
                    # pre-asymptotic wobble (first-order upwind error changing sign against the second-order diffusion error):
                    # one more refinement decides; an inconsistent scheme stalls at every level
                    errs.append(manufactured_error(kind, 2 * NN[-1], graded, termset, bck, fam))
                    orders.append(math.log(errs[-2] / errs[-1], 2) if errs[-1] > 0 else 9.0)
                    ok = orders[-1] >= thr or math.log(errs[0] / errs[-1], 2) / (len(errs) - 1) >= thr
            S.check(bool(ok), f"C02:order:{kind}:{'+'.join(termset)}", "error against the manufactured solution does not decrease at the order of the scheme", {**inp, "errors": errs},
                    orders, nominal)
            if len(S.samples) < 3:
                S.samples.append({**inp, "errors": errs, "orders": orders})
        except Exception as ex:
            S.check(False, f"C02:{kind}:exception", repr(ex), inp, repr(ex), "no exception")
    return S
