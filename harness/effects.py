"""Effects: dynamic validation of the translator T-eff (op `effects`) and the implementation-level
searches for C15 (builders are pure and deterministic) and C14 (variable algebra).

corr_effects   every alias / write the implementation is OBSERVED to perform on random inputs must be
               permitted by the generated certificate (lean/PyFV/Gen/effects_status.json): a sharing or a
               modification the IR declares impossible is the mismatch `translator-unsound`; a
               modification of an input the function is not allowed to mutate is `input-modified`.
search_c15 /   never consult the certificate: the property texts are evaluated on the real objects
search_c14     (byte snapshots, np.shares_memory, edit-one-look-at-the-other).
"""
import os, json, copy, operator, io, contextlib
import numpy as np
import scipy.sparse as sp
from common import *
from corr import Report, LIMITERS
from implsearch import Search, case_of
from pyfvtool.boundary import BoundaryConditionsBase, BoundaryFace, cellValuesWithBoundaries, boundaryConditionsTerm
from pyfvtool.mesh import MeshStructure
from pyfvtool.utilities import TrackedArray

STATUS_PATH = os.path.join(LEAN, "PyFV", "Gen", "effects_status.json")
AXN = ["_x", "_y", "_z"]


def load_status():
    with open(STATUS_PATH) as f:
        return json.load(f)


# ====================================================================== reachable state

def walk(obj, label, path, out, seen, into_mesh=True):
    """collect (label, path, kind, payload) for every ndarray / flag reachable from obj.
    Arrays owned by a mesh are labelled `meshData` whatever the label of the object they were reached from."""
    if obj is None or isinstance(obj, (bool, int, float, complex, str, bytes, np.generic)):
        return
    key = (id(obj), label)
    if key in seen:
        return
    seen.add(key)
    if isinstance(obj, np.ndarray):
        if obj.dtype == object:
            for i, x in enumerate(obj.ravel()):
                walk(x, label, f"{path}[{i}]", out, seen, into_mesh)
            return
        out.append((label, path, "array", obj))
        if isinstance(obj, TrackedArray):
            out.append((label, path + "._modified", "flag", (obj, "_modified")))
    elif sp.issparse(obj):
        for nm in ("data", "indices", "indptr"):
            if hasattr(obj, nm):
                walk(getattr(obj, nm), label, f"{path}.{nm}", out, seen, into_mesh)
    elif isinstance(obj, (tuple, list)):
        for i, x in enumerate(obj):
            walk(x, label, f"{path}[{i}]", out, seen, into_mesh)
    elif isinstance(obj, dict):
        for k, x in obj.items():
            walk(x, label, f"{path}[{k!r}]", out, seen, into_mesh)
    elif isinstance(obj, pf.CellVariable):
        out.append((label if 'pf.CellVariable' != 'MeshStructure' else 'meshData', path + '.__dict__', 'attrs', obj))   # the SET of attributes: a memo stored on an input object is a modification
        walk(getattr(obj, "_value", None), label, path + "._value", out, seen, into_mesh)
        walk(getattr(obj, "BCs", None), label, path + ".BCs", out, seen, into_mesh)
        walk(getattr(obj, "_BCsTerm", None), label, path + "._BCsTerm", out, seen, into_mesh)
        out.append((label, path + ".BCsTerm_precalc", "flag", (obj, "BCsTerm_precalc")))
        out.append((label, path + "._BCs_applied", "flag", (obj, "_BCs_applied")))
        if into_mesh:
            walk(obj.domain, "meshData", path + ".domain", out, seen, into_mesh)
    elif isinstance(obj, pf.FaceVariable):
        out.append((label if 'pf.FaceVariable' != 'MeshStructure' else 'meshData', path + '.__dict__', 'attrs', obj))   # the SET of attributes: a memo stored on an input object is a modification
        for nm in ("_xvalue", "_yvalue", "_zvalue"):
            walk(getattr(obj, nm, None), label, f"{path}.{nm}", out, seen, into_mesh)
        if into_mesh:
            walk(obj.domain, "meshData", path + ".domain", out, seen, into_mesh)
    elif isinstance(obj, BoundaryConditionsBase):
        out.append((label if 'BoundaryConditionsBase' != 'MeshStructure' else 'meshData', path + '.__dict__', 'attrs', obj))   # the SET of attributes: a memo stored on an input object is a modification
        for side in SIDES:
            walk(getattr(obj, side, None), label, f"{path}.{side}", out, seen, into_mesh)
        if into_mesh:
            walk(obj.domain, "meshData", path + ".domain", out, seen, into_mesh)
    elif isinstance(obj, BoundaryFace):
        out.append((label if 'BoundaryFace' != 'MeshStructure' else 'meshData', path + '.__dict__', 'attrs', obj))   # the SET of attributes: a memo stored on an input object is a modification
        for nm in ("_a", "_b", "_c"):
            walk(getattr(obj, nm, None), label, f"{path}.{nm}", out, seen, into_mesh)
        out.append((label, path + "._periodic", "flag", (obj, "_periodic")))
    elif isinstance(obj, MeshStructure):
        out.append((label if 'MeshStructure' != 'MeshStructure' else 'meshData', path + '.__dict__', 'attrs', obj))   # the SET of attributes: a memo stored on an input object is a modification
        for nm in ("dims", "corners", "edges"):
            walk(getattr(obj, nm, None), "meshData", f"{path}.{nm}", out, seen, into_mesh)
        for part in ("cellsize", "cellcenters", "facecenters"):
            o = getattr(obj, part, None)
            for ax in AXN:
                walk(getattr(o, ax, None), "meshData", f"{path}.{part}.{ax}", out, seen, into_mesh)


def payload(kind, v):
    if kind == "attrs":
        return tuple(sorted(vars(v)))
    if kind == "array":
        a = np.asarray(v)
        return (a.shape, str(a.dtype), a.tobytes())
    o, attr = v
    x = getattr(o, attr, None)
    return x if not isinstance(x, np.ndarray) else x.tobytes()


def snapshot(entries):
    return [payload(k, v) for (_, _, k, v) in entries]


def state_of(objs_labels, into_mesh=True):
    out, seen = [], set()
    for obj, label, path in objs_labels:
        walk(obj, label, path, out, seen, into_mesh)
    return out


def bytes_by_path(entries):
    d = {}
    for (lab, path, k, v) in entries:
        d[path] = (lab, payload(k, v))
    return d


def shared(res_entries, in_entries):
    """[(input label, input path, result path)] for every pair of arrays that share memory"""
    out = []
    for (_, rp, rk, ra) in res_entries:
        if rk != "array" or ra.size == 0:
            continue
        for (lab, ip, ik, ia) in in_entries:
            if ik != "array" or ia.size == 0:
                continue
            if np.may_share_memory(ra, ia) and np.shares_memory(ra, ia):
                out.append((lab, ip, rp))
    return out


# ====================================================================== call descriptions

class Call:
    def __init__(self, name, fn, args, argidx=None, ctor=False, kwargs=None, desc=None):
        self.name, self.fn, self.args, self.ctor = name, fn, list(args), ctor
        self.argidx = list(argidx) if argidx is not None else list(range(len(args)))
        self.kwargs = kwargs or {}
        self.desc = desc or name

    def labelled(self, args):
        out = []
        for a, i in zip(args, self.argidx):
            lab = "meshData" if isinstance(a, MeshStructure) else f"inp{i}"
            out.append((a, lab, f"arg{i}"))
        return out


def rand_cellvar(rng, mc, mode=None, bcs=True):
    vals = rand_vals(rng, mc.shape(), mode)
    if bcs:
        return pf.CellVariable(mc.m, vals, make_bcs(mc, rand_bc_spec(rng, mc)))
    return pf.CellVariable(mc.m, vals)


def rand_facevar(rng, mc, mode=None):
    return make_facevar(mc, rand_face_arrays(rng, mc, mode))


CELL_BIN = ["add", "radd", "sub", "rsub", "mul", "rmul", "truediv", "rtruediv", "pow", "rpow", "gt", "ge", "lt", "le", "and", "or"]
UNARY = ["neg", "abs"]


def mesh_method_name(m, meth):
    for c in type(m).__mro__:
        if meth in c.__dict__:
            return f"{c.__name__}_{meth.strip('_')}"
    return None


def make_calls(rng, mc):
    """one random call of every listed public function on mesh case mc"""
    m = mc.m
    calls = []
    C = lambda *a, **k: calls.append(Call(*a, **k))
    with contextlib.redirect_stdout(io.StringIO()):
        FL = pf.fluxLimiter(rng.choice(LIMITERS))
    for nm in ("diffusionTerm", "convectionTerm", "convectionUpwindTerm", "divergenceTerm"):
        C(nm, getattr(pf, nm), [rand_facevar(rng, mc)])
    C("convectionUpwindTerm", pf.convectionUpwindTerm, [rand_facevar(rng, mc), rand_facevar(rng, mc)], argidx=[0, 1], desc="convectionUpwindTerm/2")
    C("convectionTVDupwindRHSTerm", pf.convectionTVDupwindRHSTerm, [rand_facevar(rng, mc), rand_cellvar(rng, mc), FL])
    C("convectionTVDupwindRHSTerm", pf.convectionTVDupwindRHSTerm, [rand_facevar(rng, mc), rand_cellvar(rng, mc), FL, rand_facevar(rng, mc)],
      argidx=[0, 1, 2, 3], desc="convectionTVDupwindRHSTerm/4")
    for nm in ("gradientTerm", "gradientTermFixedBC", "linearMean", "arithmeticMean", "constantSourceTerm", "linearSourceTerm"):
        C(nm, getattr(pf, nm), [rand_cellvar(rng, mc)])
    for nm in ("geometricMean", "harmonicMean"):
        C(nm, getattr(pf, nm), [rand_cellvar(rng, mc, rng.choice(["pos", "zeros"]))])
    C("upwindMean", pf.upwindMean, [rand_cellvar(rng, mc), rand_facevar(rng, mc)])
    from pyfvtool.averaging import cell_size_array
    C("cell_size_array", cell_size_array, [m])
    alpha = rng.choice(["float", "cell", "interior", "ghost"])
    al = {"float": 2.5, "cell": rand_cellvar(rng, mc, "pos"), "interior": rand_vals(rng, mc.shape(), "pos"),
          "ghost": rand_vals(rng, mc.gshape(), "pos")}[alpha]
    C("transientTerm", pf.transientTerm, [rand_cellvar(rng, mc), 0.25, al], desc=f"transientTerm/{alpha}")
    bc = make_bcs(mc, rand_bc_spec(rng, mc))
    C("boundaryConditionsTerm", boundaryConditionsTerm, [bc])
    C("cellValuesWithBoundaries", cellValuesWithBoundaries, [rand_vals(rng, mc.shape()), make_bcs(mc, rand_bc_spec(rng, mc))])
    C("BoundaryConditions", BoundaryConditions, [m])
    shp = bc_face_shapes(mc)[0]
    C("BoundaryFace_init", BoundaryFace, [rand_vals(rng, shp), rand_vals(rng, shp), rand_vals(rng, shp)], argidx=[1, 2, 3], ctor=True)
    # CellVariable construction: interior-shaped, ghost-shaped, scalar; with / without BCs
    kind = rng.choice(["interior", "ghost", "scalar"])
    val = {"interior": rand_vals(rng, mc.shape()), "ghost": rand_vals(rng, mc.gshape()), "scalar": 1.5}[kind]
    if rng.random() < 0.5:
        C("CellVariable_init", pf.CellVariable, [m, val, make_bcs(mc, rand_bc_spec(rng, mc))], argidx=[1, 2, 3], ctor=True, desc=f"CellVariable/{kind}/bc")
    else:
        C("CellVariable_init", pf.CellVariable, [m, val], argidx=[1, 2], ctor=True, desc=f"CellVariable/{kind}")
    C("CellVariable_value_getter", lambda p: p.value, [rand_cellvar(rng, mc)])
    p = rand_cellvar(rng, mc)
    if rng.random() < 0.5:
        getattr(p.BCs, SIDES[0]).c[:] = 0.75          # outdated ghost cells
    C("CellVariable_apply_BCs", lambda q: q.apply_BCs(), [p])
    C("CellVariable_update_value", lambda q, r: q.update_value(r), [rand_cellvar(rng, mc), rand_cellvar(rng, mc)])
    C("CellVariable_copy", lambda q: q.copy(), [rand_cellvar(rng, mc)])
    C("CellVariable_domainIntegral", lambda q: q.domainIntegral(), [rand_cellvar(rng, mc)])
    for op in CELL_BIN:
        ok = rng.choice(["var", "float", "array"])
        other = {"var": rand_cellvar(rng, mc, "pos"), "float": 1.5, "array": rand_vals(rng, mc.shape(), "pos")}[ok]
        C(f"CellVariable_{op}", getattr(pf.CellVariable, f"__{op}__"), [rand_cellvar(rng, mc, "pos"), other], desc=f"CellVariable_{op}/{ok}")
    for op in UNARY:
        C(f"CellVariable_{op}", getattr(pf.CellVariable, f"__{op}__"), [rand_cellvar(rng, mc)])
    C("cellLocations", pf.cellLocations, [m])
    k = rng.choice([1, 2, 3])
    f = rng.choice(["weighted", "identity"]) if k == 1 else "weighted"
    fn = (lambda *xs: sum((i + 1.0) * x for i, x in enumerate(xs))) if f == "weighted" else (lambda x: x)
    C("funceval", pf.funceval, [fn] + [rand_cellvar(rng, mc) for _ in range(k)], argidx=[0] + [1] * k, desc=f"funceval/{k}/{f}")
    C("celleval", pf.celleval, [fn] + [rand_cellvar(rng, mc) for _ in range(k)], argidx=[0] + [1] * k, desc=f"celleval/{k}/{f}")
    arrs = [np.array(a) for a in rand_face_arrays(rng, mc)] + [np.array([])] * (3 - mc.dim)
    C("FaceVariable_init", pf.FaceVariable, [m] + arrs, argidx=[1, 2, 2, 2], ctor=True, desc="FaceVariable/3")
    C("FaceVariable_init", pf.FaceVariable, [m, 1.5], argidx=[1, 2], ctor=True, desc="FaceVariable/1")
    for op in CELL_BIN:
        ok = rng.choice(["var", "float"])
        other = {"var": rand_facevar(rng, mc, "pos"), "float": 1.5}[ok]
        C(f"FaceVariable_{op}", getattr(pf.FaceVariable, f"__{op}__"), [rand_facevar(rng, mc, "pos"), other], desc=f"FaceVariable_{op}/{ok}")
    for op in UNARY:
        C(f"FaceVariable_{op}", getattr(pf.FaceVariable, f"__{op}__"), [rand_facevar(rng, mc)])
    C("faceLocations", pf.faceLocations, [m])
    C("faceeval", pf.faceeval, [fn] + [rand_facevar(rng, mc) for _ in range(k)], argidx=[0] + [1] * k, desc=f"faceeval/{k}/{f}")
    nm = mesh_method_name(m, "_getCellVolumes")
    if nm:
        C(nm, lambda mm: mm._getCellVolumes(), [m])
    nm = mesh_method_name(m, "cell_numbers")
    if nm:
        C(nm, lambda mm: mm.cell_numbers(), [m])
    # solvers
    phi = rand_cellvar(rng, mc, "pos")
    D = rand_facevar(rng, mc, "pos")
    terms = [pf.transientTerm(phi, 0.5, 1.0), -pf.diffusionTerm(D), pf.constantSourceTerm(rand_cellvar(rng, mc, bcs=False))]
    C("solvePDE", pf.solvePDE, [phi, terms])
    phi2 = rand_cellvar(rng, mc, "pos")
    if np.all(np.isfinite(np.asarray(phi2._value))):
        Mbc, Rbc = boundaryConditionsTerm(phi2.BCs)
        Mt, Rt = pf.transientTerm(phi2, 0.5, 1.0)
        C("solveMatrixPDE", pf.solveMatrixPDE, [m, Mbc + Mt - pf.diffusionTerm(D), Rbc + Rt])
    phi3 = rand_cellvar(rng, mc, "pos")
    if rng.random() < 0.5:
        phi3.value[...] = rand_vals(rng, mc.shape(), "pos")      # ghost cells outdated
    C("solveExplicitPDE", pf.solveExplicitPDE, [phi3, 0.125, rand_vals(rng, mc.gshape()).ravel()])
    return calls


def region_ok(label, allowed):
    return label in allowed


def run_call(call):
    """returns dict(result, modified={(label,path)}, shares=[(label, in path, out path)], deterministic, error)"""
    args = call.args
    spare = copy.deepcopy(args)
    pre = state_of(call.labelled(args))
    pre_snap = snapshot(pre)
    pre_paths = bytes_by_path(pre)
    try:
        res = call.fn(*args, **call.kwargs)
    except Exception as ex:
        return {"error": repr(ex)}
    modified = set()
    # in-place changes of the objects that existed before the call
    for (lab, path, k, v), old in zip(pre, pre_snap):
        new = payload(k, v)
        if not same_payload(old, new):
            modified.add((lab, path, "in-place" if k == "array" else "flag"))
    # rebinding: what is now reachable under the same path
    post = state_of(call.labelled(args))
    post_paths = bytes_by_path(post)
    for path, (lab, old) in pre_paths.items():
        if path in post_paths and not same_payload(old, post_paths[path][1]):
            modified.add((lab, path, "value"))
    for path in set(post_paths) - set(pre_paths):
        modified.add((post_paths[path][0], path, "new-attribute"))
    res_entries = state_of([(res, "ret", "ret")], into_mesh=False)
    sh = shared(res_entries, pre) + shared(res_entries, post)
    sh = sorted(set(sh))
    # determinism; and every call hands out its own result: the result of the first call is neither shared with nor
    # changed by a second call on equal (deep-copied) inputs
    fresh_each = True
    try:
        a = bytes_by_path(state_of([(res, "ret", "ret")], into_mesh=False))
        res2 = call.fn(*spare, **call.kwargs)
        a_after = bytes_by_path(state_of([(res, "ret", "ret")], into_mesh=False))
        b = bytes_by_path(state_of([(res2, "ret", "ret")], into_mesh=False))
        det = set(a) == set(b) and all(same_payload(a[k][1], b[k][1]) for k in a) and scalar_equal(res, res2)
        unchanged = set(a) == set(a_after) and all(same_payload(a[k][1], a_after[k][1]) for k in a)
        res2_entries = state_of([(res2, "ret2", "ret2")], into_mesh=False)
        fresh_each = unchanged and not shared(res_entries, res2_entries)
    except Exception as ex:
        det = False
    return {"error": None, "result": res, "modified": modified, "shares": sh, "deterministic": det, "fresh_each_call": fresh_each}


def same_payload(a, b):
    if isinstance(a, tuple) and isinstance(b, tuple) and len(a) == 3 and len(b) == 3 and isinstance(a[2], bytes):
        return a == b
    if isinstance(a, float) and isinstance(b, float):
        return a == b or (a != a and b != b)
    try:
        return bool(a == b)
    except Exception:
        return a is b


def scalar_equal(a, b):
    if isinstance(a, (float, np.floating)) and isinstance(b, (float, np.floating)):
        return np.float64(a).tobytes() == np.float64(b).tobytes()
    return True


def describe_call(mc, call):
    return {"mesh": mc.describe(), "call": call.desc, "function": call.name}


# ====================================================================== corr_effects

def corr_effects(rng, tier):
    rep = Report("effects")
    status = load_status()
    fns = status["functions"]
    rounds = 2 if tier == "quick" else 12
    observed = {}     # function -> set of observation strings
    for t in range(rounds * len(KINDS)):
        kind = KINDS[t % len(KINDS)]
        mc = rand_mesh(rng, kind, nmax=3)
        try:
            calls = make_calls(rng, mc)
        except ValueError as ex:
            if "Radial periodic" in str(ex):
                continue
            raise
        for call in calls:
            st = fns.get(call.name)
            case = describe_call(mc, call)
            rep.cases += 1
            rep.sig(call.desc, kind)
            if st is None:
                rep.bad("function-not-translated", case, {"function": call.name})
                continue
            out = run_call(call)
            if out["error"]:
                if "Radial periodic" in out["error"] or "singular" in out["error"].lower():
                    rep.count("skipped/" + call.name)
                    continue
                rep.bad("exception", case, {"error": out["error"]})
                continue
            rep.count(call.name)
            obs = observed.setdefault(call.name, set())
            writes = set(st["writes"])
            mutable = set(st["mutable"])
            if call.ctor:
                may_share = set(st["param_data_reach"].get("inp0", []))
            else:
                may_share = set(st["ret_data_reach"])
            for (lab, path, how) in sorted(out["modified"]):
                rep.values += 1
                obs.add(f"modifies:{lab}")
                if lab not in writes:
                    rep.bad("translator-unsound", case, {"observed": f"{how} change of {path} ({lab})", "certificate_writes": sorted(writes)})
                if lab not in mutable:
                    rep.bad("input-modified", case, {"observed": f"{how} change of {path} ({lab})", "mutable": sorted(mutable)})
            for (lab, ip, rp) in out["shares"]:
                rep.values += 1
                obs.add(f"shares:{lab}")
                if lab not in may_share:
                    rep.bad("translator-unsound", case, {"observed": f"{rp} shares memory with {ip} ({lab})", "certificate_reach": sorted(may_share)})
            if not out["deterministic"]:
                rep.bad("not-deterministic", case, {"function": call.name})
            if len(rep.samples) < 3:
                rep.samples.append(case)
    # static verdict vs what was observed (information only)
    for name, st in fns.items():
        if not st["safe"]:
            o = observed.get(name, set())
            confirmed = any(x.startswith("shares:") or (x.startswith("modifies:") and x.split(":")[1] not in st["mutable"]) for x in o)
            rep.count(f"static-unsafe/{name}/" + ("observed" if confirmed else "not-observed"))
    rep.observed = {k: sorted(v) for k, v in observed.items()}
    return rep


# ====================================================================== C15 search

BUILDER_NAMES = ["diffusionTerm", "convectionTerm", "convectionUpwindTerm", "divergenceTerm", "convectionTVDupwindRHSTerm",
                 "gradientTerm", "gradientTermFixedBC", "linearMean", "arithmeticMean", "geometricMean", "harmonicMean",
                 "upwindMean", "constantSourceTerm", "linearSourceTerm", "transientTerm", "boundaryConditionsTerm",
                 "cellValuesWithBoundaries", "BoundaryConditions", "cellLocations", "faceLocations"]
# `averaging.cell_size_array` is an internal helper (not exported by the package) that hands the mesh's own cell-size
# arrays to the mean functions, which only read them; it is checked by the correspondence (op `effects`) but is not a
# "builder" in the sense of the property.


def visible_state(phi):
    """what a user can see of a CellVariable: interior values, BC coefficients and periodic flags"""
    out = [np.asarray(phi.value).tobytes()]
    for side in SIDES:
        f = getattr(phi.BCs, side)
        out += [np.asarray(f.a).tobytes(), np.asarray(f.b).tobytes(), np.asarray(f.c).tobytes(), bool(f.periodic)]
    return out


def search_c15(rng, n, S=None):
    S = S or Search("C15")
    for t in range(n):
        kind = KINDS[t % len(KINDS)]
        mc = rand_mesh(rng, kind, nmax=3)
        c15_on_mesh(S, rng, mc)
        if len(S.samples) < 2:
            S.samples.append(case_of(mc))
    return S


def c15_on_mesh(S, rng, mc):
    kind = mc.kind
    if True:
        try:
            calls = make_calls(rng, mc)
        except ValueError as ex:
            if "Radial periodic" in str(ex):
                return
            raise
        mesh_pre = state_of([(mc.m, "meshData", "mesh")])
        mesh_snap = snapshot(mesh_pre)
        for call in calls:
            base = call.name.split("_")[0] if call.name.endswith(("_getCellVolumes",)) else call.name
            is_builder = call.name in BUILDER_NAMES
            is_vol = call.name.endswith("_getCellVolumes")
            if not (is_builder or is_vol or call.name in ("solveMatrixPDE",)):
                continue
            inp = describe_call(mc, call)
            out = run_call(call)
            S.sig(call.desc, kind)
            if out["error"]:
                if "Radial periodic" in out["error"]:
                    continue
                S.check(False, f"C15:exception:{call.name}", out["error"], inp, out["error"], "no exception")
                continue
            mods = sorted(out["modified"])
            S.check(not mods, f"C15:modifies-input:{call.name}", f"{call.desc} changed an input", inp,
                    [f"{p} ({lab}, {how})" for lab, p, how in mods][:6], "inputs unchanged")
            S.check(out["deterministic"], f"C15:not-deterministic:{call.name}", f"two calls of {call.desc} with equal inputs differ", inp, None, "bit-identical")
            S.check(out.get("fresh_each_call", True), f"C15:result-shared-between-calls:{call.name}",
                    f"the result of {call.desc} shares storage with, or is changed by, a second call on equal inputs", inp, None, "independent results")
            grid = [(ip, rp) for lab, ip, rp in out["shares"] if lab == "meshData"]
            other = [(ip, rp) for lab, ip, rp in out["shares"] if lab != "meshData"]
            nm = f"{type(mc.m).__name__}.cellvolume" if is_vol else call.name
            key_nm = mesh_method_name(mc.m, "_getCellVolumes").replace("_getCellVolumes", ".cellvolume") if is_vol else call.name
            S.check(not grid, f"C15:aliases-grid:{key_nm}", f"the result of {nm} shares memory with mesh storage (editing it in place corrupts the grid)",
                    inp, [f"{rp} ~ {ip}" for ip, rp in grid][:4], "no shared memory")
            if not is_vol:
                S.check(not other, f"C15:aliases-input:{call.name}", f"the result of {call.desc} shares memory with an input variable", inp,
                        [f"{rp} ~ {ip}" for ip, rp in other][:4], "no shared memory")
        # the grid survives everything above
        ok = all(same_payload(a, payload(k, v)) for (_, _, k, v), a in zip(mesh_pre, mesh_snap))
        S.check(ok, "C15:modifies-grid", "a builder changed mesh storage", case_of(mc), None, "mesh unchanged")
        # in-place edit of a returned location variable must not reach the grid
        try:
            X = pf.faceLocations(mc.m)
            X0 = X[0] if isinstance(X, tuple) else X
            before = np.asarray(mc.m.facecenters._x).tobytes()
            X0._xvalue[...] = X0._xvalue + 1.0
            after = np.asarray(mc.m.facecenters._x).tobytes()
            if before != after:
                mc.m.facecenters._x[...] = np.frombuffer(before, dtype=mc.m.facecenters._x.dtype).reshape(mc.m.facecenters._x.shape)
            S.check(before == after, "C15:aliases-grid:faceLocations", "editing the FaceVariable returned by faceLocations in place moves the faces of the mesh",
                    case_of(mc), "facecenters changed", "mesh unchanged")
        except Exception as ex:
            S.check(False, "C15:exception:faceLocations", repr(ex), case_of(mc), repr(ex), "no exception")
        # ---- solvePDE: only the solution variable changes, the terms can be reused
        try:
            c15_solvers(S, rng, mc)
        except ValueError as ex:
            if "Radial periodic" not in str(ex):
                S.check(False, f"C15:exception:solvers:{kind}", repr(ex), case_of(mc), repr(ex), "no exception")
        except Exception as ex:
            S.check(False, f"C15:exception:solvers:{kind}", repr(ex), case_of(mc), repr(ex), "no exception")


def c15_solvers(S, rng, mc):
    spec = rand_bc_spec(rng, mc)
    bc = make_bcs(mc, spec)
    vals = rand_vals(rng, mc.shape(), "pos")
    phi = pf.CellVariable(mc.m, vals.copy(), bc)
    if not np.all(np.isfinite(np.asarray(phi._value))):
        return
    D = rand_facevar(rng, mc, "pos")
    u = rand_facevar(rng, mc)
    src = rand_cellvar(rng, mc, bcs=False)
    beta = rand_cellvar(rng, mc, "pos", bcs=False)
    with contextlib.redirect_stdout(io.StringIO()):
        FL = pf.fluxLimiter("Koren")
    inp = case_of(mc, bc=bc_describe(spec), interior=vals)
    # terms built once and reused over 3 steps (the transient term pair is rebuilt: it depends on phi)
    reused = [-pf.diffusionTerm(D), pf.convectionUpwindTerm(u), pf.constantSourceTerm(src), pf.linearSourceTerm(beta),
              pf.convectionTVDupwindRHSTerm(u, phi, FL)]
    others = [(D, "inp", "D"), (u, "inp", "u"), (src, "inp", "src"), (beta, "inp", "beta"), (mc.m, "meshData", "mesh")]
    pre_terms = state_of([(reused, "terms", "terms")]); snap_terms = snapshot(pre_terms)
    pre_oth = state_of(others); snap_oth = snapshot(pre_oth)
    for step in range(3):
        tt = pf.transientTerm(phi, 0.5, 1.0)
        pre_tt = state_of([(tt, "terms", "transient")]); snap_tt = snapshot(pre_tt)
        out = pf.solvePDE(phi, [tt] + reused)
        S.check(out is phi, "C15:solvePDE-returns-other-object", "solvePDE did not return its solution variable", inp, None, None)
        bad = [p for (_, p, k, v), a in zip(pre_terms + pre_tt, snap_terms + snap_tt) if not same_payload(a, payload(k, v))]
        S.check(not bad, "C15:solvePDE-modifies-terms", f"solvePDE changed an equation term (step {step + 1})", inp, bad[:4], "terms unchanged")
        bad = [p for (_, p, k, v), a in zip(pre_oth, snap_oth) if not same_payload(a, payload(k, v))]
        S.check(not bad, "C15:solvePDE-modifies-other-input", "solvePDE changed a coefficient variable or the mesh", inp, bad[:4], "unchanged")
        if not np.all(np.isfinite(np.asarray(phi._value))):
            return
    # ---- a REFUSED solvePDE call (unknown term after valid ones) leaves no trace: the variable, its cached boundary
    #      system and the terms are what they were, and the corrected call gives what a fresh variable gives
    #      (seeded changes C15-m11 / C02-m11 / C04-m11 / C07-m12 / C12-m12: accumulation into the cached term)
    def private_state(v):
        out = [np.asarray(v._value).tobytes()]
        bt = getattr(v, "_BCsTerm", None)
        if bt is not None:
            out += [bt[0].toarray().tobytes(), np.asarray(bt[1]).tobytes()]
        return out
    tt = pf.transientTerm(phi, 0.5, 1.0)
    good = [tt] + reused
    before = private_state(phi)
    twin = pf.CellVariable(mc.m, np.asarray(phi.value).copy(), make_bcs(mc, spec))
    raised = None
    try:
        pf.solvePDE(phi, good + ["not a term"])
    except Exception as ex:
        raised = type(ex).__name__
    S.check(raised == "TypeError", "C15:refused-solvePDE-no-TypeError", "solvePDE accepted an unknown term object", inp, raised, "TypeError")
    if raised is not None:
        S.check(private_state(phi) == before, "C15:refused-solvePDE-leaves-trace",
                "a solvePDE call that was refused (unknown term after valid ones) changed the variable's values or its cached boundary system", inp, None, "unchanged")
        bad = [p for (_, p, k, v), a in zip(pre_terms, snap_terms) if not same_payload(a, payload(k, v))]
        S.check(not bad, "C15:refused-solvePDE-modifies-terms", "a refused solvePDE call changed an equation term", inp, bad[:4], "terms unchanged")
        tt2 = pf.transientTerm(twin, 0.5, 1.0)
        pf.solvePDE(phi, good); pf.solvePDE(twin, [tt2] + reused)
        a_, b_ = np.asarray(phi.value), np.asarray(twin.value)
        if np.all(np.isfinite(a_)) and np.all(np.isfinite(b_)):
            S.check(bool(np.allclose(a_, b_, rtol=1e-9, atol=1e-9 * (1 + float(np.max(np.abs(b_)))))), "C15:retry-after-refused-solvePDE-differs",
                    "the corrected call after a refused solvePDE differs from the same solve on a fresh variable", inp, float(np.max(np.abs(a_ - b_))), 0.0)
    # BC coefficients of the solution variable are inputs too
    bcnow = [np.asarray(getattr(getattr(phi.BCs, s), x)).tobytes() for s in SIDES for x in "abc"]
    bcref = [np.asarray(getattr(getattr(make_bcs(mc, spec), s), x)).tobytes() for s in SIDES for x in "abc"]
    S.check(bcnow == bcref, "C15:solvePDE-modifies-BC-coefficients", "solvePDE changed the boundary coefficients of its variable", inp, None, None)
    # ---- solveMatrixPDE: nothing it is given changes
    Mbc, Rbc = boundaryConditionsTerm(phi.BCs)
    Mt, Rt = pf.transientTerm(phi, 0.5, 1.0)
    M = Mbc + Mt - pf.diffusionTerm(D)
    R = Rbc + Rt
    pre = state_of([(M, "M", "M"), (R, "RHS", "RHS"), (mc.m, "meshData", "mesh")]); sn = snapshot(pre)
    new = pf.solveMatrixPDE(mc.m, M, R)
    bad = [p for (_, p, k, v), a in zip(pre, sn) if not same_payload(a, payload(k, v))]
    S.check(not bad, "C15:solveMatrixPDE-modifies-input", "solveMatrixPDE changed the matrix, the right-hand side or the mesh", inp, bad[:4], "unchanged")
    sh = shared(state_of([(new, "ret", "ret")], into_mesh=False), pre)
    S.check(not sh, "C15:aliases-input:solveMatrixPDE", "the variable returned by solveMatrixPDE shares memory with its inputs", inp, [f"{r} ~ {i}" for _, i, r in sh][:4], None)
    # ---- solveExplicitPDE: the visible state of the old variable is untouched, also when its ghost cells are outdated
    old = pf.CellVariable(mc.m, vals.copy(), make_bcs(mc, spec))
    if rng.random() < 0.5:
        old.value[...] = rand_vals(rng, mc.shape(), "pos")
    if rng.random() < 0.3:
        getattr(old.BCs, SIDES[0]).c[:] = 0.5
    rhs = rand_vals(rng, mc.gshape()).ravel()
    vis = visible_state(old)
    rhs_b = rhs.tobytes()
    pre = state_of([(mc.m, "meshData", "mesh")]); sn = snapshot(pre)
    new = pf.solveExplicitPDE(old, 0.125, rhs)
    S.check(visible_state(old) == vis, "C15:solveExplicitPDE-modifies-input", "solveExplicitPDE changed the values or boundary coefficients of the old variable", inp, None, "unchanged")
    S.check(rhs.tobytes() == rhs_b, "C15:solveExplicitPDE-modifies-rhs", "solveExplicitPDE changed the right-hand side it was given", inp, None, "unchanged")
    bad = [p for (_, p, k, v), a in zip(pre, sn) if not same_payload(a, payload(k, v))]
    S.check(not bad, "C15:solveExplicitPDE-modifies-grid", "solveExplicitPDE changed the mesh", inp, bad[:4], "unchanged")
    S.check(new is not old and not np.shares_memory(np.asarray(new._value), np.asarray(old._value)), "C15:solveExplicitPDE-aliases-values",
            "the variable returned by solveExplicitPDE shares its value array with the old variable", inp, None, None)
    new2 = pf.solveExplicitPDE(old, 0.125, rhs)
    S.check(np.asarray(new._value).tobytes() == np.asarray(new2._value).tobytes(), "C15:not-deterministic:solveExplicitPDE",
            "two explicit steps from the same state differ", inp, None, None)


# ====================================================================== C14 search

def np_apply(op, x, y):
    if op == "and":
        return np.logical_and(x, y)
    if op == "or":
        return np.logical_or(x, y)
    return {"add": operator.add, "sub": operator.sub, "mul": operator.mul, "truediv": operator.truediv, "pow": operator.pow,
            "gt": operator.gt, "ge": operator.ge, "lt": operator.lt, "le": operator.le}[op](x, y)


def py_apply(op, x, y):
    return {"add": operator.add, "sub": operator.sub, "mul": operator.mul, "truediv": operator.truediv, "pow": operator.pow,
            "gt": operator.gt, "ge": operator.ge, "lt": operator.lt, "le": operator.le,
            "and": operator.and_, "or": operator.or_}[op](x, y)


def bc_content(bc):
    return [(np.asarray(getattr(bc, s).a).tobytes(), np.asarray(getattr(bc, s).b).tobytes(), np.asarray(getattr(bc, s).c).tobytes(),
             bool(getattr(bc, s).periodic)) for s in SIDES]


def full_bytes(objs):
    return snapshot(state_of([(o, "x", f"o{i}") for i, o in enumerate(objs)], into_mesh=False))


def check_cell_result(S, key, inp, res, leftmost, operands, expected, type_key=None):
    """all aspects of C14 for one CellVariable-valued result"""
    if not isinstance(res, pf.CellVariable):
        S.check(False, type_key or f"{key}:result-type", f"the result is a {type(res).__name__}, not a CellVariable", inp, type(res).__name__, "CellVariable")
        return
    S.check(True, f"{key}:result-type", "", inp, None, None)
    got = np.asarray(res.value, dtype=float)
    exp = np.asarray(expected, dtype=float)
    S.check(got.shape == exp.shape and np.array_equal(got, exp, equal_nan=True), f"{key}:elementwise",
            "interior values are not the elementwise numpy result", inp, got.ravel().tolist()[:8], exp.ravel().tolist()[:8])
    S.check(bc_content(res.BCs) == bc_content(leftmost.BCs), f"{key}:bcs", "the result does not carry the boundary conditions of its left-most variable operand", inp, None, None)
    if np.all(np.isfinite(got)):
        gh = cellValuesWithBoundaries(np.asarray(res.value), res.BCs)
        S.check(np.array_equal(np.asarray(res._value, dtype=float), np.asarray(gh, dtype=float), equal_nan=True), f"{key}:ghost",
                "boundary values of the result are not consistent with its boundary conditions", inp, None, None)
    ins = state_of([(o, "x", f"o{i}") for i, o in enumerate(operands)], into_mesh=False)
    sh = shared(state_of([(res, "ret", "ret")], into_mesh=False), ins)
    S.check(not sh, f"{key}:no-shared-memory", "the result shares memory with an operand", inp, [f"{r} ~ {i}" for _, i, r in sh][:4], None)
    # edit the result, look at the operands
    before = full_bytes(operands)
    res.value[...] = 7.25
    for s in SIDES:
        f = getattr(res.BCs, s)
        if np.asarray(f.a).size:
            f.a[:] = 5.0; f.c[:] = -3.0
    res.BCs.left.periodic = not res.BCs.left.periodic
    S.check(full_bytes(operands) == before, f"{key}:edit-result", "editing the result (values / boundary conditions) changed an operand", inp, None, None)
    # edit the operands, look at the result
    rb = full_bytes([res])
    for o in operands:
        if isinstance(o, pf.CellVariable):
            o.value[...] = -1.5
            for s in SIDES:
                f = getattr(o.BCs, s)
                if np.asarray(f.a).size:
                    f.b[:] = 9.0
            o.BCs.right.periodic = not o.BCs.right.periodic
        elif isinstance(o, np.ndarray):
            o[...] = 11.0
    S.check(full_bytes([res]) == rb, f"{key}:edit-operand", "editing an operand afterwards changed the result", inp, None, None)


def check_face_result(S, key, inp, res, operands, expected, mc):
    if not isinstance(res, pf.FaceVariable):
        S.check(False, f"{key}:result-type", f"the result is a {type(res).__name__}, not a FaceVariable", inp, type(res).__name__, "FaceVariable")
        return
    S.check(True, f"{key}:result-type", "", inp, None, None)
    ok = True
    for ax in range(mc.dim):
        got = np.asarray(facevar_arrays(mc, res)[ax], dtype=float)
        exp = np.asarray(expected[ax], dtype=float)
        ok = ok and got.shape == exp.shape and np.array_equal(got, exp, equal_nan=True)
    S.check(ok, f"{key}:elementwise", "face values are not the elementwise numpy result", inp, None, None)
    ins = state_of([(o, "x", f"o{i}") for i, o in enumerate(operands)], into_mesh=False)
    sh = shared(state_of([(res, "ret", "ret")], into_mesh=False), ins)
    S.check(not sh, f"{key}:no-shared-memory", "the result shares memory with an operand", inp, [f"{r} ~ {i}" for _, i, r in sh][:4], None)
    before = full_bytes(operands)
    for a in facevar_arrays(mc, res):
        a[...] = 7.25
    S.check(full_bytes(operands) == before, f"{key}:edit-result", "editing the result changed an operand", inp, None, None)
    rb = full_bytes([res])
    for o in operands:
        if isinstance(o, pf.FaceVariable):
            for a in facevar_arrays(mc, o):
                a[...] = -1.5
    S.check(full_bytes([res]) == rb, f"{key}:edit-operand", "editing an operand afterwards changed the result", inp, None, None)


BASE_OPS = ["add", "sub", "mul", "truediv", "pow", "gt", "ge", "lt", "le", "and", "or"]
REFLECTED = ["add", "sub", "mul", "truediv", "pow"]
C14_KINDS = ["cart1", "cyl1", "sph1", "cart2", "cyl2", "pol2", "cart3", "cyl3", "sph3"]


def search_c14(rng, n, S=None):
    S = S or Search("C14")
    for t in range(n):
        kind = C14_KINDS[t % len(C14_KINDS)]
        mc = rand_mesh(rng, kind, nmax=3)
        c14_on_mesh(S, rng, mc)
        if len(S.samples) < 2:
            S.samples.append(case_of(mc))
    return S


def c14_on_mesh(S, rng, mc):
    try:
        c14_cell(S, rng, mc)
        c14_face(S, rng, mc)
        c14_eval(S, rng, mc)
    except ValueError as ex:
        if "Radial periodic" not in str(ex):
            S.check(False, f"C14:exception:{mc.kind}", repr(ex), case_of(mc), repr(ex), "no exception")


def replay_on_mesh(body, pid):
    """re-evaluate the property on the mesh of a recorded counterexample (fresh random fields, several seeds)"""
    import random
    from implsearch import mesh_from_case
    mc = mesh_from_case(body["input"])
    S = Search(pid)
    for seed in range(6):
        (c15_on_mesh if pid == "C15" else c14_on_mesh)(S, random.Random(seed), mesh_from_case(body["input"]))
    hit = [v for v in S.violations if v["key"] == body.get("key")]
    ok = not hit
    return ok, (f"replay {pid} key={body.get('key')} on {mc.kind} {mc.dims}: {S.evaluations} evaluations, "
                f"{len(hit)} violation(s) of this key" + (f"; first: {hit[0]['what']} observed={str(hit[0]['observed'])[:160]}" if hit else "") + f" -> {'holds' if ok else 'FAILS'}")


def fresh_cell(rng, mc, mode="pos"):
    v = rand_vals(rng, mc.shape(), mode)
    spec = rand_bc_spec(rng, mc, kinds=("dirichlet", "neumann", "robin", "default"))
    return pf.CellVariable(mc.m, v.copy(), make_bcs(mc, spec)), v, spec


def c14_cell(S, rng, mc):
    mode = rng.choice(["pos", "pos", "mixed", "ints"])
    # ---- binary, variable on the left
    for op in BASE_OPS:
        for ok in ("var", "float", "npfloat", "ndarray"):
            a, av, aspec = fresh_cell(rng, mc, mode)
            if ok == "var":
                b, bv, _ = fresh_cell(rng, mc, mode); rhs = b; rv = bv
            elif ok == "float":
                rhs = rv = rng.choice([2.0, -1.5, 0.5, 0.0])
            elif ok == "npfloat":
                rhs = rv = np.float64(rng.choice([2.0, -1.5, 0.5]))
            else:
                rhs = rand_vals(rng, mc.shape(), mode); rv = rhs.copy()
            key = f"C14:{op}:{ok}"
            inp = case_of(mc, op=op, operand=ok, left=av, right=rv if isinstance(rv, np.ndarray) else float(rv), bc=bc_describe(aspec))
            S.sig("cell", op, ok, mc.kind)
            operands = [a, rhs] if not isinstance(rhs, float) else [a]
            before = full_bytes(operands)
            try:
                res = py_apply(op, a, rhs)
            except Exception as ex:
                S.check(False, f"{key}:exception", repr(ex), inp, repr(ex), "no exception")
                continue
            S.check(full_bytes(operands) == before, f"{key}:operands-unchanged", "an operand was modified", inp, None, None)
            check_cell_result(S, key, inp, res, a, operands, np_apply(op, av, rv))
    # ---- reflected: something else on the left
    for op in REFLECTED:
        for ok in ("float", "npfloat", "ndarray"):
            a, av, aspec = fresh_cell(rng, mc, "pos")
            if ok == "float":
                lhs = lv = rng.choice([2.0, 1.5, 0.5])
            elif ok == "npfloat":
                lhs = lv = np.float64(rng.choice([2.0, 1.5, 0.5]))
            else:
                lhs = rand_vals(rng, mc.shape(), "pos"); lv = lhs.copy()
            key = f"C14:r{op}:{ok}-left"
            inp = case_of(mc, op="r" + op, operand=ok + "-left", right=av, left=lv if isinstance(lv, np.ndarray) else float(lv), bc=bc_describe(aspec))
            S.sig("cell", "r" + op, ok, mc.kind)
            operands = [a, lhs] if isinstance(lhs, np.ndarray) else [a]
            before = full_bytes(operands)
            try:
                res = py_apply(op, lhs, a)
            except Exception as ex:
                S.check(False, f"{key}:exception", repr(ex), inp, repr(ex), "no exception")
                continue
            S.check(full_bytes(operands) == before, f"{key}:operands-unchanged", "an operand was modified", inp, None, None)
            check_cell_result(S, key, inp, res, a, operands, np_apply(op, lv, av),
                              type_key=f"C14:numpy-left:{ok}:returns-ndarray" if ok != "float" else None)
    # ---- unary
    for op, f, g in (("neg", operator.neg, np.negative), ("abs", abs, np.abs)):
        a, av, aspec = fresh_cell(rng, mc, "mixed")
        inp = case_of(mc, op=op, left=av, bc=bc_describe(aspec))
        before = full_bytes([a])
        res = f(a)
        S.check(full_bytes([a]) == before, f"C14:{op}:var:operands-unchanged", "the operand was modified", inp, None, None)
        check_cell_result(S, f"C14:{op}:var", inp, res, a, [a], g(av))
        S.sig("cell", op, mc.kind)
    # ---- copy()
    a, av, aspec = fresh_cell(rng, mc, "mixed")
    if rng.random() < 0.5:
        a.value[...] = rand_vals(rng, mc.shape())            # outdated ghost cells are copied as they are
    inp = case_of(mc, op="copy", left=np.asarray(a.value), bc=bc_describe(aspec))
    before = full_bytes([a])
    c = a.copy()
    S.check(full_bytes([a]) == before, "C14:copy:operands-unchanged", "copy() modified the variable", inp, None, None)
    S.check(isinstance(c, pf.CellVariable) and np.asarray(c._value).tobytes() == np.asarray(a._value).tobytes() and bc_content(c.BCs) == bc_content(a.BCs)
            and c.domain is a.domain, "C14:copy:equal", "copy() is not equal to the original (values incl. boundary values, boundary conditions, mesh)", inp, None, None)
    sh = shared(state_of([(c, "ret", "ret")], into_mesh=False), state_of([(a, "x", "a")], into_mesh=False))
    S.check(not sh, "C14:copy:no-shared-memory", "copy() shares memory with the original", inp, [f"{r} ~ {i}" for _, i, r in sh][:4], None)
    c.value[...] = 3.5
    c.BCs.left.a[:] = 4.0
    c.BCs.left.periodic = not c.BCs.left.periodic
    S.check(full_bytes([a]) == before, "C14:copy:edit-copy", "editing the copy changed the original", inp, None, None)
    cb = full_bytes([c])
    a.value[...] = -2.0
    a.BCs.right.c[:] = 1.25
    S.check(full_bytes([c]) == cb, "C14:copy:edit-original", "editing the original changed the copy", inp, None, None)
    S.sig("cell", "copy", mc.kind)


def c14_face(S, rng, mc):
    def fv(mode="pos"):
        arrs = rand_face_arrays(rng, mc, mode)
        return make_facevar(mc, arrs), [a.copy() for a in arrs]
    for op in BASE_OPS:
        for ok in ("var", "float", "npfloat", "ndarray"):
            a, av = fv()
            if ok == "var":
                b, bv = fv(); rhs = b; rv = bv
            elif ok == "float":
                rhs = rng.choice([2.0, -1.5, 0.5]); rv = [rhs] * mc.dim
            elif ok == "npfloat":
                rhs = np.float64(rng.choice([2.0, -1.5, 0.5])); rv = [rhs] * mc.dim
            else:
                rhs = rand_vals(rng, mc.face_shapes()[0], "pos"); rv = None
            key = f"C14:face:{op}:{ok}"
            inp = case_of(mc, op=op, operand=ok, face=av)
            S.sig("face", op, ok, mc.kind)
            operands = [a, rhs] if not isinstance(rhs, float) else [a]
            before = full_bytes(operands)
            try:
                res = py_apply(op, a, rhs)
            except Exception as ex:
                S.check(False, "face-ndarray-operand" if ok == "ndarray" else f"{key}:exception",
                        f"FaceVariable {op} {ok} raised {type(ex).__name__}", inp, repr(ex), "a FaceVariable")
                continue
            S.check(full_bytes(operands) == before, f"{key}:operands-unchanged", "an operand was modified", inp, None, None)
            if rv is None:
                # an array on the right of a FaceVariable: accepted only if it acted on every component elementwise
                try:
                    rv = [np.broadcast_to(rhs, av[ax].shape) for ax in range(mc.dim)]
                except ValueError:
                    S.check(False, "face-ndarray-operand", f"FaceVariable {op} ndarray: an array that cannot act on every component elementwise was accepted", inp,
                            [list(np.shape(x)) for x in facevar_arrays(mc, res)] if isinstance(res, pf.FaceVariable) else type(res).__name__, [list(x.shape) for x in av])
                    continue
            check_face_result(S, key, inp, res, operands, [np_apply(op, av[ax], rv[ax]) for ax in range(mc.dim)], mc)
    for op in REFLECTED:
        for ok in ("float", "npfloat", "ndarray"):
            a, av = fv()
            if ok == "float":
                lhs = rng.choice([2.0, 1.5, 0.5])
            elif ok == "npfloat":
                lhs = np.float64(rng.choice([2.0, 1.5, 0.5]))
            else:
                lhs = rand_vals(rng, mc.face_shapes()[0], "pos")
            key = f"C14:face:r{op}:{ok}-left"
            inp = case_of(mc, op="r" + op, operand=ok + "-left", face=av)
            S.sig("face", "r" + op, ok, mc.kind)
            operands = [a, lhs] if isinstance(lhs, np.ndarray) else [a]
            before = full_bytes(operands)
            try:
                res = py_apply(op, lhs, a)
            except Exception as ex:
                S.check(False, "face-ndarray-operand" if ok == "ndarray" else f"{key}:exception", f"{ok} {op} FaceVariable raised {type(ex).__name__}", inp, repr(ex), "a FaceVariable")
                continue
            S.check(full_bytes(operands) == before, f"{key}:operands-unchanged", "an operand was modified", inp, None, None)
            if isinstance(lhs, np.ndarray):
                if not isinstance(res, pf.FaceVariable):
                    S.check(False, "face-ndarray-operand", f"ndarray {op} FaceVariable is a {type(res).__name__} (dtype {getattr(res, 'dtype', None)}), not a FaceVariable", inp, type(res).__name__, "FaceVariable")
                continue
            check_face_result(S, key, inp, res, operands, [np_apply(op, lhs, av[ax]) for ax in range(mc.dim)], mc)
    for op, f, g in (("neg", operator.neg, np.negative), ("abs", abs, np.abs)):
        a, av = fv("mixed")
        inp = case_of(mc, op=op, face=av)
        before = full_bytes([a])
        res = f(a)
        S.check(full_bytes([a]) == before, f"C14:face:{op}:var:operands-unchanged", "the operand was modified", inp, None, None)
        check_face_result(S, f"C14:face:{op}:var", inp, res, [a], [g(x) for x in av], mc)


def c14_eval(S, rng, mc):
    for k in range(1, 9):
        f = lambda *xs: sum((i + 1.0) * x for i, x in enumerate(xs))
        for nm, fn in (("funceval", pf.funceval), ("celleval", pf.celleval)):
            cells = [fresh_cell(rng, mc, "mixed") for _ in range(k)]
            objs = [c[0] for c in cells]
            inp = case_of(mc, op=nm, arity=k, cell=[c[1] for c in cells])
            before = full_bytes(objs)
            try:
                res = fn(f, *objs)
            except Exception as ex:
                S.check(False, f"C14:{nm}:arity{k}:exception", repr(ex), inp, repr(ex), "no exception")
                continue
            S.check(full_bytes(objs) == before, f"C14:{nm}:arity{k}:operands-unchanged", "an argument was modified", inp, None, None)
            check_cell_result(S, f"C14:{nm}:arity{k}", inp, res, objs[0], objs, f(*[c[1] for c in cells]))
            S.sig(nm, k, mc.kind)
        faces = [rand_face_arrays(rng, mc, "mixed") for _ in range(k)]
        objs = [make_facevar(mc, a) for a in faces]
        inp = case_of(mc, op="faceeval", arity=k)
        before = full_bytes(objs)
        try:
            res = pf.faceeval(f, *objs)
        except Exception as ex:
            S.check(False, f"C14:faceeval:arity{k}:exception", repr(ex), inp, repr(ex), "no exception")
            continue
        S.check(full_bytes(objs) == before, f"C14:faceeval:arity{k}:operands-unchanged", "an argument was modified", inp, None, None)
        check_face_result(S, f"C14:faceeval:arity{k}", inp, res, objs, [f(*[fa[ax] for fa in faces]) for ax in range(mc.dim)], mc)
        S.sig("faceeval", k, mc.kind)
    # a function that hands its argument back: the result must still be a new, independent object
    a, av, aspec = fresh_cell(rng, mc, "mixed")
    inp = case_of(mc, op="funceval", arity=1, function="identity", cell=av)
    res = pf.funceval(lambda x: x, a)
    check_cell_result(S, "C14:funceval:identity", inp, res, a, [a], av)
    arrs = rand_face_arrays(rng, mc, "mixed")
    fvar = make_facevar(mc, arrs)
    res = pf.faceeval(lambda x: x, fvar)
    check_face_result(S, "C14:faceeval:identity", case_of(mc, op="faceeval", arity=1, function="identity", face=arrs), res, [fvar], [x.copy() for x in arrs], mc)
