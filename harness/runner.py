"""Check runner: regenerate → build → audit → correspondence → known findings → verdict → evidence.

Usage: /venv/bin/python harness/runner.py <Cxx> [--tier quick|thorough] [--replay FILE]
Exit 0: property held on everything explored; 1: VIOLATION line printed; 2: infrastructure error/timeout.
"""
import os, sys, re, json, time, random, subprocess, importlib, traceback, glob

HERE = os.path.dirname(os.path.abspath(__file__))
sys.path.insert(0, HERE)
from common import VERIF, LEAN, REPO, lake_build

ALLOWED_AXIOMS = {"propext", "Classical.choice", "Quot.sound"}
FORBIDDEN = re.compile(r"\b(sorry|admit|native_decide|bv_decide|implemented_by|maxHeartbeats 0)\b|^axiom |\bunsafe ")

TRUSTED_BASE = [
    "Lean 4.33.0 kernel + Mathlib v4.33.0 (axioms allowed: propext, Classical.choice, Quot.sound; audited per theorem on every run)",
    "hand-written Lean model (lean/PyFV/Model) tied to /repo only by the sampled float-vs-exact-rational correspondence (tolerance 1e-9 relative)",
    "translators harness/translate/*.py (Python ast -> Lean) where used",
    "exact ordered-field arithmetic in the theorems vs IEEE doubles in the code (rounding, overflow, conditioning not modelled)",
    "scipy spsolve returns a solution (residual of what it returned is measured, not proved)",
    "numpy sin/cos/pi enter the model as numbers; only their positivity is used outside C10/C11",
]


def log(*a):
    print(*a, flush=True)


def strip_comments(src):
    # remove /- ... -/ (nested not handled beyond one level) and -- comments
    out = []
    i = 0
    depth = 0
    n = len(src)
    while i < n:
        if src.startswith("/-", i):
            depth += 1; i += 2; continue
        if src.startswith("-/", i) and depth > 0:
            depth -= 1; i += 2; continue
        if depth == 0:
            if src.startswith("--", i):
                j = src.find("\n", i)
                i = n if j < 0 else j
                continue
            out.append(src[i])
        elif src[i] == "\n":
            out.append("\n")
        i += 1
    return "".join(out)


def import_closure(modules):
    """files of the given modules and everything of this project they import (transitively)"""
    seen, todo = set(), list(modules)
    while todo:
        mod = todo.pop()
        if mod in seen:
            continue
        path = os.path.join(LEAN, mod.replace(".", "/") + ".lean")
        if not os.path.exists(path):
            continue
        seen.add(mod)
        for line in open(path):
            m = re.match(r"\s*import\s+(PyFV[\w.]*)", line)
            if m:
                todo.append(m.group(1))
    return [os.path.join(LEAN, m.replace(".", "/") + ".lean") for m in sorted(seen)]


def grep_forbidden(modules):
    hits = []
    files = import_closure(list(modules) + ["PyFV", "PyFV.Gen.Limiters"]) + [os.path.join(LEAN, f) for f in ("Driver.lean", "DriverState.lean", "DriverErr.lean") if os.path.exists(os.path.join(LEAN, f))]
    for f in files:
        body = strip_comments(open(f).read())
        for ln, line in enumerate(body.split("\n"), 1):
            if FORBIDDEN.search(line):
                hits.append(f"{os.path.relpath(f, LEAN)}:{ln}: {line.strip()[:120]}")
    return hits


def theorem_names(module):
    """theorems declared in a Props module, fully qualified (namespace from the file)"""
    path = os.path.join(LEAN, module.replace(".", "/") + ".lean")
    src = strip_comments(open(path).read())
    ns = []
    names = []
    for line in src.split("\n"):
        m = re.match(r"\s*namespace\s+([\w.]+)", line)
        if m:
            ns.append(m.group(1)); continue
        m = re.match(r"\s*end\s+([\w.]+)", line)
        if m and ns and ns[-1] == m.group(1):
            ns.pop(); continue
        m = re.match(r"\s*(?:@\[[^\]]*\]\s*)?(?:private\s+|protected\s+)?theorem\s+([\w.']+)", line)
        if m:
            names.append(".".join(ns + [m.group(1)]))
    return names


def _parse_axioms(out):
    res = {}
    # parse: "'Name' depends on axioms: [a, b]" or "'Name' does not depend on any axioms"
    flat = out.replace("\n ", " ")
    for m in re.finditer(r"^'(.+?)' depends on axioms: \[([^\]]*)\]", flat, re.M):
        res[m.group(1)] = [a.strip() for a in m.group(2).split(",") if a.strip()]
    for m in re.finditer(r"^'(.+?)' does not depend on any axioms", flat, re.M):
        res[m.group(1)] = []
    return res


def _audit_module(mod):
    """axioms of every theorem of one module.  First through the compiled module; if the module did not build, its
    source is elaborated directly (Lean continues after an error, so the theorems that still check are told apart from
    the ones that do not: a failed proof shows up as `sorryAx` or as an unknown constant)."""
    try:
        names = theorem_names(mod)
    except FileNotFoundError:
        return [f"<missing module {mod}>"], {}, ""
    tag = f"{os.getpid()}_{mod.replace('.', '_')}"
    tmp = os.path.join(LEAN, f".audit_{tag}.lean")
    open(tmp, "w").write(f"import {mod}\n" + "\n".join(f"#print axioms {n}" for n in names) + "\n")
    try:
        p = subprocess.run(["lake", "env", "lean", tmp], cwd=LEAN, capture_output=True, text=True)
    finally:
        os.remove(tmp)
    out = p.stdout + p.stderr
    res = _parse_axioms(out)
    if names and not any(n in res for n in names):
        srcfile = os.path.join(LEAN, mod.replace(".", "/") + ".lean")
        tmp = os.path.join(LEAN, f".auditsrc_{tag}.lean")
        open(tmp, "w").write(open(srcfile).read() + "\n" + "\n".join(f"#print axioms {n}" for n in names) + "\n")
        try:
            p = subprocess.run(["lake", "env", "lean", tmp], cwd=LEAN, capture_output=True, text=True)
        finally:
            os.remove(tmp)
        out = p.stdout + p.stderr
        res = _parse_axioms(out)
    return names, res, out


def audit(modules):
    """returns (obligations: list[dict(name, ok, axioms, error)], raw)"""
    from concurrent.futures import ThreadPoolExecutor
    with ThreadPoolExecutor(max_workers=min(8, max(1, len(modules)))) as ex:
        parts = list(ex.map(_audit_module, modules))
    obs, raw = [], ""
    for names, res, out in parts:
        raw += out
        for n in names:
            if n in res:
                bad = [a for a in res[n] if a not in ALLOWED_AXIOMS]
                obs.append({"name": n, "ok": not bad, "axioms": res[n], "error": ("disallowed axioms " + ",".join(bad)) if bad else None})
            else:
                obs.append({"name": n, "ok": False, "axioms": None, "error": "not elaborated (build broken or theorem missing)"})
    return obs, raw


def load_known():
    known, fixed = {}, []
    path = os.path.join(VERIF, "known-findings.txt")
    if os.path.exists(path):
        for line in open(path):
            line = line.strip()
            m = re.match(r"known: property=(\S+) key=(\S+) :: (.*)", line)
            if m:
                known.setdefault(m.group(1), {})[m.group(2)] = m.group(3)
            elif line.startswith("fixed:"):
                fixed.append(line)
    return known, fixed


def write_replay(pid, seed, n, body):
    d = os.path.join(VERIF, "replay")
    os.makedirs(d, exist_ok=True)
    path = os.path.join(d, f"{pid}-{seed}-{n}.json")
    body = dict(body)
    body["property"] = pid
    body["seed"] = seed
    body["rerun"] = f"./check {pid} --replay {os.path.relpath(path, VERIF)}"
    with open(path, "w") as f:
        json.dump(body, f, indent=1, default=str)
    return path


def main():
    t0 = time.time()
    args = sys.argv[1:]
    pid = args[0]
    tier = os.environ.get("VERIF_TIER", "quick")
    replay = None
    i = 1
    while i < len(args):
        if args[i] == "--tier":
            tier = args[i + 1]; i += 2
        elif args[i] == "--replay":
            replay = args[i + 1]; i += 2
        else:
            i += 1
    if tier not in ("quick", "thorough"):
        tier = "quick"
    seed = int(os.environ.get("VERIF_SEED", "0") or 0)
    prop = importlib.import_module(f"props.{pid}")

    if replay:
        body = json.load(open(replay if os.path.isabs(replay) else os.path.join(VERIF, replay)))
        ok, msg = prop.replay(body)
        log(msg)
        if not ok:
            log(f"VIOLATION property={pid} replay={replay}")
        sys.exit(0 if ok else 1)

    # 1. regenerate
    gen_status = {}
    for name, cmd in getattr(prop, "TRANSLATORS", {}).items():
        p = subprocess.run(cmd, cwd=VERIF, capture_output=True, text=True, shell=True)
        gen_status[name] = (p.stdout.strip().split("\n")[-1] if p.returncode == 0 else f"FAILED: {p.stderr[-400:]}")
    # 2. build
    modules = list(prop.MODULES)
    ok_build, build_out = lake_build(["PyFV", "PyFV.Gen.Limiters"])     # model + what the driver imports
    ok_props, props_out = lake_build(modules)
    broken = []
    if not ok_build:
        errs = [l for l in build_out.split("\n") if "error" in l][:8]
        log("lean build of the model failed:\n  " + "\n  ".join(errs))
    if not ok_props:
        errs = [l for l in props_out.split("\n") if "error" in l][:8]
        log("lean build of the property theorems failed:\n  " + "\n  ".join(errs))
    # 3. audit
    obligations, _ = audit(modules)
    for o in obligations:
        if not o["ok"]:
            broken.append({"kind": "obligation", "name": o["name"], "error": o["error"]})
    forb = grep_forbidden(modules)
    for h in forb:
        broken.append({"kind": "forbidden-token", "name": h, "error": "forbidden token in Lean sources"})
    if tier == "thorough" and ok_build and ok_props:
        p = subprocess.run(["lake", "env", "leanchecker"] + modules, cwd=LEAN, capture_output=True, text=True)
        if p.returncode != 0:
            broken.append({"kind": "leanchecker", "name": " ".join(modules), "error": (p.stdout + p.stderr)[-400:]})
    # 4. correspondence
    rng = random.Random(seed * 1000003 + 17)
    reports = []
    corr_error = None
    if ok_build:
        try:
            reports = prop.corr(rng, tier)
        except Exception as ex:
            corr_error = traceback.format_exc()
            broken.append({"kind": "correspondence-crash", "name": pid, "error": corr_error[-1500:]})
    else:
        broken.append({"kind": "build", "name": "lake build", "error": build_out[-1500:]})
    mism = []
    for r in reports:
        mism += r.mismatches
    for m in mism[:50]:
        broken.append({"kind": "correspondence", "name": f"{m['op']}/{m['what']}", "error": json.dumps(m["detail"], default=str)[:600],
                       "case": m["case"]})
    # 5./6. implementation-level search: always in thorough tier and whenever something is broken;
    #        quick tier runs a small version as additional validation
    known, fixed = load_known()
    known_here = known.get(pid, {})
    violations = []   # dicts with key, what, input, observed, expected
    search_stats = {}
    try:
        violations, search_stats = prop.search(random.Random(seed * 7919 + 3), tier, bool(broken),
                                               [b.get("case") for b in broken if b.get("case")])
    except Exception:
        tb = traceback.format_exc()
        broken.append({"kind": "search-crash", "name": pid, "error": tb[-1500:]})
    known_hits, new_viol = [], []
    for v in violations:
        (known_hits if v.get("key") in known_here else new_viol).append(v)
    printed = set()
    for v in known_hits:
        if v["key"] not in printed:
            printed.add(v["key"])
            log(f"KNOWN-FINDING: property={pid} {v['key']}: {known_here[v['key']]}")
    # a correspondence mismatch that is explained by a known finding key is not a new breakage
    broken_eff = [b for b in broken if not (b["kind"] == "correspondence" and getattr(prop, "known_corr", lambda b: None)(b) in known_here)]
    exit_code = 0
    n_rep = 0
    viol_lines = []
    if new_viol:
        seen = set()
        for v in new_viol:
            if v.get("key") in seen:
                continue
            seen.add(v.get("key"))
            path = write_replay(pid, seed, n_rep, {"kind": "impl-counterexample", **v,
                                                  "broken": [{k: b[k] for k in ("kind", "name", "error")} for b in broken_eff[:5]]})
            n_rep += 1
            viol_lines.append(f"VIOLATION property={pid} replay={os.path.relpath(path, VERIF)}")
            if n_rep >= 3:
                break
        exit_code = 1
    elif broken_eff:
        path = write_replay(pid, seed, 0, {"kind": "broken-obligation",
                                           "failed": [{k: b.get(k) for k in ("kind", "name", "error", "case")} for b in broken_eff[:10]],
                                           "note": "the model/proof/correspondence no longer checks; no failing input of the property itself was found on the implementation"})
        viol_lines.append(f"VIOLATION property={pid} replay={os.path.relpath(path, VERIF)} no-failing-input-found")
        exit_code = 1
    # 7. evidence
    n_ob = len(obligations)
    n_ok = sum(1 for o in obligations if o["ok"])
    evaluations = sum(r.cases for r in reports) + int(search_stats.get("evaluations", 0))
    distinct = len(set().union(*[{(r.op,) + s for s in r.signatures} for r in reports])) if reports else 0
    distinct += int(search_stats.get("distinct", 0))
    samples = []
    for r in reports:
        samples += r.samples[:1]
    samples += search_stats.get("samples", [])[:2]
    samples.append({"obligations": [o["name"] for o in obligations[:6]]})
    ev = {
        "property_id": pid, "tier": tier, "seed": seed, "level": "proof",
        "coverage": {
            "obligations": n_ob, "discharged": n_ok,
            "checker_cmd": f"cd /verif/lean && lake build {' '.join(modules)} && lake env lean <#print axioms of every theorem in {' '.join(modules)}>"
                           + (" && lake env leanchecker " + " ".join(modules) if tier == "thorough" else ""),
            "trusted_base": TRUSTED_BASE + list(getattr(prop, "EXTRA_TRUST", [])),
            "theorems": [{"name": o["name"], "axioms": o["axioms"], "ok": o["ok"]} for o in obligations],
            "evaluations": evaluations,
            "distinct_nontrivial": distinct,
            "rule": getattr(prop, "RULE", "cases are generated from one PRNG (seed); a case is counted as distinct non-trivial when its signature "
                            "(op, grid class, cell counts, sign/BC/limiter pattern) is new in this run"),
            "samples": samples[:6],
            "correspondence": [r.summary() for r in reports],
            "implementation_search": {k: v for k, v in search_stats.items() if k != "samples"},
            "translators": gen_status,
            "broken": [{k: b.get(k) for k in ("kind", "name", "error")} for b in broken[:10]],
            "known_findings_reproduced": sorted(printed),
            "fixed_findings": [f for f in fixed if f"property={pid} " in f],
        },
        "assumptions": list(getattr(prop, "ASSUMPTIONS", [])) + [
            "what the theorems say about the code: on every input where implementation and model agree to rounding (measured on the explored cases, assumed elsewhere) the property holds up to that rounding"],
        "wall_s": round(time.time() - t0, 2),
        "violations": len(viol_lines),
    }
    os.makedirs(os.path.join(VERIF, "evidence"), exist_ok=True)
    with open(os.path.join(VERIF, "evidence", f"{pid}.json"), "w") as f:
        json.dump(ev, f, indent=1, default=str)
    log(f"[{pid}] tier={tier} seed={seed} obligations {n_ok}/{n_ob} discharged; correspondence cases={sum(r.cases for r in reports)} "
        f"mismatches={len(mism)}; search evaluations={search_stats.get('evaluations', 0)} violations={len(new_viol)} "
        f"known={len(printed)}; {ev['wall_s']}s")
    for l in viol_lines:
        log(l)
    sys.exit(exit_code)


if __name__ == "__main__":
    try:
        main()
    except SystemExit:
        raise
    except Exception:
        traceback.print_exc()
        sys.exit(2)
