#!/usr/bin/env python3
"""Print the markdown table "which checks catch which seeded changes" from seeded/*/meta.json
(the table of DESIGN.md §13.5 is produced with this; meta.json is written by harness/seedrun.py)."""
import os, json, glob
VERIF = os.path.dirname(os.path.dirname(os.path.abspath(__file__)))


def main():
    print("| seeded change | what was changed | needs | caught by (quick tier, seed 0) | not caught by |")
    print("|---|---|---|---|---|")
    for f in sorted(glob.glob(os.path.join(VERIF, "seeded", "*", "meta.json"))):
        m = json.load(open(f))
        runs = m.get("runs", {})

        def how(c):
            ls = runs.get(c, {}).get("lines", [])
            head = ls[0] if ls else ""
            tags = []
            if "obligations" in head:
                ob = head.split("obligations ")[1].split(" ")[0]
                a, b = ob.split("/")
                if a != b:
                    tags.append("proof")
                mm = head.split("mismatches=")[1].split(";")[0] if "mismatches=" in head else "0"
                if mm != "0":
                    tags.append("corr")
                vv = head.split("violations=")[1].split(" ")[0] if "violations=" in head else "0"
                if vv != "0":
                    tags.append("search")
            return c + ("(" + "+".join(tags) + ")" if tags else "")
        caught = ", ".join(how(c) for c in m.get("caught_by", []))
        missed = ", ".join(m.get("missed_by", [])) or "—"
        what = m.get("what", "").replace("|", "\\|")
        needs = m.get("needs", "").replace("|", "\\|")
        print(f"| {m['id']} | {what} | {needs} | {caught} | {missed} |")


if __name__ == "__main__":
    main()
