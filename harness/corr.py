"""Correspondence checks: the hand-written Lean model vs the implementation.

Each `corr_*` function generates cases from the given PRNG, runs the real API
in-process, sends the same inputs (exact rationals) to the Lean driver and compares.
It returns a `Report` (counts, distribution, mismatches with replayable inputs).
"""
import math, itertools, json
import numpy as np
from fractions import Fraction
from common import *
from scipy.sparse import csr_array


class Report:
    def __init__(self, op):
        self.op = op
        self.cases = 0
        self.values = 0
        self.signatures = set()
        self.mismatches = []
        self.hist = {}
        self.samples = []

    def count(self, key):
        self.hist[key] = self.hist.get(key, 0) + 1

    def sig(self, *s):
        self.signatures.add(tuple(s))

    def bad(self, what, case, detail):
        self.mismatches.append({"op": self.op, "what": what, "case": case, "detail": detail})

    def merge(self, other):
        self.cases += other.cases
        self.values += other.values
        self.signatures |= {(other.op,) + s for s in other.signatures}
        self.mismatches += other.mismatches
        for k, v in other.hist.items():
            self.hist[f"{other.op}:{k}"] = self.hist.get(f"{other.op}:{k}", 0) + v
        self.samples += other.samples[:2]

    def summary(self):
        return {"op": self.op, "cases": self.cases, "values_compared": self.values,
                "distinct_signatures": len(self.signatures), "mismatches": len(self.mismatches),
                "hist": dict(sorted(self.hist.items()))}


def gflat(mc, idx):
    """flat index into the ghosted array of cell idx (tuple of per-axis ghosted indices)"""
    g = mc.gshape()
    f = 0
    for a, i in enumerate(idx):
        f = f * g[a] + i
    return f


def interior_cells(mc):
    return list(itertools.product(*[range(1, n + 1) for n in mc.dims]))


def all_cells(mc):
    return list(itertools.product(*[range(0, n + 2) for n in mc.dims]))


def rows_from_matrix(mc, M):
    """(rows [ncells][7] in model order p xm xp ym yp zm zp, stray nonzeros outside the stencil / in ghost rows)"""
    A = csr_array(M).toarray()
    G = A.shape[0]
    rows, stray = [], []
    interior = set()
    for c in interior_cells(mc):
        g = gflat(mc, c)
        interior.add(g)
        pos = [g]
        for a in range(3):
            if a < mc.dim:
                lo = list(c); lo[a] -= 1
                hi = list(c); hi[a] += 1
                pos += [gflat(mc, lo), gflat(mc, hi)]
            else:
                pos += [None, None]
        row = A[g]
        vals = []
        used = set()
        for p in pos:
            if p is None:
                vals.append(0.0)
            else:
                # with n = 1 along an axis lo/hi are distinct ghost cells; positions never coincide
                vals.append(float(row[p])); used.add(p)
        for j in np.nonzero(row)[0]:
            if int(j) not in used:
                stray.append((g, int(j), float(row[j])))
        rows.append(vals)
    for g in range(G):
        if g not in interior:
            for j in np.nonzero(A[g])[0]:
                stray.append((g, int(j), float(A[g, j])))
    return rows, stray


def interior_vec(mc, v):
    v = np.asarray(v, dtype=float).reshape(mc.gshape())
    sl = tuple(slice(1, -1) for _ in mc.dims)
    inner = v[sl].ravel()
    mask = np.ones(mc.gshape(), dtype=bool)
    mask[sl] = False
    stray = [(int(i), float(x)) for i, x in enumerate(v.ravel()) if mask.ravel()[i] and x != 0.0]
    return inner, stray


def compare_rows(rep, what, case, impl_rows, reply):
    vals = parse_vals(reply)
    n = len(impl_rows)
    if len(vals) != 7 * n:
        rep.bad(what, case, {"error": "length", "impl": 7 * n, "model": len(vals)})
        return
    # a row whose exact coefficients cancel to 0 carries rounding residue of the size eps * (largest coefficient of the
    # matrix): the row scale is floored at 1e-6 of the largest entry of the whole stencil table
    gmax = max([abs(x) for row in impl_rows for x in row if math.isfinite(x)] + [abs(x) for x in vals if x is not None] + [0.0])
    for r in range(n):
        mrow = vals[7 * r:7 * r + 7]
        irow = impl_rows[r]
        sc = max([abs(x) for x in irow if math.isfinite(x)] + [abs(x) for x in mrow if x is not None] + [1e-6 * gmax])
        for k in range(7):
            rep.values += 1
            if not close(irow[k], mrow[k], sc):
                rep.bad(what, case, {"cell": r, "entry": "p xm xp ym yp zm zp".split()[k],
                                     "impl": irow[k], "model": mrow[k], "impl_row": irow, "model_row": mrow})
                return


def compare_vec(rep, what, case, impl, reply, rowscale=False):
    vals = parse_vals(reply)
    bad = compare_arrays(impl, vals)
    rep.values += len(vals)
    if bad:
        rep.bad(what, case, {"first": bad[0], "n_bad": len(bad),
                             "impl": [float(x) for x in np.asarray(impl, dtype=float).ravel()][:64], "model": vals[:64]})


def sign_pattern(arrs):
    s = set()
    for a in arrs:
        for v in np.asarray(a).ravel():
            s.add(0 if v == 0 else (1 if v > 0 else -1))
    return "".join({-1: "-", 0: "0", 1: "+"}[x] for x in sorted(s))


# ------------------------------------------------------------------ mesh

def corr_mesh(rng, ncases, kinds=None, nmax=5):
    rep = Report("mesh")
    drv = Driver()
    pend = []
    for t in range(ncases):
        kind = (kinds or KINDS)[t % len(kinds or KINDS)]
        if rng.random() < 0.65:
            mc = rand_mesh(rng, kind, nmax=nmax)
            op = "mesh"
        else:
            dim = DIM[kind]
            Ns = [rng.choice([1, 2, 3, 4, 5, 7]) for _ in range(dim)]
            if dim == 3:
                Ns = [min(n, 4) for n in Ns]
            Ls = []
            for ax in range(dim):
                if ax == 1 and kind == "sph3":
                    Ls.append(rng.choice([1.0, 2.0, 3.0, math.pi]))
                elif ax >= 1 and kind in ("pol2", "cyl3", "sph3"):
                    Ls.append(rng.choice([1.0, 2.0, math.pi, 2 * math.pi]))
                else:
                    Ls.append(rng.choice([1.0, 0.5, 3.0, 10.0, 0.1, 7.0]))
            mc = MeshCase(kind, [np.linspace(0, L, n + 1) for n, L in zip(Ns, Ls)], nl=(Ns, Ls))
            op = "meshnl"
        i = drv.add(op, mc)
        pend.append((i, mc, op))
    replies = drv.run()
    for i, mc, op in pend:
        m = mc.m
        impl = []
        for ax, name in enumerate(["_x", "_y", "_z"][:mc.dim]):
            impl += list(getattr(m.cellsize, name)) + list(getattr(m.cellcenters, name)) + list(getattr(m.facecenters, name))
        impl += list(np.asarray(m.cellvolume, dtype=float).ravel())
        case = {"op": op, "mesh": mc.describe()}
        rep.cases += 1
        rep.sig(mc.kind, tuple(mc.dims), op)
        rep.count(f"{mc.kind}/{op}")
        if list(m.dims) != list(mc.dims):
            rep.bad("dims", case, {"impl": list(map(int, m.dims)), "expected": mc.dims})
        compare_vec(rep, "mesh-arrays", case, impl, replies[i])
        if len(rep.samples) < 3:
            rep.samples.append(case)
    return rep


# ------------------------------------------------------------------ terms

def corr_terms(rng, ncases, kinds=None, which=None, nmax=4):
    """matrix builders, divergence, gradient"""
    rep = Report("term")
    drv = Driver()
    pend = []
    names = which or ["diffusion", "convection", "upwind", "upwind2", "divergence", "gradient"]
    for t in range(ncases):
        kind = (kinds or KINDS)[t % len(kinds or KINDS)]
        mc = rand_mesh(rng, kind, nmax=nmax)
        name = names[(t // len(kinds or KINDS)) % len(names)]
        case = {"term": name, "mesh": mc.describe()}
        try:
            if name in ("diffusion", "convection", "divergence"):
                arrs = rand_face_arrays(rng, mc)
                fv = make_facevar(mc, arrs)
                case["face"] = [a.tolist() for a in arrs]
                i = drv.add(f"term {name}", mc, face_sections(mc, arrs))
                if name == "diffusion":
                    out = pf.diffusionTerm(fv)
                elif name == "convection":
                    out = pf.convectionTerm(fv)
                else:
                    out = pf.divergenceTerm(fv)
                pend.append((i, mc, name, case, out, sign_pattern(arrs)))
            elif name in ("upwind", "upwind2"):
                arrs = rand_face_arrays(rng, mc)
                fv = make_facevar(mc, arrs)
                case["face"] = [a.tolist() for a in arrs]
                if name == "upwind2":
                    arrs2 = rand_face_arrays(rng, mc)
                    fv2 = make_facevar(mc, arrs2)
                    case["face_upwind"] = [a.tolist() for a in arrs2]
                    out = pf.convectionUpwindTerm(fv, fv2)
                else:
                    arrs2 = arrs
                    out = pf.convectionUpwindTerm(fv)
                i = drv.add("term upwind", mc, face_sections(mc, arrs) + face_sections(mc, arrs2))
                pend.append((i, mc, name, case, out, sign_pattern(arrs) + "/" + sign_pattern(arrs2)))
            elif name == "gradient":
                vals = rand_vals(rng, mc.gshape())
                case["cell"] = vals.tolist()
                phi = pf.CellVariable(mc.m, vals.copy())
                out = pf.gradientTerm(phi)
                i = drv.add("term gradient", mc, [qs(vals)])
                pend.append((i, mc, name, case, out, sign_pattern([vals])))
        except Exception as ex:       # implementation raised on a valid input
            rep.cases += 1
            rep.bad("exception", case, {"error": repr(ex)})
    replies = drv.run()
    for i, mc, name, case, out, sp in pend:
        rep.cases += 1
        rep.sig(mc.kind, tuple(mc.dims), name, sp)
        rep.count(f"{mc.kind}/{name}")
        if name in ("diffusion", "convection", "upwind", "upwind2"):
            rows, stray = rows_from_matrix(mc, out)
            if stray:
                rep.bad("stray-nonzero", case, {"entries": stray[:5]})
            compare_rows(rep, f"{name}-rows", case, rows, replies[i])
        elif name == "divergence":
            inner, stray = interior_vec(mc, out)
            if stray:
                rep.bad("stray-nonzero", case, {"entries": stray[:5]})
            compare_vec(rep, "divergence", case, inner, replies[i])
        elif name == "gradient":
            impl = np.concatenate([np.asarray(a, dtype=float).ravel() for a in facevar_arrays(mc, out)])
            compare_vec(rep, "gradient", case, impl, replies[i])
        if len(rep.samples) < 3:
            rep.samples.append(case)
    return rep


LIMITERS = ['CHARM', 'HCUS', 'HQUICK', 'ospre', 'VanLeer', 'VanAlbada1', 'VanAlbada2', 'MinMod',
            'SUPERBEE', 'Sweby', 'Osher', 'Koren', 'smart', 'MUSCL', 'QUICK', 'UMIST']
EPS1 = 1e-16      # default of advection._fsign


def corr_tvd(rng, ncases, kinds=None, nmax=4):
    rep = Report("tvd")
    drv = Driver()
    pend = []
    for t in range(ncases):
        kind = (kinds or KINDS)[t % len(kinds or KINDS)]
        mc = rand_mesh(rng, kind, nmax=nmax)
        lim = rng.choice(LIMITERS + ["nosuchlimiter"])
        arrs = rand_face_arrays(rng, mc)
        same = rng.random() < 0.6
        arrs2 = arrs if same else rand_face_arrays(rng, mc)
        vals = rand_vals(rng, mc.gshape(), rng.choice(["ints", "ints", "mixed", "zeros"]))
        case = {"term": "tvd", "mesh": mc.describe(), "limiter": lim, "face": [a.tolist() for a in arrs],
                "face_upwind": [a.tolist() for a in arrs2], "cell": vals.tolist()}
        eps = 2e-16
        try:
            import io, contextlib
            with contextlib.redirect_stdout(io.StringIO()):
                FL = pf.fluxLimiter(lim)
            u = make_facevar(mc, arrs)
            phi = pf.CellVariable(mc.m, vals.copy())
            if same:
                out = pf.convectionTVDupwindRHSTerm(u, phi, FL)
            else:
                out = pf.convectionTVDupwindRHSTerm(u, phi, FL, make_facevar(mc, arrs2))
        except Exception as ex:
            rep.cases += 1
            rep.bad("exception", case, {"error": repr(ex)})
            continue
        i = drv.add("term tvd", mc, face_sections(mc, arrs) + face_sections(mc, arrs2)
                    + [qs(vals), f"{lim} {q(eps)} {q(EPS1)}"])
        pend.append((i, mc, case, out, lim))
    replies = drv.run()
    for i, mc, case, out, lim in pend:
        rep.cases += 1
        rep.sig(mc.kind, tuple(mc.dims), lim)
        rep.count(f"{mc.kind}")
        rep.count(f"lim/{lim}")
        inner, stray = interior_vec(mc, out)
        if stray:
            rep.bad("stray-nonzero", case, {"entries": stray[:5]})
        compare_vec(rep, "tvd", case, inner, replies[i])
        if len(rep.samples) < 2:
            rep.samples.append(case)
    return rep


# ------------------------------------------------------------------ means

def corr_means(rng, ncases, kinds=None, nmax=4):
    rep = Report("mean")
    drv = Driver()
    pend = []
    names = ["linear", "arithmetic", "harmonic", "upwind"]
    for t in range(ncases):
        kind = (kinds or KINDS)[t % len(kinds or KINDS)]
        mc = rand_mesh(rng, kind, nmax=nmax)
        name = names[(t // len(kinds or KINDS)) % len(names)]
        mode = rng.choice(["pos", "mixed", "zeros", "ints"])
        vals = rand_vals(rng, mc.gshape(), mode) * (2.0 ** rng.choice([0, 0, 0, -40, -30, 20, 40]))
        phi = pf.CellVariable(mc.m, vals.copy())
        case = {"mean": name, "mesh": mc.describe(), "cell": vals.tolist()}
        payload = [qs(vals)]
        try:
            if name == "linear":
                out = pf.linearMean(phi)
            elif name == "arithmetic":
                out = pf.arithmeticMean(phi)
            elif name == "harmonic":
                out = pf.harmonicMean(phi)
            else:
                arrs = rand_face_arrays(rng, mc, rng.choice(["mixed", "zeros", "ints"]))
                case["face"] = [a.tolist() for a in arrs]
                out = pf.upwindMean(phi, make_facevar(mc, arrs))
                payload += face_sections(mc, arrs)
        except Exception as ex:
            rep.cases += 1
            rep.bad("exception", case, {"error": repr(ex)})
            continue
        i = drv.add(f"mean {name}", mc, payload)
        pend.append((i, mc, name, case, out, mode))
    replies = drv.run()
    for i, mc, name, case, out, mode in pend:
        rep.cases += 1
        rep.sig(mc.kind, tuple(mc.dims), name, mode)
        rep.count(f"{mc.kind}/{name}")
        impl = np.concatenate([np.asarray(a, dtype=float).ravel() for a in facevar_arrays(mc, out)])
        reply = replies[i]
        if name == "harmonic":
            # opposite-sign neighbours whose terms dx/phi nearly cancel: the face value is a huge, ill-conditioned number
            # (|value| >> |cell values|); floats and exact rationals then agree only in being huge - compare that, not the digits
            big = 1e3 * float(np.max(np.abs(np.asarray(case["cell"], dtype=float)))) if np.asarray(case["cell"]).size else 0.0
            toks = reply.split() if isinstance(reply, str) else None
            if toks is not None and len(toks) == impl.size and big > 0:
                from fractions import Fraction
                for k, tk in enumerate(toks):
                    try:
                        mv = float(Fraction(tk))
                    except Exception:
                        continue
                    if np.isfinite(impl[k]) and abs(impl[k]) > big and abs(mv) > big and (impl[k] > 0) == (mv > 0):
                        impl[k] = mv
        compare_vec(rep, f"mean-{name}", case, impl, reply)
        if len(rep.samples) < 2:
            rep.samples.append(case)
    return rep


# ------------------------------------------------------------------ boundary conditions

def bc_sig(spec):
    return tuple((s["kind"][0] + ("P" if s["periodic"] else "")) for s in spec)


def corr_ghost(rng, ncases, kinds=None, nmax=4, exhaustive_flags=False):
    """ghost values after construction (cellValuesWithBoundaries) and boundary rows"""
    rep = Report("ghost")
    drv = Driver()
    pend = []
    for t in range(ncases):
        kind = (kinds or KINDS)[t % len(kinds or KINDS)]
        mc = rand_mesh(rng, kind, nmax=nmax)
        spec = rand_bc_spec(rng, mc)
        vals = rand_vals(rng, mc.shape())
        case = {"mesh": mc.describe(), "bc": bc_describe(spec), "interior": vals.tolist()}
        try:
            bc = make_bcs(mc, spec)
            phi = pf.CellVariable(mc.m, vals.copy(), bc)
        except Exception as ex:
            rep.cases += 1
            rep.bad("exception", case, {"error": repr(ex)})
            continue
        secs = bc_sections_from_obj(mc, bc)
        i = drv.add("ghost", mc, secs + [qs(vals)])
        j = drv.add("bcterm", mc, secs)
        pend.append((i, j, mc, case, phi, bc, spec))
    replies = drv.run()
    for i, j, mc, case, phi, bc, spec in pend:
        rep.cases += 1
        rep.sig(mc.kind, tuple(mc.dims), bc_sig(spec))
        rep.count(f"{mc.kind}")
        for s in spec:
            rep.count("bc/" + s["kind"] + ("/periodic" if s["periodic"] else ""))
        compare_vec(rep, "ghost-values", case, np.asarray(phi._value), replies[i])
        compare_bcterm(rep, mc, case, phi._BCsTerm, replies[j])
        if len(rep.samples) < 2:
            rep.samples.append(case)
    return rep


def compare_bcterm(rep, mc, case, bcterm, reply):
    Mbc, RHSbc = bcterm
    A = csr_array(Mbc).toarray()
    toks = reply.split()
    if toks and toks[0] == "reject-radial-periodic":
        rep.bad("bcterm-accepted-radial-periodic", case, {})
        return
    pos = 0
    inter = {gflat(mc, c) for c in interior_cells(mc)}
    for g in sorted(inter):
        if np.any(A[g] != 0) or RHSbc[g] != 0:
            rep.bad("bcterm-interior-row-nonzero", case, {"row": g})
            return
    for c in all_cells(mc):
        g = gflat(mc, c)
        if g in inter:
            continue
        try:
            k = int(toks[pos]); pos += 1
            ents = {}
            for _ in range(k):
                col, val = toks[pos].split(":"); pos += 1
                ents[int(col)] = float(Fraction(val))
            rhs = float(Fraction(toks[pos])); pos += 1
        except Exception:
            rep.bad("bcterm-parse", case, {"reply": reply[:200]})
            return
        row = A[g]
        sc = max([abs(x) for x in row if math.isfinite(x)] + [abs(v) for v in ents.values()] + [abs(rhs), abs(RHSbc[g])])
        cols = set(int(x) for x in np.nonzero(row)[0]) | set(ents)
        for col in cols:
            rep.values += 1
            if not close(float(row[col]), ents.get(col, 0.0), sc):
                rep.bad("bcterm-row", case, {"ghost_cell": list(c), "col": col, "impl": float(row[col]),
                                             "model": ents.get(col, 0.0)})
                return
        rep.values += 1
        if not close(float(RHSbc[g]), rhs, sc):
            rep.bad("bcterm-rhs", case, {"ghost_cell": list(c), "impl": float(RHSbc[g]), "model": rhs})
            return


# ------------------------------------------------------------------ limiters

def limiter_points(rng, n_dense):
    pts = [0.0, 1.0, -1.0, 2.0, -2.0, 3.0, -3.0, 0.5, -0.5, 1.5, 0.25, 1 / 3, 4.0, 5.0, -0.25, 1e-300, -1e-300,
           2.0 ** -40, -2.0 ** -40]
    pts += [10.0 ** k for k in range(-20, 101, 10)] + [-(10.0 ** k) for k in range(-20, 101, 10)]
    pts += [rng.uniform(-1e3, 1e3) for _ in range(n_dense)]
    pts += [rng.uniform(-4, 4) for _ in range(n_dense)]
    pts += [round(rng.uniform(-8, 8) * 16) / 16 for _ in range(n_dense)]
    return pts


def corr_limiters(rng, n_dense=40, names=None):
    import io, contextlib
    rep = Report("limiter")
    drv = Driver()
    pend = []
    for name in (names or LIMITERS) + ["SomethingUnknown"]:
        for eps in (2e-16, 1e-8):
            pts = limiter_points(rng, n_dense)
            with contextlib.redirect_stdout(io.StringIO()):
                FL = pf.fluxLimiter(name, eps) if eps != 2e-16 else pf.fluxLimiter(name)
            impl = FL(np.array(pts, dtype=float))
            i = drv.add_raw(f"limiter {name}|{q(eps)}|{qs(pts)}")
            pend.append((i, name, eps, pts, impl))
    replies = drv.run()
    for i, name, eps, pts, impl in pend:
        rep.cases += 1
        rep.count(name)
        vals = parse_vals(replies[i])
        impl = [float(x) for x in np.asarray(impl, dtype=float).ravel()]
        if len(vals) != len(impl):
            rep.bad("limiter-shape", {"limiter": name, "eps": eps}, {"impl_len": len(impl), "model_len": len(vals)})
            continue
        for r, a, b in zip(pts, impl, vals):
            rep.values += 1
            rep.sig(name, "neg" if r < 0 else ("zero" if r == 0 else ("lt1" if r < 1 else "ge1")), eps)
            if not close(a, b, max(1.0, abs(a) if math.isfinite(a) else 1.0)):
                rep.bad("limiter-value", {"limiter": name, "eps": eps, "r": r}, {"impl": a, "model": b})
                break
        if len(rep.samples) < 2:
            rep.samples.append({"limiter": name, "eps": eps, "r": pts[:6]})
    # _fsign
    from pyfvtool.advection import _fsign
    xs = [0.0, 1.0, -1.0, 1e-16, -1e-16, 5e-17, -5e-17, 1e-17, 2e-16, -3e-16, 1e-300, -1e-300, 7.5, -0.125]
    drv2 = Driver()
    drv2.add_raw(f"fsign|{q(EPS1)}|{qs(xs)}")
    vals = parse_vals(drv2.run()[0])
    impl = _fsign(np.array(xs))
    rep.cases += 1
    for x, a, b in zip(xs, impl, vals):
        rep.values += 1
        if not close(float(a), b, 1e-16):
            rep.bad("fsign", {"x": x}, {"impl": float(a), "model": b})
    return rep


# ------------------------------------------------------------------ assembly (C04, C07, C12)

def rand_term_list(rng, mc, phi, allow=("diffusion", "convection", "upwind", "linsrc", "constsrc", "transient", "divergence", "tvd"),
                   nterms=None, posD=False):
    """returns (python term list, driver sections, description)"""
    import io, contextlib
    k = nterms or rng.choice([1, 2, 3, 4])
    terms, secs, desc = [], [], []
    for _ in range(k):
        name = rng.choice(list(allow))
        scale = rng.choice([1.0, -1.0, 1.0, -1.0, 2.0, -0.5])
        if name == "diffusion":
            arrs = rand_face_arrays(rng, mc, "pos" if posD else None)
            t = pf.diffusionTerm(make_facevar(mc, arrs))
            terms.append(scale * t if scale != -1.0 else -t)
            secs += [f"diffusion {q(scale)}"] + face_sections(mc, arrs)
            desc.append({"term": name, "scale": scale, "face": [a.tolist() for a in arrs]})
        elif name == "convection":
            arrs = rand_face_arrays(rng, mc)
            t = pf.convectionTerm(make_facevar(mc, arrs))
            terms.append(scale * t if scale != -1.0 else -t)
            secs += [f"convection {q(scale)}"] + face_sections(mc, arrs)
            desc.append({"term": name, "scale": scale, "face": [a.tolist() for a in arrs]})
        elif name == "upwind":
            arrs = rand_face_arrays(rng, mc)
            same = rng.random() < 0.6
            arrs2 = arrs if same else rand_face_arrays(rng, mc)
            fv = make_facevar(mc, arrs)
            t = pf.convectionUpwindTerm(fv) if same else pf.convectionUpwindTerm(fv, make_facevar(mc, arrs2))
            terms.append(scale * t if scale != -1.0 else -t)
            secs += [f"upwind {q(scale)}"] + face_sections(mc, arrs) + face_sections(mc, arrs2)
            desc.append({"term": name, "scale": scale, "face": [a.tolist() for a in arrs], "face_upwind": [a.tolist() for a in arrs2]})
        elif name == "linsrc":
            b = pf.CellVariable(mc.m, rand_vals(rng, mc.shape(), "pos"))
            t = pf.linearSourceTerm(b)
            terms.append(scale * t if scale != -1.0 else -t)
            secs += [f"linsrc {q(scale)}", qs(np.asarray(b._value))]
            desc.append({"term": name, "scale": scale, "beta": np.asarray(b.value).tolist()})
        elif name == "constsrc":
            g = pf.CellVariable(mc.m, rand_vals(rng, mc.shape()))
            t = pf.constantSourceTerm(g)
            terms.append(scale * t if scale != -1.0 else -t)
            secs += [f"constsrc {q(scale)}", qs(np.asarray(g._value))]
            desc.append({"term": name, "scale": scale, "gamma": np.asarray(g.value).tolist()})
        elif name == "transient":
            dt = rng.choice([1e-3, 0.1, 1.0, 100.0])
            if rng.random() < 0.5:
                al = rng.choice([1.0, 2.0, 0.5]); alobj = al
                alarr = np.full(mc.gshape(), al)
            else:
                alobj = pf.CellVariable(mc.m, rand_vals(rng, mc.shape(), "pos"))
                alarr = np.asarray(alobj._value)
            t = pf.transientTerm(phi, dt, alobj)
            terms.append(t)          # pairs cannot be scaled
            secs += ["transient 1", qs(np.asarray(phi._value)), qs(alarr), q(dt)]
            desc.append({"term": name, "dt": dt, "alpha": np.asarray(alarr).tolist()})
        elif name == "divergence":
            arrs = rand_face_arrays(rng, mc)
            t = pf.divergenceTerm(make_facevar(mc, arrs))
            terms.append(scale * t if scale != -1.0 else -t)
            secs += [f"divergence {q(scale)}"] + face_sections(mc, arrs)
            desc.append({"term": name, "scale": scale, "face": [a.tolist() for a in arrs]})
        elif name == "tvd":
            arrs = rand_face_arrays(rng, mc)
            lim = rng.choice(LIMITERS)
            with contextlib.redirect_stdout(io.StringIO()):
                FL = pf.fluxLimiter(lim)
            t = pf.convectionTVDupwindRHSTerm(make_facevar(mc, arrs), phi, FL)
            terms.append(scale * t if scale != -1.0 else -t)
            secs += [f"tvd {q(scale)}"] + face_sections(mc, arrs) + face_sections(mc, arrs) + [qs(np.asarray(phi._value)), f"{lim} {q(2e-16)} {q(EPS1)}"]
            desc.append({"term": name, "scale": scale, "limiter": lim, "face": [a.tolist() for a in arrs]})
    return terms, secs, desc


class Recorder:
    """externalsolver that records the system and solves it with SuperLU"""

    def __init__(self):
        self.calls = []

    def __call__(self, M, RHS):
        from scipy.sparse.linalg import spsolve
        x = spsolve(M, RHS)
        self.calls.append((csr_array(M).copy(), np.array(RHS, dtype=float, copy=True), np.array(x, dtype=float, copy=True)))
        return x


def corr_assemble(rng, ncases, kinds=None, nmax=3, allow=None, well_posed=False):
    """the system solvePDE hands to the solver vs the model's assembled system; exact residual of the float solution"""
    rep = Report("assemble")
    drv = Driver()
    pend = []
    for t in range(ncases):
        kind = (kinds or KINDS)[t % len(kinds or KINDS)]
        mc = rand_mesh(rng, kind, nmax=nmax)
        spec = rand_bc_spec(rng, mc, kinds=("dirichlet", "neumann", "robin", "default") if well_posed else
                            ("dirichlet", "neumann", "robin", "robinarr", "default"))
        vals = rand_vals(rng, mc.shape())
        case = {"mesh": mc.describe(), "bc": bc_describe(spec), "interior": vals.tolist()}
        try:
            bc = make_bcs(mc, spec)
            phi = pf.CellVariable(mc.m, vals.copy(), bc)
            if not np.all(np.isfinite(np.asarray(phi._value))):
                rep.count("singular-bc-skipped")      # ghost coefficient exactly zero: excluded point of C03
                continue
            if well_posed:
                al = ("transient", "diffusion", "upwind", "linsrc", "constsrc")
                terms, secs, desc = rand_term_list(rng, mc, phi, allow=("transient",), nterms=1)
                t2, s2, d2 = rand_term_list(rng, mc, phi, allow=allow or al, posD=True)
                # keep diffusion negative-definite: force sign conventions of a well-posed problem
                terms += t2; secs += s2; desc += d2
            else:
                terms, secs, desc = rand_term_list(rng, mc, phi, allow=allow or ("diffusion", "convection", "upwind", "linsrc", "constsrc", "transient", "divergence", "tvd"))
            case["terms"] = desc
            bsecs = bc_sections_from_obj(mc, bc)
            rec = Recorder()
            out = pf.solvePDE(phi, terms, externalsolver=rec)
        except Exception as ex:
            rep.cases += 1
            rep.bad("exception", case, {"error": repr(ex)})
            continue
        M, RHS, x = rec.calls[-1]
        i = drv.add("assemble", mc, bsecs + secs)
        j = drv.add("bcterm", mc, bsecs)
        finite = bool(np.all(np.isfinite(x)))
        kres = drv.add("residual", mc, bsecs + [qs(x)] + secs) if finite else None
        pend.append((i, j, kres, mc, case, M, RHS, x, out is phi, len(rec.calls), spec, [d["term"] for d in desc]))
    replies = drv.run()
    for i, j, kres, mc, case, M, RHS, x, same_obj, ncalls, spec, tnames in pend:
        rep.cases += 1
        rep.sig(mc.kind, tuple(mc.dims), tuple(sorted(tnames)), bc_sig(spec))
        rep.count(mc.kind)
        for nm in tnames:
            rep.count("term/" + nm)
        if not same_obj:
            rep.bad("returned-object", case, {"error": "solvePDE did not return the variable it was given"})
        if ncalls != 1:
            rep.bad("solver-calls", case, {"calls": ncalls})
        # interior rows
        rows, stray_all = rows_from_matrix(mc, M)
        inter = {gflat(mc, c) for c in interior_cells(mc)}
        stray = [s for s in stray_all if s[0] in inter]
        if stray:
            rep.bad("stray-nonzero", case, {"entries": stray[:5]})
        vals_ = parse_vals(replies[i])
        n = len(rows)
        if len(vals_) != 8 * n:
            rep.bad("assemble-length", case, {"impl": 8 * n, "model": len(vals_)})
        else:
            rhs_i = [float(RHS[gflat(mc, c)]) for c in interior_cells(mc)]
            for r in range(n):
                mrow = vals_[8 * r:8 * r + 7]; mrhs = vals_[8 * r + 7]
                sc = max([abs(v) for v in rows[r] if math.isfinite(v)] + [abs(v) for v in mrow if v is not None] + [abs(rhs_i[r]), abs(mrhs or 0.0)])
                bad = [k for k in range(7) if not close(rows[r][k], mrow[k], sc)]
                rep.values += 8
                if bad or not close(rhs_i[r], mrhs, sc):
                    rep.bad("assemble-row", case, {"cell": r, "impl_row": rows[r], "model_row": mrow, "impl_rhs": rhs_i[r], "model_rhs": mrhs})
                    break
        compare_bcterm(rep, mc, case, (csr_array(M), RHS), replies[j]) if False else None
        # ghost rows of the assembled system = boundary rows (terms never touch them)
        A = csr_array(M)
        ghost_case = dict(case)
        _compare_ghost_rows(rep, mc, ghost_case, A, RHS, replies[j], inter)
        if kres is not None:
            res = parse_vals(replies[kres])
            rep.values += 1
            # the float solution must satisfy the model's system to rounding unless the system is (near) singular
            if res and res[0] is not None and res[0] > 1e-6:
                import numpy.linalg as la
                try:
                    cond = la.cond(A.toarray())
                except Exception:
                    cond = float("inf")
                if cond < 1e8:
                    rep.bad("residual", case, {"relative_residual": res[0], "worst_flat_index": res[1] if len(res) > 1 else None, "cond": float(cond),
                                               "x": [float(v) for v in x][:80]})
                else:
                    rep.count("ill-conditioned-skipped")
        else:
            rep.count("non-finite-solution-skipped")
        if len(rep.samples) < 2:
            rep.samples.append(case)
    return rep


def _compare_ghost_rows(rep, mc, case, A, RHS, reply, inter):
    toks = reply.split()
    if toks and toks[0] == "reject-radial-periodic":
        rep.bad("bcterm-accepted-radial-periodic", case, {})
        return
    D = A.toarray()
    pos = 0
    for c in all_cells(mc):
        g = gflat(mc, c)
        if g in inter:
            continue
        try:
            k = int(toks[pos]); pos += 1
            ents = {}
            for _ in range(k):
                col, val = toks[pos].split(":"); pos += 1
                ents[int(col)] = float(Fraction(val))
            rhs = float(Fraction(toks[pos])); pos += 1
        except Exception:
            rep.bad("bcterm-parse", case, {"reply": reply[:200]})
            return
        row = D[g]
        sc = max([abs(v) for v in row if math.isfinite(v)] + [abs(v) for v in ents.values()] + [abs(rhs), abs(RHS[g])])
        for col in set(int(v) for v in np.nonzero(row)[0]) | set(ents):
            rep.values += 1
            if not close(float(row[col]), ents.get(col, 0.0), sc):
                rep.bad("assembled-ghost-row", case, {"ghost_cell": list(c), "col": col, "impl": float(row[col]), "model": ents.get(col, 0.0)})
                return
        if not close(float(RHS[g]), rhs, sc):
            rep.bad("assembled-ghost-rhs", case, {"ghost_cell": list(c), "impl": float(RHS[g]), "model": rhs})
            return
