#!/usr/bin/env python3
"""(Re)generate /verif/MANIFEST.json from the table below. Run after claiming / unclaiming a property."""
import json, os
VERIF = os.path.dirname(os.path.dirname(os.path.abspath(__file__)))
props = [json.loads(l) for l in open(os.path.join(VERIF, "properties.jsonl"))]

NOTE_COMMON = ("Trusted: Lean 4.33 kernel + Mathlib (axioms propext, Classical.choice, Quot.sound only, audited per theorem each run); "
               "the hand-written model is tied to /repo by the correspondence check (exact-rational model vs float implementation, 1e-9 relative, sampled); "
               "floating-point rounding, overflow and the sparse solver are not modelled.")

T = "Lean 4 proof (kernel-checked theorems about the model) + model/implementation correspondence (exact-rational driver vs real code); failing-input search on the implementation when either breaks"
TG = T + "; the coefficient formulas of the matrix builders, ghost cells and boundary rows are REGENERATED from the numpy source on every run (translators T-mesh, T-num, T-upw, T-bc, T-avg; solver assembly T-asm; caching state machine T-state) and proved equal to the model"
CLAIMED = {
    "C01": (TG, "Every flux-form term of the model is the divergence of a face flux (C05 lemmas) and the consistent-volume-weighted sum of a divergence along any grid "
            "line telescopes to the two boundary faces for every number of cells (Finset.sum_range_sub) — so interior fluxes cancel for all sizes, spacings and fields; "
            "closed (no-flux / zero normal velocity) and periodic (equal end cells) lines give zero; a closed implicit or explicit step conserves the weighted sum for any dt; "
            "cellvolume = const x consistent volume on 8 classes; lifted to the triple sum over the whole index box (C01Box: boxSum_divergence, closed_step_box, domainIntegral_conserved_diffusion_advection: one implicit step of transient - diffusion + upwind + central - TVD with no-flux walls and zero wall-normal velocity leaves the sum of cellVolume*alpha*x unchanged). Counterexample theorems + known findings: SphericalGrid3D volume, upwind x periodic.",
            "§6 C01", "domainIntegral() and the value getter are regenerated from cell.py (T-obs) and proved equal to the model's box sum of cellvolume*value (GenEqObs). Known findings sph3-volume-inconsistent and upwind-periodic-nonconservative are replayed on the real code every run."),
    "C02": (TG, "Proved: (i) exactness of gradient / linear mean / Robin ghost on linear fields for any non-uniform axis, exact values with explicit remainders of the diffusion "
            "stencils on quadratics in Cartesian, cylindrical (=4) and spherical (=6 + h^2/(2 r^2), sph1: exactly 6) coordinates, exactness of central/upwind advection on linear fields, "
            "divergence-free radial velocities, the M-matrix error bound — i.e. every metric factor, sign and coefficient placement agrees with the continuous operator; "
            "(ii) a CONVERGENCE THEOREM over the reals (Taylor with Lagrange remainder + barrier function + tridiagonal comparison principle): for u in C^4 with -u''=f, every N>=2 and every "
            "field satisfying the model's assembled rows and Dirichlet ghost formulas on the uniform 1-D mesh, |x_i - u(x_i)| <= (M4 L^2/96 + 7 M2/8) (L/N)^2, although the boundary row is "
            "truncation-inconsistent at order 0 (proved); existence/uniqueness of the discrete solution; backward Euler: spatial error does not accumulate, temporal error <= n dt (Mtt dt/2). "
            "(iii) C02ConvBC: the same with a Robin / Neumann relation a u'(0) + b u(0) = c at the left side (a <= 0 <= b, not both 0; pure Neumann included) and Dirichlet at the right: the ghost-cell "
            "Robin row is second-order consistent at the face and |x_i - u(x_i)| <= (M4 L^2/24 + 5 M3 L/4 + M2) (L/N)^2 for every N >= 2 and every field satisfying the model's rows "
            "(also as `Solves`), existence/uniqueness; wrong-signed Robin data proved ill-posed (continuous and discrete counterexamples). "
            "PARTIAL: the O(h^2) rate is mechanised for the 1-D Cartesian Dirichlet and Robin/Neumann-Dirichlet model problems only; for the other classes and graded meshes a manufactured-solution "
            "refinement study on all 9 classes runs as exploration and as the failing-input search.",
            "§6 C02, §13.3c", "Partial: consistency + stability for all classes, convergence rate proved for the 1-D model problem, explored elsewhere."),
    "C03": (TG, "Ghost values of the model satisfy a*(normal difference quotient with the 1/r, 1/(r sin theta) metric factor) + b*(face average) = c whenever defined, are defined iff the "
            "ghost coefficient is non-zero, are invariant under scaling (a,b,c); the solver's boundary row is equivalent to the same Robin relation, hence the ghost unknown the solver "
            "computes is the value reported afterwards; wrap iff an axis side is flagged periodic; periodic rows <=> wrap when the end cells are equal (counterexample otherwise: known finding). "
            "plotprofile() regenerated from cell.py (T-obs) and proved to report, on every boundary face, exactly the face average (ghost + cell)/2 the Robin relation talks about (GenEqObs).",
            "§6 C03", "Known finding periodic-unequal-end-cells replayed every run."),
    "C04": (TG, "Assembled row/right-hand side = sum over the term list for matrix / vector / pair kinds (foldl = sum), invariant under permutation, scaling and negation; ghost rows never "
            "depend on the terms and interior rows never on the BCs; the assembled operator is linear, solutions superpose in (sources, boundary data c, previous values) and are linear given uniqueness. "
            "The system handed to a recording external solver is compared entry-wise with the model's, and the float solution's exact-rational residual in the model's system is measured.",
            "§6 C04", ""),
    "C05": (TG, "For every grid class, every well-formed non-uniform mesh of any size, every coefficient field and every ghosted field, the model's matrix rows equal the divergence of the "
            "corresponding face flux (diffusion = div(D grad), central = div(u lin), upwind = div(u upwindMean) incl. boundary corrections and N=1, TVD zero/unit limiter identities).",
            "§6 C05", "UpOK hypothesis: u = 0 wherever an explicitly given upwind-direction field is exactly 0 (automatic for the default)."),
    "C06": (TG, "Constants are annihilated by the diffusion rows (no hypothesis), advect as c*div(u) under central and upwind rows for every sign pattern, have zero TVD correction for every "
            "limiter; sources are diagonal (phi = gamma/beta cell by cell). Whole system (C06Sys): the uniform field (k on cells and face ghosts, 0 in the decoupled corners) solves the assembled system of "
            "any list of diffusion / central / upwind / TVD / transient / scaled terms iff b*k = c on every non-periodic face and the interior rows balance; it is a fixed point of every backward-Euler "
            "step (any dt, alpha) and, under the C07 hypotheses, the ONLY solution (solvePDE has nothing else to return), for any number of steps; beta*phi = gamma alone is solved cell-wise for any BCs. "
            "The steady uniform state and the cell-local source solve are additionally exercised on the real solver.",
            "§6 C06", ""),
    "C07": (TG, "Row structure of transient - diffusion(D>=0) + upwind(div-free u) + sink(beta>=0) proved for every grid class, spacing, contrast and dt>0: non-positive off-diagonals, row sum "
            "alpha/dt + beta, rhs (alpha/dt) old; local and global maximum/minimum principle for Dirichlet / no-flux / periodic ghosts (any end-cell sizes), any number of steps, "
            "non-negativity preserved, uniqueness of the solution; with a sink 0 joins the hull (counterexample theorem shows it must).",
            "§6 C07", "lineA >= 0 (sin(theta_f) >= 0 on sph3) is a hypothesis."),
    "C08": (TG, "Every stencil of the model equals a 1-D line form that mentions the direction only through its axis data, hence axis permutation theorems on Cartesian grids (rows, TVD included); "
            "mirror theorems (w,p,e) -> (e,p,w) incl. upwind boundary corrections and TVD for every limiter; redundant-axis theorems (stencil along a constant direction vanishes, kept "
            "directions coincide between Grid3D/2D/1D, Cylindrical3D/2D, Polar2D/Cylindrical1D, lifted solutions satisfy interior and ghost rows); shift invariance on uniform axes.",
            "§6 C08", "Known finding upwind-periodic-not-shift-invariant (boundary treatment of upwind at periodic faces)."),
    "C09": ("Lean 4 proof by induction over operation histories of a state-machine model (content stamps); the transition programs of apply_BCs, _BCs_outdated, solvePDE, solveExplicitPDE, copy, update_value, setters, constructors and operators are REGENERATED from the Python AST on every run (T-state) and proved equal to the model's step function for every state; + history correspondence against the real objects",
            "For EVERY finite history over the edit/solve alphabet (BC edits incl. silent in-place ones, value edits, update_value, apply_BCs, solvePDE, solveExplicitPDE, copy, "
            "arithmetic, new variables on a shared BC object) the next solve uses boundary terms built from the current boundary conditions and the current interior "
            "(solve_uses_current_bc, no side condition), cached terms and ghost layer are never stale unless the variable is flagged outdated (cacheOK_run, ghostOK_run), "
            "copies get fresh BC objects and are independent in both directions, explicit results are usable by the implicit solver. The model is compared step by step "
            "with the real objects (flags, sharing, decoded freshness of cache and ghost layer, solve == fresh start) on random and bounded-exhaustive histories.",
            "§6 C09", "Counterexample theorems document the three repaired defects (shared BC object, explicit->implicit, copy of an outdated variable)."),
    "C10": (TG, "Constructor laws for every strictly increasing face list of any length; (N,L) form = face form on equispaced faces; cellvolume = geometric volume per cell for 8 classes "
            "(annular sectors, shells), positivity, telescoping totals; SphericalGrid3D theta-factor proved NOT geometric over the reals (known finding). cellLocations / faceLocations "
            "regenerated from cell.py / face.py (T-obs) and proved equal to the model's cell centres / face positions for every class, component and position (GenEqObs).",
            "§6 C10", "Known finding sph3-cellvolume-theta-factor replayed every run."),
    "C11": (TG, "Two-point width-weighted means: betweenness, constants, HM <= AM over any ordered field, HM <= GM <= AM over the reals (Real.exp/log), linear exactness of linearMean on "
            "non-uniform grids, locality, donor-cell / inflow-boundary / zero-velocity cases of upwindMean, zero handling of harmonic and geometric means identical in 1-D and N-D.",
            "§6 C11", ""),
    "C12": (TG, "Transient row law alpha (x - old)/dt + L x = s for scalar or per-cell alpha; steady solutions are fixed points for every dt, alpha (and reproduced given uniqueness); exact identities "
            "giving the dt -> infinity and dt -> 0 laws with explicit constants, and the limits themselves as Filter.Tendsto theorems over the reals for M-matrix spatial operators (C12Lim); explicit step = old + dt RHS with ghosts re-imposed; implicit/explicit gap = (dt^2/alpha^2) L(s - L x).",
            "§6 C12", ""),
    "C13": ("Lean 4 proof about the limiter formulas GENERATED from utilities.py on every run (translator T-lim) + numeric cross-check of the translation",
            "For all 16 names, all r and eps>0: every denominator non-zero, value = published closed form (value 0 at removable singularities), psi(1)=1, 0<=psi<=min(2r,4) for r>0, "
            "clipping limiters vanish for r<=0, unknown names fall back to SUPERBEE, _fsign never returns 0 so every TVD ratio is defined.",
            "§6 C13", "Translator T-lim is trusted to render the Python expressions faithfully (cross-checked numerically each run)."),
    "C14": ("Lean 4: operator table GENERATED from the dunder methods (T-ops) proved equal to the specification by `decide`; effect certificates GENERATED per operator (T-eff) checked by `decide +kernel` under the once-proved soundness theorem; state-machine theorems for copy/arith; dynamic correspondence",
            "Every operator and reflected operator of CellVariable and FaceVariable performs the specified numpy operation in the specified operand order on self.domain, a CellVariable "
            "result carries deepcopy(self.BCs) (table theorems, complete); each operator, copy(), funceval/celleval/faceeval has a checked effect certificate: operands never written, "
            "result freshly allocated and containing no operand storage (soundness: PyFV.C15.pure_of_safe / returns_fresh / fresh_object_contents); copy/arith results get a fresh BC "
            "object and are independent in both directions for all later histories (C09.copy_independent). Value level (C14Val): the generated table is given a semantics "
            "(evalRow / Python's forward-then-reflected dispatch) and every method is proved elementwise on interior values for variable, scalar and array operands, reflected sub/div/pow "
            "reversed, result BCs = those of the left-most variable operand, result ghost layer satisfying those BCs (Robin relation / periodic wrap, by the C03 theorems), copy() equal; "
            "`logical_ops_not_reflected` records that `scalar & variable` is not defined. Values, BCs of the result, independence and numpy-scalar/array operands are "
            "exercised on the real objects.",
            "§6 C14", "Known finding face-ndarray-operand. User callables passed to funceval/faceeval are assumed not to modify their arguments."),
    "C15": ("Lean 4: soundness of an effect-certificate checker proved once over a heap semantics (any instruction order, any oracle); one `decide +kernel` certificate check per public function, GENERATED from the Python AST on every run (T-eff); dynamic validation of the translator's alias claims",
            "For 140 of the 147 translated functions (every term builder, mean, gradient, divergence, boundary term, location variable, operator, solver) the generated certificate passes: "
            "no input region and no module-level state is ever written (solvePDE: only its solution variable), everything returned is freshly allocated and contains no mesh data or "
            "input arrays. 7 functions are not certified for documented reasons (constructor adopting a ghost-shaped array and its callers: path-insensitive imprecision; an internal helper) "
            "and are covered by the dynamic check only. Every observed sharing / modification on random inputs must be permitted by the certificate (validates the translator); "
            "byte snapshots, repeat-call bit-identity and term reuse over time steps are checked on the real code.",
            "§6 C15", "T-eff's abstraction rules (numpy view-vs-copy table, callee summaries) are trusted and validated dynamically; callbacks assumed side-effect free."),
    "C16": ("Lean 4 `decide`/∀ theorems over decision tables GENERATED from mesh.py and face.py (translator T-err) and hand-written cascade models, compared exhaustively with the real code",
            "Coordinate and component label tables generated from the property getters/setters equal the documented tables for all 9 classes x 12 labels x get/set; constructor arity "
            "0..7 x both argument forms, term kinds, BoundaryFace coefficient types and all periodic-flag subsets follow the documented exception types; the initial-value shape "
            "cascade is characterised for ALL ranks and extents (a real ∀ theorem). The real code's outcome is enumerated completely against these tables on every run; requests made on an "
            "existing variable (apply_BCs / solvePDE after a radial periodic flag was set) are made three times and must fail every time.",
            "§6 C16", "Right arity with wrong argument types (e.g. Grid1D(3)) is out of the property's scope and modelled as is."),
    "C17": (TG, "Homogeneity of every metric quantity under length scaling (exponent table) and hence of every stencil, divergence, gradient, mean, source, transient, ghost value and boundary row; "
            "a solution of the system in one unit system, multiplied by K, solves the rescaled system, for any number of steps; TVD under an explicit outside-the-threshold-band hypothesis "
            "(counterexample inside the band); every term linear in its coefficient field (upwind at fixed direction).",
            "§6 C17", "PolarGrid2D decoupled corner rows are not homogeneous (harmless; hypothesis CornersZero)."),
}

checks = []
for p in props:
    pid = p["id"]
    if pid in CLAIMED:
        tech, text, ref, extra = CLAIMED[pid]
        checks.append({
            "property_id": pid,
            "quick_cmd": f"./check {pid} --tier quick",
            "thorough_cmd": f"./check {pid} --tier thorough",
            "evidence_file": f"/verif/evidence/{pid}.json",
            "replay_cmd_template": f"./check {pid} --replay {{path}}",
            "engine": "lean-proof+correspondence",
            "level_claimed": {"category": "proof", "text": text, "design_ref": ref},
            "level_note": NOTE_COMMON + (" " + extra if extra else ""),
            "technique": tech,
        })

na = [{"property_id": p["id"],
       "reason": "not yet claimed: its Lean theorems / correspondence slice are still being built in this project (see DESIGN.md §6); no other technique is substituted"}
      for p in props if p["id"] not in CLAIMED]

m = {
    "version": 1,
    "setup_cmd": "cd /verif && ./setup.sh",
    "hooks": {"guard": "PYFVTOOL_VERIF",
              "enable": "no source hooks are needed: everything the checks observe is reachable from Python (externalsolver argument, _value, _BCsTerm, TrackedArray.modified)",
              "baseline_off_cmd": "cd /repo && /venv/bin/python -m pytest -ra -q -p no:cacheprovider --timeout=900 --continue-on-collection-errors",
              "source_commits": [], "add_only": True},
    "engines": [{"name": "lean-proof+correspondence", "path": "/verif/lean, /verif/harness",
                 "serves_properties": sorted(CLAIMED),
                 "kind_free_text": "Lean 4 + Mathlib theorems about a hand-written / generated model (lean/PyFV); harness/runner.py rebuilds, audits axioms, "
                                   "runs the line-protocol driver (lake env lean --run Driver.lean, exact rationals) against /repo's current working tree, "
                                   "searches the implementation for a failing input when an obligation or the correspondence breaks"}],
    "checks": checks,
    "not_applicable": na,
    "notes": "All checks rebuild from /repo's working tree (pyfvtool is an editable install of /repo/src). Known findings: /verif/known-findings.txt.",
}
json.dump(m, open(os.path.join(VERIF, "MANIFEST.json"), "w"), indent=1)
print("claimed:", sorted(CLAIMED))
