#!/usr/bin/env python3
"""(Re)generate /verif/MANIFEST.json from the table below. Run after claiming / unclaiming a property."""
import json, os
VERIF = os.path.dirname(os.path.dirname(os.path.abspath(__file__)))
props = [json.loads(l) for l in open(os.path.join(VERIF, "properties.jsonl"))]

NOTE_COMMON = ("Trusted: Lean 4.33 kernel + Mathlib (axioms propext, Classical.choice, Quot.sound only, audited per theorem each run); "
               "the hand-written model is tied to /repo by the correspondence check (exact-rational model vs float implementation, 1e-9 relative, sampled); "
               "floating-point rounding, overflow and the sparse solver are not modelled.")

CLAIMED = {
    # id: (technique, level text, design_ref, extra note)
    "C05": ("Lean 4 theorems (field_simp/ring identities on a generic grid line, lifted to all 9 grid classes) + model/implementation correspondence",
            "For every grid class, every well-formed non-uniform mesh of any size, every coefficient field and every ghosted field, the model's "
            "matrix rows equal the divergence of the corresponding face flux (diffusion = div(D grad), central = div(u lin), upwind = div(u upwindMean) "
            "incl. boundary corrections and N=1, TVD zero/unit limiter identities) — proved in Lean for all sizes and values. The model's rows, "
            "divergence, gradient and means are compared with the real builders on random non-uniform grids of all nine classes every run.",
            "§6 C05", "UpOK hypothesis: u = 0 wherever an explicitly given upwind-direction field is exactly 0 (automatic for the default)."),
    "C06": ("Lean 4 theorems (corollaries of the C05 flux identities) + model/implementation correspondence",
            "Constants are annihilated by the diffusion rows (no hypothesis), advect as c·div(u) under central and upwind rows for every sign pattern, "
            "have zero TVD correction for every limiter; sources are diagonal (φ = γ/β cell by cell) — proved for all meshes and sizes; the steady uniform "
            "state in divergence-free flows and the cell-local source solve are additionally exercised on the real solver.",
            "§6 C06", ""),
}

checks = []
for p in props:
    pid = p["id"]
    if pid in CLAIMED:
        tech, text, ref, extra = CLAIMED[pid]
        checks.append({
            "property_id": pid,
            "quick_cmd": f"./check {pid} --tier quick",
            "thorough_cmd": f"./check {pid} --tier thorough",
            "evidence_file": f"/verif/evidence/{pid}.json",
            "replay_cmd_template": f"./check {pid} --replay {{path}}",
            "engine": "lean-proof+correspondence",
            "level_claimed": {"category": "proof", "text": text, "design_ref": ref},
            "level_note": NOTE_COMMON + (" " + extra if extra else ""),
            "technique": tech,
        })

na = [{"property_id": p["id"],
       "reason": "not yet claimed: its Lean theorems / correspondence slice are still being built in this project (see DESIGN.md §6); no other technique is substituted"}
      for p in props if p["id"] not in CLAIMED]

m = {
    "version": 1,
    "setup_cmd": "cd /verif && ./setup.sh",
    "hooks": {"guard": "PYFVTOOL_VERIF",
              "enable": "no source hooks are needed: everything the checks observe is reachable from Python (externalsolver argument, _value, _BCsTerm, TrackedArray.modified)",
              "baseline_off_cmd": "cd /repo && /venv/bin/python -m pytest -ra -q -p no:cacheprovider --timeout=900 --continue-on-collection-errors",
              "source_commits": [], "add_only": True},
    "engines": [{"name": "lean-proof+correspondence", "path": "/verif/lean, /verif/harness",
                 "serves_properties": sorted(CLAIMED),
                 "kind_free_text": "Lean 4 + Mathlib theorems about a hand-written / generated model (lean/PyFV); harness/runner.py rebuilds, audits axioms, "
                                   "runs the line-protocol driver (lake env lean --run Driver.lean, exact rationals) against /repo's current working tree, "
                                   "searches the implementation for a failing input when an obligation or the correspondence breaks"}],
    "checks": checks,
    "not_applicable": na,
    "notes": "All checks rebuild from /repo's working tree (pyfvtool is an editable install of /repo/src). Known findings: /verif/known-findings.txt.",
}
json.dump(m, open(os.path.join(VERIF, "MANIFEST.json"), "w"), indent=1)
print("claimed:", sorted(CLAIMED))
