"""C11 — cell-to-face means are true means of the two adjacent cells in any dimension."""
from corr import corr_means
import implsearch as IS

MODULES = ["PyFV.Props.C11", "PyFV.Props.GenEqAvg"]
TRANSLATORS = {"T-avg": "python3 harness/translate/tavg.py lean/PyFV/Gen/AvgGen.lean"}
EXTRA_TRUST = ["geometricMean is compared against Python's math.exp/log in the implementation search only (the ℚ driver does not evaluate exp/log); its Lean theorems are over ℝ with Real.exp/Real.log"]


def corr(rng, tier):
    return [corr_means(rng, 144 if tier == "quick" else 1440)]


def search(rng, tier, broken, cases):
    S = IS.search_c11(rng, 54 if tier == "quick" and not broken else 540)
    import dtypesearch
    dtypesearch.search_dtype(rng, 12 if tier == "quick" and not broken else 60, ['means'], pid="C11", S=S)   # same numbers typed int64 vs float64
    return S.violations, S.stats()


def replay(body):
    import numpy as np
    import pyfvtool as pf
    inp = body["input"]
    mc = IS.mesh_from_case(inp)
    S = IS.Search("C11")
    name = inp.get("mean")
    if name in ("arithmetic", "linear", "harmonic", "geometric"):
        fn = {"arithmetic": pf.arithmeticMean, "linear": pf.linearMean, "harmonic": pf.harmonicMean, "geometric": pf.geometricMean}[name]
        vals = np.array(inp["cell"])
        out = fn(IS.full_cellvar(mc, vals))
        arr = np.asarray(IS.facevar_arrays(mc, out)[inp.get("axis", 0)], dtype=float).ravel()
        ok = bool(np.all(np.isfinite(arr)))
        return ok, f"replay C11 {name} on {mc.kind}: face values {arr.tolist()[:12]} -> {'finite' if ok else 'NOT finite (0/0)'}"
    return True, "use ./check C11"
