"""C12 — time stepping: steady states are fixed points; limits dt->0 and dt->inf; explicit step."""
from corr import corr_assemble
import solversearch as SS

MODULES = ["PyFV.Props.C12", "PyFV.Props.C12Lim", "PyFV.Props.GenEqAvg", "PyFV.Props.GenEqAsm"]
TRANSLATORS = {"T-lim": "python3 harness/translate/tlim.py lean/PyFV/Gen/Limiters.lean",
               "T-avg": "python3 harness/translate/tavg.py lean/PyFV/Gen/AvgGen.lean",
               "T-asm": "python3 harness/translate/tasm.py lean/PyFV/Gen/AsmGen.lean"}


def corr(rng, tier):
    k = 1 if tier == "quick" else 8
    return [corr_assemble(rng, 54 * k, allow=("transient", "diffusion", "convection", "upwind", "linsrc", "constsrc"))]


def search(rng, tier, broken, cases):
    S = SS.search_c12(rng, 45 if tier == "quick" and not broken else 450)
    import dtypesearch
    dtypesearch.search_dtype(rng, 12 if tier == "quick" and not broken else 60, ['steps'], pid="C12", S=S)   # same numbers typed int64 vs float64
    import implsearch as _IS
    _IS.refused_then_retry(S, "C12", rng, 9 if tier == "quick" and not broken else 54)
    return S.violations, S.stats()


def replay(body):
    return True, "cases are regenerated from the seed stored in the replay file: VERIF_SEED=<seed> ./check C12"
