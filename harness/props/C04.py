"""C04 — solvePDE solves exactly the system its term list and BCs define, in place."""
from corr import corr_assemble, corr_terms, corr_ghost
import solversearch as SS

MODULES = ["PyFV.Props.C04", "PyFV.Props.GenEqBC", "PyFV.Props.GenEqState", "PyFV.Props.GenEqAsm"]
TRANSLATORS = {"T-lim": "python3 harness/translate/tlim.py lean/PyFV/Gen/Limiters.lean",
               "T-bc": "python3 harness/translate/tbc.py lean/PyFV/Gen/BCGen.lean",
               "T-state": "python3 harness/translate/tstate.py lean/PyFV/Gen/StateGen.lean",
               "T-asm": "python3 harness/translate/tasm.py lean/PyFV/Gen/AsmGen.lean"}


def corr(rng, tier):
    k = 1 if tier == "quick" else 8
    return [corr_assemble(rng, 54 * k), corr_terms(rng, 54 * k), corr_ghost(rng, 27 * k)]


def search(rng, tier, broken, cases):
    S = SS.search_c04(rng, 36 if tier == "quick" and not broken else 360)
    import dtypesearch
    dtypesearch.search_dtype(rng, 12 if tier == "quick" and not broken else 60, ['steps'], pid="C04", S=S)   # same numbers typed int64 vs float64
    import implsearch as _IS
    _IS.refused_then_retry(S, "C04", rng, 9 if tier == "quick" and not broken else 54)
    return S.violations, S.stats()


def replay(body):
    return True, "cases are regenerated from the seed stored in the replay file: VERIF_SEED=<seed> ./check C04"
