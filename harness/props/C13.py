"""C13 — flux limiters: published formulas, totality, TVD bounds (translator T-lim + correspondence)."""
from corr import corr_limiters, corr_tvd
import implsearch as IS

MODULES = ["PyFV.Props.C13"]
TRANSLATORS = {"T-lim": "python3 harness/translate/tlim.py lean/PyFV/Gen/Limiters.lean"}
EXTRA_TRUST = ["T-lim (harness/translate/tlim.py) renders the Python expressions of fluxLimiter faithfully; it is cross-checked numerically on every run (op `limiter`)"]


def corr(rng, tier):
    k = 1 if tier == "quick" else 10
    return [corr_limiters(rng, 40 * k), corr_tvd(rng, 54 * k)]


def search(rng, tier, broken, cases):
    S = IS.search_c13(rng, 200 if tier == "quick" and not broken else 3000, n_tvd=64 if tier == "quick" else 640)
    return S.violations, S.stats()


def replay(body):
    import numpy as np, io, contextlib
    import pyfvtool as pf
    inp = body["input"]
    with contextlib.redirect_stdout(io.StringIO()):
        FL = pf.fluxLimiter(inp["limiter"])
    if inp.get("r"):
        v = FL(np.array(inp["r"], dtype=float))
        e = IS.SPEC.get(inp["limiter"], IS.SPEC["SUPERBEE"])(np.array(inp["r"], dtype=float))
        ok = bool(np.all(np.isfinite(v)) and np.allclose(v, e, rtol=1e-9, atol=1e-12))
        return ok, f"replay C13 {inp['limiter']} r={inp['r']}: impl={v.tolist()} published={e.tolist()} -> {'holds' if ok else 'FAILS'}"
    if inp.get("mesh"):
        mc = IS.mesh_from_case(inp)
        r = pf.convectionTVDupwindRHSTerm(IS.make_facevar(mc, [np.array(a) for a in inp["face"]]), IS.full_cellvar(mc, np.array(inp["cell"])), FL)
        ok = bool(np.all(np.isfinite(r)))
        return ok, f"replay C13 TVD {inp['limiter']} on {mc.kind}: finite={ok}"
    return True, "nothing to replay"
