"""C16 — malformed input raises the documented exception type, documented forms are accepted
(translator T-err + exhaustive table correspondence + search against the documented behaviour)."""
import c16

MODULES = ["PyFV.Props.C16"]
TRANSLATORS = {"T-err": "python3 harness/translate/terr.py lean/PyFV/Gen/Errors.lean"}
EXTRA_TRUST = [
    "T-err (harness/translate/terr.py) evaluates the coordlabels dictionaries, the CellProp getters and the "
    "FaceVariable type chains faithfully; every generated table entry is executed on the real classes on every run "
    "(op `c16-tables`, identity of the returned / replaced array checked with `is`)",
    "the hand-written decision models ctorOutcome / shapeOutcome / termOutcome / bfaceOutcome / radialPeriodicOutcome "
    "mirror the code's cascades; tied to the code by the same exhaustive enumeration (lean/DriverErr.lean)",
    "shapeOutcome includes one stage that is characterised empirically, not derived from numpy semantics: a size-1 "
    "value of rank above the mesh rank fails inside cellValuesWithBoundaries* (size1Downstream), checked for extents 1..4",
    "a size-1 value of rank above the mesh rank on a single-cell 2-D/3-D mesh is excluded from the spec comparison "
    "(ErrSpec.shapeOutOfScope: the code happens to accept it, either outcome is allowed)",
    "constructor calls with the right number of arguments of the wrong types (type confusions) are outside the arity "
    "property: the model is compared with the code, the documented behaviour only demands that no mesh is built",
]
RULE = ("the enumeration is exhaustive over the finite tables (9 classes × labels × get/set × objects, arities 0..7 × "
        "both forms, all periodic-flag subsets, 9 term kinds, 5^3 coefficient types) and samples the shape families for "
        "N = 1..4; a case is distinct when its (op, class, label/form/family, mesh size, outcome) signature is new")


def corr(rng, tier):
    return [c16.corr_tables(rng, tier)]


def search(rng, tier, broken, cases):
    S = c16.search_c16(rng, tier)
    return S.violations, S.stats()


def replay(body):
    return c16.replay_case(body["input"])
