"""C07 — discrete maximum principle: no overshoot, no negative concentrations."""
from corr import corr_assemble, corr_terms, corr_ghost
import solversearch as SS

MODULES = ["PyFV.Props.C07", "PyFV.Props.GenEq", "PyFV.Props.GenEqUpw", "PyFV.Props.GenEqAsm"]
TRANSLATORS = {"T-num": "python3 harness/translate/tnum.py lean/PyFV/Gen/Stencils.lean", "T-upw": "python3 harness/translate/tupw.py lean/PyFV/Gen/StencilsUpw.lean", "T-asm": "python3 harness/translate/tasm.py lean/PyFV/Gen/AsmGen.lean"}


def corr(rng, tier):
    k = 1 if tier == "quick" else 8
    return [corr_assemble(rng, 54 * k, allow=("transient", "diffusion", "upwind", "linsrc"), well_posed=True),
            corr_terms(rng, 54 * k, which=["diffusion", "upwind", "divergence"]), corr_ghost(rng, 27 * k)]


def search(rng, tier, broken, cases):
    S = SS.search_c07(rng, 108 if tier == "quick" and not broken else 1620)
    import implsearch as _IS
    _IS.refused_then_retry(S, "C07", rng, 9 if tier == "quick" and not broken else 54)
    return S.violations, S.stats()


def replay(body):
    return True, "cases are regenerated from the seed stored in the replay file: VERIF_SEED=<seed> ./check C07"
