"""C17 — results do not depend on the unit system (dimensional homogeneity); coefficient linearity."""
from corr import corr_mesh, corr_terms, corr_tvd, corr_ghost, corr_assemble, corr_means
import solversearch as SS

MODULES = ["PyFV.Props.C17", "PyFV.Props.GenEqUpw"]
TRANSLATORS = {"T-lim": "python3 harness/translate/tlim.py lean/PyFV/Gen/Limiters.lean", "T-upw": "python3 harness/translate/tupw.py lean/PyFV/Gen/StencilsUpw.lean"}


def corr(rng, tier):
    k = 1 if tier == "quick" else 8
    return [corr_terms(rng, 108 * k), corr_tvd(rng, 27 * k), corr_ghost(rng, 108 * k), corr_assemble(rng, 27 * k), corr_means(rng, 72 * k)]


def search(rng, tier, broken, cases):
    S = SS.search_c17(rng, 54 if tier == "quick" and not broken else 540)
    import dtypesearch
    dtypesearch.search_dtype(rng, 12 if tier == "quick" and not broken else 60, ['ops'], pid="C17", S=S)   # same numbers typed int64 vs float64
    return S.violations, S.stats()


def replay(body):
    return True, "cases are regenerated from the seed stored in the replay file: VERIF_SEED=<seed> ./check C17"
