"""C09 — no stale state: any edit history followed by a solve equals a fresh start."""
import hist

MODULES = ["PyFV.Props.C09", "PyFV.Props.GenEqState"]
TRANSLATORS = {"T-state": "python3 harness/translate/tstate.py lean/PyFV/Gen/StateGen.lean"}
RULE = ("histories over the edit/solve alphabet: random (lengths 4-16, one PRNG) plus ALL histories of the given depth over a reduced alphabet on one shared "
        "BC object with two variables; a case is distinct when its operation sequence is new")


def corr(rng, tier):
    return [hist.corr_hist(rng, 80 if tier == "quick" else 1500, 2 if tier == "quick" else 4)]


def search(rng, tier, broken, cases):
    S = hist.search_c09(rng, 60 if tier == "quick" and not broken else 1200)
    import dtypesearch
    dtypesearch.search_dtype(rng, 12 if tier == "quick" and not broken else 60, ['steps'], pid="C09", S=S)   # same numbers typed int64 vs float64
    return S.violations, S.stats()


def replay(body):
    return hist.replay_c09(body)
