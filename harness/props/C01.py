"""C01 — closed systems conserve the domain integral (interior face fluxes cancel)."""
from corr import corr_mesh, corr_terms, corr_tvd, corr_ghost
import implsearch as IS

MODULES = ["PyFV.Props.C01", "PyFV.Props.C01Box", "PyFV.Props.GenEq", "PyFV.Props.GenEqVol", "PyFV.Props.GenEqUpw", "PyFV.Props.GenEqObs"]
TRANSLATORS = {"T-lim": "python3 harness/translate/tlim.py lean/PyFV/Gen/Limiters.lean", "T-num": "python3 harness/translate/tnum.py lean/PyFV/Gen/Stencils.lean", "T-upw": "python3 harness/translate/tupw.py lean/PyFV/Gen/StencilsUpw.lean", "T-obs": "python3 harness/translate/tobs.py lean/PyFV/Gen/ObsGen.lean"}


def corr(rng, tier):
    k = 1 if tier == "quick" else 8
    return [corr_mesh(rng, 36 * k), corr_terms(rng, 108 * k), corr_tvd(rng, 27 * k), corr_ghost(rng, 36 * k)]


def search(rng, tier, broken, cases):
    S = IS.search_c01(rng, 135 if tier == "quick" and not broken else 1350)
    import dtypesearch
    dtypesearch.search_dtype(rng, 12 if tier == "quick" and not broken else 60, ['ops', 'mesh'], pid="C01", S=S)   # same numbers typed int64 vs float64
    return S.violations, S.stats()


def replay(body):
    return True, "conservation cases are regenerated from the seed: re-run ./check C01 with the VERIF_SEED stored in the replay file"
