"""C08 — redundant axes, axis relabelling, mirroring and periodic shifts change nothing."""
from corr import corr_terms, corr_tvd, corr_ghost, corr_means
import solversearch as SS

MODULES = ["PyFV.Props.C08", "PyFV.Props.GenEq", "PyFV.Props.GenEqBC", "PyFV.Props.GenEqState"]
TRANSLATORS = {"T-lim": "python3 harness/translate/tlim.py lean/PyFV/Gen/Limiters.lean", "T-num": "python3 harness/translate/tnum.py lean/PyFV/Gen/Stencils.lean", "T-bc": "python3 harness/translate/tbc.py lean/PyFV/Gen/BCGen.lean", "T-state": "python3 harness/translate/tstate.py lean/PyFV/Gen/StateGen.lean"}


def corr(rng, tier):
    k = 1 if tier == "quick" else 8
    return [corr_terms(rng, 108 * k), corr_tvd(rng, 27 * k), corr_ghost(rng, 36 * k), corr_means(rng, 72 * k)]


def search(rng, tier, broken, cases):
    S = SS.search_c08(rng, 160 if tier == "quick" and not broken else 800)
    return S.violations, S.stats()


def replay(body):
    return True, "cases are regenerated from the seed stored in the replay file: VERIF_SEED=<seed> ./check C08"
