"""C10 — grid geometry is exact."""
from corr import corr_mesh
import implsearch as IS

MODULES = ["PyFV.Props.C10", "PyFV.Props.GenEqVol", "PyFV.Props.GenEqMesh", "PyFV.Props.GenEqObs"]
TRANSLATORS = {"T-num": "python3 harness/translate/tnum.py lean/PyFV/Gen/Stencils.lean",
               "T-mesh": "python3 harness/translate/tmesh.py lean/PyFV/Gen/MeshGen.lean", "T-obs": "python3 harness/translate/tobs.py lean/PyFV/Gen/ObsGen.lean"}
EXTRA_TRUST = ["Real.cos / Real.pi of Mathlib give the meaning of the θ-factor in the SphericalGrid3D counterexample; elsewhere sin/cos/π are parameters"]


def corr(rng, tier):
    return [corr_mesh(rng, 72 if tier == "quick" else 720, nmax=6)]


def search(rng, tier, broken, cases):
    S = IS.search_c10(rng, 72 if tier == "quick" and not broken else 720)
    import c16
    c16.search_labels(rng, tier, pid="C10", S=S)     # labels of coordinates and FaceVariable components (table shared with C16)
    import dtypesearch
    dtypesearch.search_dtype(rng, 12 if tier == "quick" and not broken else 60, ['mesh'], pid="C10", S=S)   # same numbers typed int64 vs float64
    return S.violations, S.stats()


def known_corr(b):
    return None


def replay(body):
    import numpy as np
    inp = body["input"]
    if "mesh" not in inp:
        return True, "label cases are enumerated exhaustively on every run: use ./check C10"
    mc = IS.mesh_from_case(inp)
    V = np.asarray(mc.m.cellvolume, dtype=float)
    G = IS.geometric_volumes(mc)
    ok = V.shape == G.shape and np.allclose(V, G, rtol=1e-9, atol=0)
    return ok, f"replay C10 volumes on {mc.kind}: impl={V.ravel().tolist()[:6]} geometric={G.ravel().tolist()[:6]} -> {'holds' if ok else 'FAILS'}"
