"""C03 — reported boundary values satisfy the configured boundary conditions."""
from corr import corr_ghost
import implsearch as IS

MODULES = ["PyFV.Props.C03", "PyFV.Props.GenEqBC", "PyFV.Props.GenEqObs", "PyFV.Props.GenEqBCUtil"]
TRANSLATORS = {"T-bc": "python3 harness/translate/tbc.py lean/PyFV/Gen/BCGen.lean", "T-obs": "python3 harness/translate/tobs.py lean/PyFV/Gen/ObsGen.lean", "T-bcu": "python3 harness/translate/tbcu.py lean/PyFV/Gen/BCUtilGen.lean"}


def corr(rng, tier):
    return [corr_ghost(rng, 108 if tier == "quick" else 1080)]


def search(rng, tier, broken, cases):
    S = IS.search_c03(rng, 72 if tier == "quick" and not broken else 720)
    import dtypesearch
    dtypesearch.search_dtype(rng, 12 if tier == "quick" and not broken else 60, ['ghost'], pid="C03", S=S)   # same numbers typed int64 vs float64
    return S.violations, S.stats()


def replay(body):
    return IS.replay_c03(body)
