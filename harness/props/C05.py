"""C05 — implicit matrix terms ≡ explicit gradient/mean/divergence chain."""
from corr import corr_terms, corr_means, corr_tvd
import implsearch as IS

MODULES = ["PyFV.Props.C05", "PyFV.Props.GenEq", "PyFV.Props.GenEqUpw", "PyFV.Props.GenEqAvg"]
TRANSLATORS = {"T-lim": "python3 harness/translate/tlim.py lean/PyFV/Gen/Limiters.lean", "T-num": "python3 harness/translate/tnum.py lean/PyFV/Gen/Stencils.lean", "T-upw": "python3 harness/translate/tupw.py lean/PyFV/Gen/StencilsUpw.lean", "T-avg": "python3 harness/translate/tavg.py lean/PyFV/Gen/AvgGen.lean"}


def corr(rng, tier):
    k = 1 if tier == "quick" else 6
    return [corr_terms(rng, 108 * k), corr_means(rng, 36 * k), corr_tvd(rng, 36 * k)]


def search(rng, tier, broken, cases):
    n = 108 if tier == "quick" and not broken else 648
    S = IS.search_c05(rng, n)
    import dtypesearch
    dtypesearch.search_dtype(rng, 12 if tier == "quick" and not broken else 60, ['ops'], pid="C05", S=S)   # same numbers typed int64 vs float64
    return S.violations, S.stats()


def replay(body):
    return IS.replay_c05(body)
