"""C06 — uniform fields stay uniform; sources act cell-locally."""
from corr import corr_terms, corr_tvd
import implsearch as IS

MODULES = ["PyFV.Props.C06", "PyFV.Props.GenEq", "PyFV.Props.GenEqUpw", "PyFV.Props.GenEqAvg", "PyFV.Props.C06Sys"]
TRANSLATORS = {"T-lim": "python3 harness/translate/tlim.py lean/PyFV/Gen/Limiters.lean", "T-num": "python3 harness/translate/tnum.py lean/PyFV/Gen/Stencils.lean", "T-upw": "python3 harness/translate/tupw.py lean/PyFV/Gen/StencilsUpw.lean", "T-avg": "python3 harness/translate/tavg.py lean/PyFV/Gen/AvgGen.lean"}


def corr(rng, tier):
    k = 1 if tier == "quick" else 6
    return [corr_terms(rng, 108 * k), corr_tvd(rng, 27 * k)]


def search(rng, tier, broken, cases):
    n = 108 if tier == "quick" and not broken else 648
    S = IS.search_c06(rng, n)
    import dtypesearch
    dtypesearch.search_dtype(rng, 12 if tier == "quick" and not broken else 60, ['ops'], pid="C06", S=S)   # same numbers typed int64 vs float64
    return S.violations, S.stats()


def replay(body):
    import numpy as np
    inp = body["input"]
    mc = IS.mesh_from_case(inp)
    if inp["term"] in ("diffusion", "convection", "upwind", "tvd"):
        lhs, rhs, sc = IS.c06_eval(mc, inp["term"], [np.array(a) for a in inp["face"]], inp["const"], inp.get("limiter"))
        ok, _ = IS.vec_close(lhs, rhs, sc)
        return ok, f"replay C06 {inp['term']} on {mc.kind}: lhs={lhs.tolist()[:8]} rhs={rhs.tolist()[:8]} -> {'holds' if ok else 'FAILS'}"
    return True, "replay of this case kind re-runs the search: use ./check C06"
