"""C02 — solutions converge to the exact solution of the documented PDE (consistency proved, convergence explored)."""
from corr import corr_terms, corr_ghost, corr_means, corr_assemble
import solversearch as SS

MODULES = ["PyFV.Props.C02", "PyFV.Props.C02Conv", "PyFV.Props.GenEq", "PyFV.Props.GenEqUpw", "PyFV.Props.GenEqBC", "PyFV.Props.GenEqAsm", "PyFV.Props.C02ConvBC"]
TRANSLATORS = {"T-num": "python3 harness/translate/tnum.py lean/PyFV/Gen/Stencils.lean", "T-upw": "python3 harness/translate/tupw.py lean/PyFV/Gen/StencilsUpw.lean", "T-bc": "python3 harness/translate/tbc.py lean/PyFV/Gen/BCGen.lean", "T-asm": "python3 harness/translate/tasm.py lean/PyFV/Gen/AsmGen.lean"}
ASSUMPTIONS = ["PARTIAL: consistency (exactness on polynomials with explicit remainders, incl. all metric factors) and the stability/error-bound lemma are "
               "proved; the Taylor-remainder step to 'error = O(h^2) for every smooth solution' is not mechanised — the manufactured-solution refinement "
               "study recorded under implementation_search is exploration supporting that step"]


def corr(rng, tier):
    k = 1 if tier == "quick" else 8
    return [corr_terms(rng, 108 * k), corr_ghost(rng, 36 * k), corr_means(rng, 36 * k, ), corr_assemble(rng, 27 * k)]


def search(rng, tier, broken, cases):
    S = SS.search_c02(rng, 27 if tier == "quick" and not broken else 135)
    import implsearch as _IS
    _IS.refused_then_retry(S, "C02", rng, 9 if tier == "quick" and not broken else 54)
    return S.violations, S.stats()


def replay(body):
    import solversearch as SS, random
    inp = body["input"]
    fam = SS.exact_family(random.Random(0), inp["kind"])
    errs = [SS.manufactured_error(inp["kind"], N, inp["graded"], tuple(inp["terms"]), inp["bc"], fam) for N in inp["N"]]
    ok = errs[-1] < errs[0]
    return ok, f"replay C02 refinement on {inp['kind']} {inp['terms']}: errors {errs}"
