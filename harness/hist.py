"""State-machine correspondence (op `hist`): random and bounded-exhaustive histories over the
edit/solve alphabet of C09 are executed on the real objects and on the Lean state model
(DriverState.lean); after every step the observable bookkeeping is compared:
which BC object each variable refers to (sharing), the `modified` flags, whether the cached
boundary terms / the ghost layer reflect the CURRENT boundary conditions and interior values
(decoded by recomputation — every edit writes unique numbers), `_BCs_outdated() if hasattr(v, "_BCs_outdated") else (v.BCs.modified or v.value.modified)`, `BCsTerm_precalc`.
For every solve the property itself is checked too: result == fresh start.
"""
import itertools, subprocess, copy as _copy
import numpy as np
from common import *
from corr import Report
from pyfvtool.boundary import boundaryConditionsTerm, cellValuesWithBoundaries
from scipy.sparse import csr_array


def run_state_driver(lines):
    data = "\n".join(lines) + "\n"
    p = subprocess.run(["lake", "env", "lean", "--run", "DriverState.lean"], cwd=LEAN, input=data, capture_output=True, text=True)
    out = [l for l in p.stdout.split("\n") if l != ""]
    if p.returncode != 0 or len(out) != len(lines):
        raise RuntimeError(f"state driver failed rc={p.returncode} {len(out)}/{len(lines)}\n{p.stdout[-1500:]}\n{p.stderr[-1500:]}")
    return out


class World:
    """the real objects of one history"""

    def __init__(self, mc, rng):
        self.mc = mc
        self.rng = rng
        self.bcs = []
        self.vars = []
        self.counter = 0
        self.D = pf.FaceVariable(mc.m, 1.0)

    def uniq(self):
        self.counter += 1
        return 1.0 + self.counter / 64.0

    def uvals(self):
        base = self.uniq()
        n = int(np.prod(self.mc.dims))
        return (base + np.arange(n) / 4096.0).reshape(self.mc.shape())

    def terms(self, v):
        return [pf.transientTerm(v, 0.5, 1.0), -pf.diffusionTerm(self.D)]

    def bc_id(self, bc):
        for i, b in enumerate(self.bcs):
            if b is bc:
                return i
        self.bcs.append(bc)
        return len(self.bcs) - 1

    def fresh_equivalent(self, v):
        """freshly constructed variable with the same interior values and boundary conditions"""
        m = self.mc.m
        bc2 = BoundaryConditions(m)
        for nm in SIDES:
            f, g = getattr(v.BCs, nm), getattr(bc2, nm)
            if np.asarray(f.a).size:
                g.a[:] = np.asarray(f.a); g.b[:] = np.asarray(f.b); g.c[:] = np.asarray(f.c)
            if f.periodic:
                g.periodic = True
        return pf.CellVariable(m, np.array(v.value, copy=True), bc2)

    def apply(self, op):
        """returns (out string, extra violation or None)"""
        kind = op[0]
        m = self.mc.m
        viol = None
        if kind == "newBC":
            self.bcs.append(BoundaryConditions(m)); return f"newBC {len(self.bcs) - 1}", None
        if kind == "newVar":
            if op[1] >= len(self.bcs):
                return "invalid", None
            self.vars.append(pf.CellVariable(m, self.uvals(), self.bcs[op[1]])); return f"newVar {len(self.vars) - 1}", None
        if kind == "newVarDefault":
            v = pf.CellVariable(m, self.uvals())
            self.bcs.append(v.BCs); self.vars.append(v); return f"newVar {len(self.vars) - 1}", None
        if kind in ("editBC", "editBCSilent"):
            if op[1] >= len(self.bcs):
                return "invalid", None
            bc = self.bcs[op[1]]
            side = getattr(bc, self.rng.choice(SIDES[:2 * self.mc.dim]))
            u = self.uniq()
            if kind == "editBCSilent":
                np.copyto(side.c, u)
            else:
                how = self.rng.choice(["assign-c", "slice-c", "fixedValue", "fixedGradient", "newton", "assign-ab", "noflux+c", "toggle-periodic", "toggle-periodic", "tiny"])
                if how == "tiny":
                    # a whole-array re-assignment that changes the value by less than any sensible float tolerance (slow ramp):
                    # still an edit, the next solve must see it
                    side.c = np.asarray(side.c, dtype=float) + 2.0 ** -30
                    return "none", None
                if how == "toggle-periodic":
                    # only the high side of the last axis is ever toggled (so every toggle changes the behaviour), never a radial axis
                    ax = self.mc.dim - 1
                    if ax == 0 and RADIAL[self.mc.kind]:
                        how = "assign-c"
                    else:
                        side = getattr(bc, SIDES[2 * ax + 1])
                        side.periodic = not side.periodic
                        side.c = u          # content never returns to an earlier state (the model's stamps are fresh on every edit; two bare toggles in a row would restore it)
                        return "none", None
                if how == "assign-c":
                    side.c = u
                elif how == "slice-c":
                    side.c[..., 0] = u
                elif how == "fixedValue":
                    side.fixedValue(u)
                elif how == "fixedGradient":
                    side.fixedGradient(u)
                elif how == "newton":
                    side.newtonCooling(1.0 + u, 2.0, u)
                elif how == "assign-ab":
                    side.a = 1.0 + u; side.b = 2.0
                else:
                    side.defaultNoFlux(); side.c = u
            return "none", None
        if kind == "editVal":
            if op[1] >= len(self.vars):
                return "invalid", None
            v = self.vars[op[1]]
            if self.rng.random() < 0.5:
                v.value = self.uvals()
            else:
                v.value[(0,) * self.mc.dim] = self.uniq()
            return "none", None
        if kind == "updateValue":
            if op[1] >= len(self.vars) or op[2] >= len(self.vars):
                return "invalid", None
            self.vars[op[1]].update_value(self.vars[op[2]]); return "none", None
        if kind == "applyBCs":
            if op[1] >= len(self.vars):
                return "invalid", None
            self.vars[op[1]].apply_BCs(); return "none", None
        if kind == "solve":
            if op[1] >= len(self.vars):
                return "invalid", None
            v = self.vars[op[1]]
            f = self.fresh_equivalent(v)
            try:
                ret = pf.solvePDE(v, self.terms(v))
            except Exception as ex:
                return "solved n", {"what": f"solvePDE raised {ex!r}", "observed": repr(ex), "expected": "a solution"}
            pf.solvePDE(f, self.terms(f))
            a, b = np.asarray(v._value), np.asarray(f._value)
            same = a.shape == b.shape and bool(np.allclose(a, b, rtol=1e-12, atol=1e-13, equal_nan=True))
            if ret is not v:
                viol = {"what": "solvePDE did not return its argument", "observed": "other object", "expected": "same object"}
            elif not same:
                viol = {"what": "solve after this history differs from the solve on a freshly constructed variable with the same interior values and boundary conditions",
                        "observed": a.ravel().tolist()[:12], "expected": b.ravel().tolist()[:12]}
            return "solved some " + ("1" if same else "0"), viol
        if kind == "solveExplicit":
            if op[1] >= len(self.vars):
                return "invalid", None
            v = self.vars[op[1]]
            rhs = np.full(int(np.prod(self.mc.gshape())), self.uniq())
            w = pf.solveExplicitPDE(v, 0.125, rhs)
            self.vars.append(w); return f"newVar {len(self.vars) - 1}", None
        if kind == "copy":
            if op[1] >= len(self.vars):
                return "invalid", None
            w = self.vars[op[1]].copy()
            self.bcs.append(w.BCs); self.vars.append(w); return f"newVar {len(self.vars) - 1}", None
        if kind == "arith":
            if op[1] >= len(self.vars):
                return "invalid", None
            v = self.vars[op[1]]
            u = self.uniq()
            w = self.rng.choice([lambda: v * (1.0 + u), lambda: v + u, lambda: u - v, lambda: abs(v) + u, lambda: pf.funceval(lambda x: x + u, v)])()
            self.bcs.append(w.BCs); self.vars.append(w); return f"newVar {len(self.vars) - 1}", None
        raise ValueError(op)

    def observe(self):
        out = []
        for i, v in enumerate(self.vars):
            b = self.bc_id(v.BCs)
            if hasattr(v, "_BCsTerm"):
                Mc, Rc = boundaryConditionsTerm(v.BCs)
                M0, R0 = v._BCsTerm
                cf = "1" if (abs(csr_array(Mc) - csr_array(M0)).max() == 0 and np.array_equal(np.asarray(Rc), np.asarray(R0))) else "0"
            else:
                cf = "n"
            ref = cellValuesWithBoundaries(np.asarray(v.value), v.BCs)
            gf = "1" if np.array_equal(np.asarray(ref), np.asarray(v._value), equal_nan=True) else "0"
            out.append(f"{i}:{b},{int(bool(v.BCs.modified))},{int(bool(v.value.modified))},{cf},{gf},{int(bool(v._BCs_outdated() if hasattr(v, "_BCs_outdated") else (v.BCs.modified or v.value.modified)))},{int(bool(v.BCsTerm_precalc))}")
        return " ".join(out)


OPS_NULLARY = ["newBC", "newVarDefault"]


def op_to_str(op):
    return " ".join(str(x) for x in op)


def random_history(rng, length):
    nb = nv = 0
    ops = []
    for _ in range(length):
        cands = [("newBC",), ("newVarDefault",)]
        if nb:
            cands += [("newVar", rng.randrange(nb)), ("editBC", rng.randrange(nb)), ("editBC", rng.randrange(nb)), ("editBCSilent", rng.randrange(nb))]
        if nv:
            v = rng.randrange(nv); w = rng.randrange(nv)
            cands += [("editVal", v), ("updateValue", v, w), ("applyBCs", v), ("solve", v), ("solve", v), ("solveExplicit", v), ("copy", v), ("arith", v)]
        op = rng.choice(cands)
        ops.append(op)
        if op[0] == "newBC":
            nb += 1
        elif op[0] == "newVarDefault":
            nb += 1; nv += 1
        elif op[0] in ("newVar", "solveExplicit"):
            nv += 1
        elif op[0] in ("copy", "arith"):
            nb += 1; nv += 1
    return ops


def exhaustive_histories(depth):
    """all histories of the given length over a reduced alphabet after the prefix: one shared BC object, two variables on it"""
    prefix = [("newBC",), ("newVar", 0), ("newVar", 0)]
    alphabet = [("editBC", 0), ("editBCSilent", 0), ("editVal", 0), ("applyBCs", 1), ("solve", 0), ("solve", 1), ("solveExplicit", 0), ("copy", 0), ("updateValue", 1, 0)]
    for tail in itertools.product(alphabet, repeat=depth):
        yield prefix + list(tail) + [("solve", 1), ("solve", 0)]


def vars_agree(impl, model):
    """per-variable records must agree; for the two decoded freshness flags (cached terms / ghost layer reflect the
    current state) the implementation may be 'fresh' where the model says 'stale': two distinct BoundaryConditions
    objects with equal content (e.g. both default no-flux) make a stale layer coincide with the recomputed one.
    The converse (model fresh, implementation stale) is a mismatch."""
    a, b = impl.split(), model.split()
    if len(a) != len(b):
        return False
    for x, y in zip(a, b):
        if x == y:
            continue
        (vi, fi), (vm, fm) = x.split(":"), y.split(":")
        fi, fm = fi.split(","), fm.split(",")
        if vi != vm or len(fi) != len(fm):
            return False
        for k, (p_, q_) in enumerate(zip(fi, fm)):
            if p_ == q_:
                continue
            if k in (3, 4) and p_ == "1" and q_ == "0":
                continue
            return False
    return True


def corr_hist(rng, nrandom, depth, kinds=("cart1", "cart2", "cyl2", "sph1", "cart3")):
    rep = Report("hist")
    hists = []
    for t in range(nrandom):
        hists.append(("random", random_history(rng, rng.choice([4, 6, 8, 12, 16]))))
    for h in exhaustive_histories(depth):
        hists.append(("exhaustive", h))
    lines = ["; ".join(op_to_str(o) for o in h) for _, h in hists]
    replies = run_state_driver(lines)
    for (how, h), reply in zip(hists, replies):
        kind = rng.choice(kinds)
        mc = rand_mesh(rng, kind, nmax=2)
        W = World(mc, rng)
        msteps = reply.split(" ;; ") if reply else []
        case = {"history": [op_to_str(o) for o in h], "mesh": mc.describe(), "how": how}
        rep.cases += 1
        rep.sig(tuple(op_to_str(o) for o in h))
        rep.count(how)
        if len(msteps) != len(h):
            rep.bad("hist-length", case, {"model_steps": len(msteps), "ops": len(h), "reply": reply[:200]})
            continue
        for k, op in enumerate(h):
            rep.count("op/" + op[0])
            try:
                out, viol = W.apply(op)
            except Exception as ex:
                rep.bad("hist-exception", case, {"step": k, "op": op_to_str(op), "error": repr(ex)})
                break
            obs = W.observe()
            mout, mvars = [x.strip() for x in msteps[k].split("|")]
            rep.values += 1 + len(W.vars)
            if viol is not None:
                rep.bad("solve-differs-from-fresh", case, {"step": k, "op": op_to_str(op), **viol})
                break
            if out != mout or not vars_agree(obs, mvars):
                rep.bad("hist-state", case, {"step": k, "op": op_to_str(op), "impl_out": out, "model_out": mout, "impl_vars": obs, "model_vars": mvars})
                break
        if len(rep.samples) < 2:
            rep.samples.append(case)
    return rep


def search_c09(rng, n, kinds=("cart1", "cart2", "cyl2", "pol2", "sph1", "cart3", "cyl3")):
    """implementation-only: every solve in a random history equals the fresh start; copies are independent;
    explicit results are usable by the implicit solver"""
    from implsearch import Search, case_of
    S = Search("C09")
    for t in range(n):
        kind = kinds[t % len(kinds)]
        mc = rand_mesh(rng, kind, nmax=2)
        W = World(mc, rng)
        if t % 2 == 0:
            h = random_history(rng, rng.choice([5, 8, 12, 20])) + [("solve", 0)]
        else:
            # two variables on one shared BC object, edits and solves of both interleaved
            tail = [rng.choice([("editBC", 0), ("editBC", 0), ("editBCSilent", 0), ("solve", 0), ("solve", 1), ("applyBCs", 0), ("applyBCs", 1),
                                ("editVal", 1), ("solveExplicit", 0), ("copy", 1)]) for _ in range(rng.choice([4, 6, 10]))]
            h = [("newBC",), ("newVar", 0), ("newVar", 0)] + tail + [("solve", 1), ("solve", 0)]
        inp = {"history": [op_to_str(o) for o in h], "mesh": mc.describe()}
        S.sig(tuple(o[0] for o in h))
        for k, op in enumerate(h):
            try:
                # copy independence probe: remember the original before a copy
                before = None
                if op[0] == "copy" and op[1] < len(W.vars):
                    v = W.vars[op[1]]
                    before = (np.array(v._value, copy=True), v.BCs._state_token() if hasattr(v.BCs, "_state_token") else None)
                out, viol = W.apply(op)
                S.evaluations += 1
                if viol is not None:
                    S.violations.append({"key": "C09:solve-vs-fresh" if "differs" in viol["what"] else "C09:solve-raises", "what": viol["what"],
                                         "input": {**inp, "step": k}, "observed": viol["observed"], "expected": viol["expected"]})
                    break
                if before is not None:
                    v = W.vars[op[1]]; w = W.vars[-1]
                    eq = np.array_equal(np.asarray(w._value), np.asarray(v._value), equal_nan=True)
                    w.value = w.value + 1.0
                    for nm in SIDES[:2 * mc.dim]:
                        getattr(w.BCs, nm).c = W.uniq()
                    indep = np.array_equal(np.asarray(v._value), before[0], equal_nan=True) and (before[1] is None or v.BCs._state_token() == before[1]) \
                        and not np.shares_memory(np.asarray(w._value), np.asarray(v._value)) and w.BCs is not v.BCs
                    S.check(bool(eq and indep), "C09:copy-independent", "copy() is not equal to / independent of its original", {**inp, "step": k}, None, None)
                if op[0] in ("editVal", "editBC") and out != "invalid":
                    # readers other than the solvers: means / gradients built from a variable right after an edit must see ghost
                    # cells that reflect the edit (what a freshly constructed variable would show)
                    cand = [x for x in W.vars if (op[0] == "editVal" and x is W.vars[op[1]]) or (op[0] == "editBC" and x.BCs is W.bcs[op[1]])]
                    for v in cand[:1]:
                        f = W.fresh_equivalent(v)
                        ga = [np.asarray(z) for z in (pf.linearMean(v)._xvalue, pf.gradientTerm(v)._xvalue)]
                        gb = [np.asarray(z) for z in (pf.linearMean(f)._xvalue, pf.gradientTerm(f)._xvalue)]
                        okr = all(np.allclose(x, y, rtol=1e-12, atol=1e-13, equal_nan=True) for x, y in zip(ga, gb))
                        S.check(bool(okr), "stale-ghosts-read-by-term-builders",
                                "linearMean / gradientTerm of a variable right after an edit of its values or boundary conditions use the ghost cells of before the edit "
                                "(they differ from those of a freshly constructed variable with the same interior values and boundary conditions)",
                                {**inp, "step": k}, [x.ravel().tolist()[:6] for x in ga], [x.ravel().tolist()[:6] for x in gb])
                if op[0] == "updateValue" and out != "invalid" and op[1] != op[2]:
                    # update_value transfers values, it must not tie the two variables together: an in-place edit of the source afterwards
                    v = W.vars[op[1]]; w = W.vars[op[2]]
                    held = np.array(v._value, copy=True)
                    shared = np.shares_memory(np.asarray(v._value), np.asarray(w._value))
                    w.value[(0,) * mc.dim] = W.uniq()
                    S.check(bool(not shared and np.array_equal(np.asarray(v._value), held, equal_nan=True)), "C09:update-value-independent",
                            "after a.update_value(b) an in-place edit of b changes a (or they share memory)", {**inp, "step": k}, None, None)
            except Exception as ex:
                S.check(False, "C09:exception", repr(ex), {**inp, "step": k, "op": op_to_str(op)}, repr(ex), "no exception")
                break
        if len(S.samples) < 2:
            S.samples.append(inp)
    return S


def replay_c09(body):
    import random
    inp = body["input"]
    md = inp["mesh"]
    mc = MeshCase(md["kind"], [np.array(f) for f in md["faces"]])
    W = World(mc, random.Random(0))
    for k, s in enumerate(inp["history"]):
        parts = s.split()
        op = (parts[0],) + tuple(int(x) for x in parts[1:])
        out, viol = W.apply(op)
        if viol is not None:
            return False, f"replay C09: step {k} ({s}): {viol['what']}"
    return True, "replay C09: every solve of the history equals the fresh start"
