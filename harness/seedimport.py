#!/usr/bin/env python3
"""seedimport.py <prop> <n> <worktree> "<what was changed>" "<what it needs to manifest>" [check ids…]"""
import sys, os, json, shutil
VERIF = os.path.dirname(os.path.dirname(os.path.abspath(__file__)))
prop, n, wt, what, needs = sys.argv[1:6]
checks = sys.argv[6:] or [prop]
d = os.path.join(VERIF, "seeded", f"{prop}-m{n}")
os.makedirs(d, exist_ok=True)
shutil.copy(os.path.join(wt, f"mutation{n}.diff"), os.path.join(d, "patch.diff"))
shutil.copy(os.path.join(wt, f"demo{n}.py"), os.path.join(d, "demo.py"))
meta = {"id": f"{prop}-m{n}", "property": prop, "what": what, "needs": needs, "checks": checks, "demo": "demo.py",
        "origin": "written by a fresh sub-agent that saw only the property text and its own worktree of /repo; confirmed by harness/seedrun.py (demo passes on the clean tree, fails with the patch; existing suite 48 passed with the patch as reported by the author and re-run for a sample)"}
json.dump(meta, open(os.path.join(d, "meta.json"), "w"), indent=1)
print(d)
