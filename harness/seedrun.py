#!/usr/bin/env python3
"""Run the registered checks against a seeded change.

usage: python3 harness/seedrun.py <seed-id> [check ids…]      (default: the property the seed targets + a few related ones)
Applies seeded/<id>/patch.diff to /repo (git apply), runs the demonstration and the quick checks, ALWAYS restores /repo
(git checkout -- .), and records the outcome in seeded/<id>/meta.json (fields demo_clean, demo_mutated, caught_by, missed_by).
"""
import sys, os, json, subprocess, time
VERIF = os.path.dirname(os.path.dirname(os.path.abspath(__file__)))
REPO = "/repo"


def sh(cmd, **kw):
    return subprocess.run(cmd, shell=True, capture_output=True, text=True, **kw)


def main():
    sid = sys.argv[1]
    d = os.path.join(VERIF, "seeded", sid)
    meta = json.load(open(os.path.join(d, "meta.json")))
    checks = sys.argv[2:] or meta.get("checks") or [meta["property"]]
    assert sh("git -C /repo status --porcelain --untracked-files=no").stdout.strip() == "", "/repo is not clean"
    demo = os.path.join(d, meta.get("demo", "demo.py"))
    r0 = sh(f"cd {d} && /venv/bin/python {demo}")
    meta["demo_clean"] = {"rc": r0.returncode, "tail": (r0.stdout + r0.stderr)[-300:]}
    out = {}
    try:
        a = sh(f"git -C /repo apply {os.path.join(d, 'patch.diff')}")
        assert a.returncode == 0, a.stderr
        r1 = sh(f"cd {d} && /venv/bin/python {demo}")
        meta["demo_mutated"] = {"rc": r1.returncode, "tail": (r1.stdout + r1.stderr)[-300:]}
        for c in checks:
            t0 = time.time()
            r = sh(f"cd {VERIF} && VERIF_SEED={os.environ.get('VERIF_SEED', '0')} ./check {c} --tier quick")
            lines = [l for l in r.stdout.split("\n") if l.startswith("VIOLATION") or l.startswith("[")]
            out[c] = {"rc": r.returncode, "lines": lines[:4], "s": round(time.time() - t0, 1)}
            print(c, r.returncode, lines[:2], flush=True)
    finally:
        sh("git -C /repo checkout -- .")
    meta["caught_by"] = sorted(c for c, v in out.items() if v["rc"] == 1)
    meta["missed_by"] = sorted(c for c, v in out.items() if v["rc"] != 1)
    meta["runs"] = out
    json.dump(meta, open(os.path.join(d, "meta.json"), "w"), indent=1)
    # restore evidence files of the clean tree is the caller's job (re-run the checks on the clean tree before committing)


if __name__ == "__main__":
    main()
