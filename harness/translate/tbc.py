#!/usr/bin/env python3
"""T-bc: regenerate the GHOST-CELL FORMULAS and the BOUNDARY ROWS of boundary.py from the Python source.

  python3 harness/translate/tbc.py lean/PyFV/Gen/BCGen.lean

writes  <out>                       Lean definitions (namespace PyFV.Gen.BCGen), for every family
                                    F in 1D, 2D, Polar2D, 3D, Cylindrical3D, Spherical3D, every side S of the grid
                                    (left/right = x lo/hi, bottom/top = y lo/hi, back/front = z lo/hi; the side is read
                                    off the INDEX the statement writes to, not off the `BC.<side>` it mentions) and
                                    the two branches L in nonper, per of the `if` on the periodic flags:
                                      ghost_F_S_L  M bc φ <cross>       value `cellValuesWithBoundariesF` writes into the
                                                                        ghost cell of side S at the 0-based cross position
                                      ghost_F_S_nonper_den              its denominator (the divisor of the top-level `/`)
                                      ghost_F_<axis>_L_guard bc         the `if` test selecting the branch (Bool)
                                      ghost_F_interior, ghost_F_fill    interior copy; value of cells no statement assigns
                                      bcrow_F_S_L  M bc <cross> : Row α (column cell, coefficient) list in the order of the
                                                                        source + right-hand side written by
                                                                        `boundaryConditionsTermF` for the ghost cell of S
                                      bcrow_F_S_cell M <cross>          that ghost cell (row of the matrix)
                                      bcrow_F_<axis>_L_guard bc         `if` / `elif` tests
                                      bcrow_F_corner_*, bcrow_F_edge_*  coefficient of the decoupled corner / edge rows
                                    bcrow_periodic_raises               (grid class, axis) for which the periodic branch raises
                                    dispatch_cellValuesWithBoundaries, dispatch_boundaryConditionsTerm
                                                                        grid class ↦ function (first true test of the if-chain,
                                                                        `issubclass` / `isinstance` resolved with the class
                                                                        hierarchy of mesh.py)
                                    untranslated                        names for which nothing was emitted
        <dir>/bcgen_status.json     {function: "ok" | "untranslated: reason"}
and prints the status as one JSON line.  stdlib `ast` only; nothing is imported from the package; the source root is
$VERIF_REPO (default /repo).  PyFV/Props/GenEqBC.lean proves every generated formula equal to the hand-written model
(PyFV/Model/BC.lean).  `Poly`, `Bad`, `MeshInfo`, the `cell_numbers` interpretation and `write_if_changed` are reused
from tnum.py.

Method: every function is EXECUTED SYMBOLICALLY once per grid class the dispatcher sends to it and once per feasible
path through the `if`s on the periodic flags (a path condition over the six flags is kept; infeasible branches such
as "neither `if` nor `elif`" are pruned by enumeration of the 64 flag assignments; `type(BC.domain) is C` is decided
from the class).  The results of all paths and classes must agree.
  symbolic integer    polynomial in the cell counts X, Y, Z (tnum.Poly); comparisons `p ≥ 0` are decided under X, Y, Z ≥ 1
  index value         variable (i, j, k = 0-based position along x, y, z) + polynomial
  symbolic array      dims (axis, length) | singleton, function positions -> element; kinds: numeric, integer (index
                      arrays), G (cell numbers: element = tuple of index values, from the class's `cell_numbers`)
  leaves              <BC>.domain.cellsize._x[p]      M.ax.DX p           (length X+2)
                      <BC>.domain.cellcenters._x[p]   M.ax.cen (p+1)      (length X)
                      np.sin(cellcenters._y)[q]       M.sinC (q+1)
                      <BC>.<side>.a|b|c[cross]        (bc.lo|hi d).a|b|c <adjacent interior cell>   (shape: the
                                                      cross-section of the grid; `.item()` on a 1-D grid)
                      phi[p, q, r]                    φ (p+1, q+1, r+1)   (interior shape)
                      <BC>.domain.corners / .edges    the corner / edge cells of the ghosted box: DERIVED from the assignments
                                                      `G = ...`, `corners = ...`, `edges = ...` of `_mesh_<n>d_param` in mesh.py
                                                      and checked to be exactly those cells, each once (see `cellsets`)
  statements          assignments to names, `Nx, Ny = <BC>.domain.dims`, `q += 1`, `Z[index] = e` for Z = np.zeros(...),
                      `if` / `elif` / `else` on the periodic flags or on the grid class, `raise`, `return`
  expressions         + - * / unary minus, int / float constants, basic indexing (slices, integers, negative integers,
                      np.newaxis; bounds CHECKED), indexing of cell numbers / the ghosted array with integers and
                      `int_range` index arrays (numpy broadcasting), `.ravel()`, `.item()`, np.zeros, np.hstack (1-D
                      ghost array), np.sin, np.max (corner scale), np.size(edges), int_range, `q[-1]`, csr_array
CHECKS, ghost functions: the array is np.zeros of the ghosted shape (np.empty is refused: the edge / corner cells, which
  no statement assigns, would be garbage); the interior is assigned once; on every path every face-ghost region (one
  index 0 or N+1, the others the full range 1..N) is assigned exactly once, inside the branch of the `if` whose test
  mentions the flags of that axis.
CHECKS, row builders: the triplet arrays are np.zeros(nb); the slots written form consecutive blocks 0 .. end without
  gap or overlap (symbolic running offset), rows / columns / values of a block have the same length and layout, `end`
  is the bound of the three slices handed to csr_array and `end ≤ nb` on every path; the rows of the blocks are the
  corner cells, the edge cells (3-D) and, for every side, all its ghost cells; all blocks of a side have the same row;
  the columns differ from the row only along the side's axis and are one of 0, 1, N, N+1 there; the right-hand side is
  np.zeros(ghosted size) and is assigned exactly once per side (and 0 for corners / edges); shape = ghosted size.
INERT statements (tinert.py: print / warnings.warn / logging calls and asserts on PURE expressions, `pass`, `if <pure>:`
  over such statements, validation guards `if <pure>: raise E(...)`, assignments to locals that only such statements
  read) are skipped in the ghost functions, the row builders and the two dispatchers.  An `if` on the periodic flags or
  on the grid class whose body raises is NOT skipped: it is executed as before (`bcrow_periodic_raises`, or
  `untranslated` when it raises outside the periodic branches); only a guard whose test is not understood is skipped.
  Trailing parameters with a default that only inert statements read are ignored in the signature checks.  The test is
  purely syntactic (closed list of side-effect-free functions, no method call, no store): a skipped statement cannot write.
PURE LOCAL HELPERS (extract-function): a call `f(args...)` of a module-level function of boundary.py (only top-level
  `def`s bind the name, the last one wins; or `from .x import f`, followed into x.py) is interpreted INLINE: the body runs
  in a fresh environment (its parameters only; `BC`, `BC.top`, `phi`, arrays, numbers, index ranges may be passed;
  positional / keyword arguments, numeric defaults) ON THE SAME PATH: the path condition, the oracle and the branch context
  are shared, so a value computed by a helper is attributed to the periodic / non-periodic branch the call stands in and
  an `if` on the periodic flags inside a helper forks the path exploration like one in the caller.  Resolution, the checks
  on the definition (no decorator, e.g. `functools.cache`; no *args / **kwargs; no global / nonlocal; no generator / nested
  function; name never re-assigned; no recursion, depth ≤ 4) and the argument binding are those of tnum.py.  A helper may
  only write into `np.zeros` arrays it created itself: an item assignment to an array it received is `untranslated`
  (there are no other in-place operations in this interpreter).  `a, b = f(...)` unpacks a returned tuple.
ANY other statement or expression form makes the function `untranslated: <reason>` (no definition is emitted, its name
  is listed in `untranslated`, and the theorems about it in GenEqBC.lean no longer compile).
Trusted (not derived): the shapes in the leaf table, C-order of `ravel` / `reshape`,
  `int_range(a, b)` = a..b inclusive, numpy broadcasting / advanced indexing, `csr_array` semantics (duplicates add).
"""
import ast, sys, os, json, itertools
from fractions import Fraction

sys.path.insert(0, os.path.dirname(os.path.abspath(__file__)))
import tnum                                                   # noqa: E402
import tinert                                                 # noqa: E402
from tnum import Poly, Bad, MeshInfo, KIND, AXES, VAR, ONE, rnum, strip_outer, write_if_changed   # noqa: E402

ZERO = Poly()
SIDES = {"left": ("x", "lo"), "right": ("x", "hi"), "bottom": ("y", "lo"), "top": ("y", "hi"),
         "back": ("z", "lo"), "front": ("z", "hi")}
SIDE_NAME = {v: k for k, v in SIDES.items()}
FAMILIES = ["1D", "2D", "Polar2D", "3D", "Cylindrical3D", "Spherical3D"]
NATURAL = {"1D": "Grid1D", "2D": "Grid2D", "Polar2D": "PolarGrid2D", "3D": "Grid3D",
           "Cylindrical3D": "CylindricalGrid3D", "Spherical3D": "SphericalGrid3D"}
NDIM = {c: (1 if "1D" in c else 2 if "2D" in c else 3) for c in KIND}
GHOST, ROWS = "cellValuesWithBoundaries", "boundaryConditionsTerm"


def N(a):
    return Poly.var(a)


def nonneg(p):
    """sufficient for p ≥ 0 whenever X, Y, Z ≥ 1: all coefficients of p(X+1, Y+1, Z+1) are ≥ 0"""
    q = Poly()
    for m, c in p.t.items():
        term = Poly.const(c)
        for a, e in zip(AXES, m):
            for _ in range(e):
                term = term * (N(a) + ONE)
        q = q + term
    return all(c >= 0 for c in q.t.values())


class IV:
    """index value: variable (or None) + polynomial"""

    def __init__(self, var, off):
        self.var, self.off = var, off

    def shift(self, p):
        return IV(self.var, self.off + p)

    def __eq__(self, o):
        return isinstance(o, IV) and self.var == o.var and self.off == o.off

    def __hash__(self):
        return hash((self.var, self.off))

    def __repr__(self):
        return riv(self)


def rnat(p):
    parts = []
    for m, c in sorted(p.t.items(), reverse=True):
        if c < 0:
            raise Bad(f"negative index {p}")
        if sum(m) == 0:
            parts.append(str(c))
        elif sum(m) == 1:
            nm = f"M.a{AXES[m.index(1)]}.n"
            parts.append(nm if c == 1 else f"{c} * {nm}")
        else:
            raise Bad(f"non-linear index {p}")
    return " + ".join(parts) if parts else "0"


def riv(iv):
    if iv.var is None:
        return rnat(iv.off)
    if iv.off == ZERO:
        return iv.var
    return f"{iv.var} + {rnat(iv.off)}"


def ridx(cell):
    """cell: tuple of IV (length = grid dimension) -> Lean Idx (missing directions are the cell 1)"""
    comps = [riv(c) for c in cell] + ["1"] * (3 - len(cell))
    return "(" + ", ".join(comps) + ")"


def render(e):
    k = e[0]
    if k == "num":
        return rnum(e[1])
    if k == "leaf":                       # ('leaf', field, axis, IV)  (IV already in model numbering)
        _, field, axis, iv = e
        s = riv(iv)
        s = f"({s})" if " " in s else s
        if field == "sinC":
            return f"M.sinC {s}"
        return f"M.a{axis}.{field} {s}"
    if k == "bc":                         # ('bc', (axis, lo|hi), a|b|c, cell)
        _, (d, hl), coef, cell = e
        return f"(bc.{hl} .{d}).{coef} {ridx(cell)}"
    if k == "phi":
        return f"φ {ridx(e[1])}"
    if k in ("add", "sub", "mul", "div"):
        sym = {"add": "+", "sub": "-", "mul": "*", "div": "/"}[k]
        return f"({render(e[1])} {sym} {render(e[2])})"
    if k == "neg":
        return f"(-{render(e[1])})"
    raise Bad(f"render {k}")


# ---------------------------------------------------------------------------------------------------------
# values
# ---------------------------------------------------------------------------------------------------------
class Arr:
    """dims: list of (axis, Poly length) or (None, 1); fn: list of IV -> element; kind: num | int | G"""

    def __init__(self, dims, fn, kind="num", raveled=False):
        self.dims, self.fn, self.kind, self.raveled = list(dims), fn, kind, raveled

    def real_dims(self):
        return [d for d in self.dims if d[0] is not None]

    def generic(self):
        return self.fn([IV(VAR[a], ZERO) if a is not None else IV(None, ZERO) for a, _ in self.dims])

    def shape(self):
        return "(" + ", ".join(str(L) for _, L in self.dims) + ")"


class Rng:
    """int_range: start .. start+len-1"""

    def __init__(self, start, ln):
        self.start, self.len = start, ln

    def last(self):
        return self.start + self.len - ONE

    def as_arr(self):
        for a in AXES:
            if self.len == N(a):
                st = self.start
                return Arr([(a, self.len)], lambda pos: pos[0].shift(st), kind="int")
        raise Bad(f"an int_range of length {self.len} is used as an index array (only 1..N along one axis is understood)")


class Ref:
    def __init__(self, *what):
        self.what = what


class CellSet:
    def __init__(self, name, size):
        self.name, self.size = name, size


class MaxOf:
    def __init__(self, arr):
        self.arr = arr


class Tup:
    def __init__(self, items):
        self.items = items


class ZArr:
    """np.zeros(...) with item assignments recorded"""

    def __init__(self, shape, init):
        self.shape, self.init = shape, init            # shape: tuple of Poly
        self.assigned = []                             # (index descriptor, value, ctx)


class Ghosted1D:
    def __init__(self, regions):
        self.regions = regions


class Sl:              # s[0:q]
    def __init__(self, z, lo, hi):
        self.z, self.lo, self.hi = z, lo, hi


class Mat:
    def __init__(self, vals, rows, cols, shape):
        self.vals, self.rows, self.cols, self.shape = vals, rows, cols, shape


class PathRaise(Exception):
    def __init__(self, name):
        self.name = name


def scalar(e):
    return Arr([], lambda pos: e)


def fmt(e):
    """Lean text of an element expression without redundant outer parentheses"""
    return render(e) if e[0] == "num" else strip_outer(render(e))


def bdims(dimlists):
    n = max((len(d) for d in dimlists), default=0)
    out = []
    for t in range(n):
        cur = None
        for d in dimlists:
            k = t - (n - len(d))
            if k < 0:
                continue
            x = d[k]
            if cur is None or cur[0] is None:
                cur = x
            elif x[0] is not None and x != cur:
                raise Bad(f"broadcast of {x[0]}:{x[1]} against {cur[0]}:{cur[1]}")
        out.append(cur)
    return out


def subpos(pos, dims, n):
    p = pos[n - len(dims):]
    return [IV(None, ZERO) if d[0] is None else q for d, q in zip(dims, p)]


# ---------------------------------------------------------------------------------------------------------
# guards over the periodic flags
# ---------------------------------------------------------------------------------------------------------
def g_eval(g, flags):
    k = g[0]
    if k == "const":
        return g[1]
    if k == "flag":
        return flags[g[1]]
    if k == "not":
        return not g_eval(g[1], flags)
    if k == "and":
        return all(g_eval(x, flags) for x in g[1])
    if k == "or":
        return any(g_eval(x, flags) for x in g[1])
    raise Bad("guard")


def g_fold(g):
    k = g[0]
    if k == "not":
        x = g_fold(g[1])
        return ("const", not x[1]) if x[0] == "const" else ("not", x)
    if k in ("and", "or"):
        xs = [g_fold(x) for x in g[1]]
        absorbing = (k == "or")
        if any(x == ("const", absorbing) for x in xs):
            return ("const", absorbing)
        xs = [x for x in xs if x[0] != "const"]
        if not xs:
            return ("const", not absorbing)
        return xs[0] if len(xs) == 1 else (k, xs)
    return g


def g_flags(g):
    if g[0] == "flag":
        return {g[1]}
    if g[0] == "not":
        return g_flags(g[1])
    if g[0] in ("and", "or"):
        return set().union(*[g_flags(x) for x in g[1]])
    return set()


def g_lean(g):
    k = g[0]
    if k == "flag":
        d, hl = SIDES[g[1]]
        return f"(bc.{hl} .{d}).periodic"
    if k == "not":
        return f"(!{g_lean(g[1])})"
    if k in ("and", "or"):
        return "(" + (" && " if k == "and" else " || ").join(g_lean(x) for x in g[1]) + ")"
    raise Bad("guard rendering")


ALL_FLAGS = [dict(zip(SIDES, v)) for v in itertools.product([False, True], repeat=6)]


def sat(pc):
    return any(all(g_eval(g, f) == v for g, v in pc) for f in ALL_FLAGS)


# ---------------------------------------------------------------------------------------------------------
# mesh.py: which cells are `corners` and `edges`
# ---------------------------------------------------------------------------------------------------------
_CELLSETS = {}


def cellsets(mesh, cls):
    """{'corner': [spec], 'edge': [spec]} with spec = tuple over the axes of 'lo' | 'hi' | 'int', derived from the
    top-level assignments `G = ...`, `corners = ...`, `edges = ...` of the class's `_mesh_<n>d_param`; CHECKED: the
    corners are exactly the 2^n cells with every index 0 or N+1, the edges (3-D) exactly the cells with one index in
    1..N and the two others 0 or N+1, each listed once"""
    if cls in _CELLSETS:
        return _CELLSETS[cls]
    nd = NDIM[cls]
    fn = mesh.method(cls, f"_mesh_{nd}d_param")
    sym = dict(zip(["Nx", "Ny", "Nz"][:nd], [N(a) for a in AXES[:nd]]))
    shape = [N(a) + Poly.const(2) for a in AXES[:nd]]
    size = ONE
    for L in shape:
        size = size * L

    def poly(n):
        if isinstance(n, ast.Constant) and isinstance(n.value, int) and not isinstance(n.value, bool):
            return Poly.const(n.value)
        if isinstance(n, ast.Name) and n.id in sym:
            return sym[n.id]
        if isinstance(n, ast.BinOp) and isinstance(n.op, (ast.Add, ast.Sub, ast.Mult)):
            a, b = poly(n.left), poly(n.right)
            return a + b if isinstance(n.op, ast.Add) else a - b if isinstance(n.op, ast.Sub) else a * b
        raise Bad(f"{cls}: size expression {ast.unparse(n)}")

    state = {"G": None}

    def grid(n):
        """is `n` the C-order cell numbering of the ghosted box?"""
        if isinstance(n, ast.Name) and n.id == "G":
            return state["G"] == "grid"
        if isinstance(n, ast.Call) and isinstance(n.func, ast.Attribute) and n.func.attr == "reshape" \
                and not n.keywords and isinstance(n.func.value, ast.Name) and n.func.value.id == "G":
            return state["G"] == "flat" and [poly(a) for a in n.args] == shape
        return False

    def end(n):
        if isinstance(n, ast.Constant) and n.value == 0:
            return "lo"
        if isinstance(n, ast.UnaryOp) and isinstance(n.op, ast.USub) and isinstance(n.operand, ast.Constant) \
                and n.operand.value == 1:
            return "hi"
        raise Bad(f"{cls}: corner / edge index {ast.unparse(n)}")

    def cells(n):
        if isinstance(n, ast.Call) and isinstance(n.func, ast.Attribute) and n.func.attr in ("flatten", "ravel") \
                and not n.args and not n.keywords:
            return cells(n.func.value)
        if isinstance(n, ast.Call) and ast.unparse(n.func) == "np.hstack" and len(n.args) == 1 \
                and isinstance(n.args[0], (ast.List, ast.Tuple)) and not n.keywords:
            return [c for e in n.args[0].elts for c in cells(e)]
        if isinstance(n, ast.Subscript) and grid(n.value):
            sl = n.slice
            if isinstance(sl, ast.Call) and ast.unparse(sl.func) == "np.ix_" and len(sl.args) == nd \
                    and all(isinstance(a, (ast.Tuple, ast.List)) for a in sl.args):
                return [tuple(c) for c in itertools.product(*[[end(e) for e in a.elts] for a in sl.args])]
            items = sl.elts if isinstance(sl, ast.Tuple) else [sl]
            if len(items) != nd:
                raise Bad(f"{cls}: {ast.unparse(n)}")
            cols, ln = [], None
            for it in items:
                if isinstance(it, ast.List):
                    v = [end(e) for e in it.elts]
                    if ln not in (None, len(v)):
                        raise Bad(f"{cls}: index lists of different lengths in {ast.unparse(n)}")
                    ln = len(v)
                    cols.append(v)
                elif isinstance(it, ast.Slice):
                    if it.step is not None or it.lower is None or it.upper is None \
                            or poly(it.lower) != ONE or end(it.upper) != "hi":
                        raise Bad(f"{cls}: slice in {ast.unparse(n)} is not 1:-1")
                    cols.append("int")
                else:
                    cols.append(end(it))
            return [tuple(c[t] if isinstance(c, list) else c for c in cols) for t in range(ln or 1)]
        raise Bad(f"{cls}: corner / edge expression {ast.unparse(n)[:60]}")

    out = {}
    for st in fn.body:
        if not (isinstance(st, ast.Assign) and len(st.targets) == 1 and isinstance(st.targets[0], ast.Name)):
            continue
        nm, v = st.targets[0].id, st.value
        if nm in sym:
            raise Bad(f"{cls}: {nm} reassigned")
        if nm == "G":
            if isinstance(v, ast.BinOp) and isinstance(v.op, ast.Sub) and poly(v.right) == ONE \
                    and isinstance(v.left, ast.Call) and ast.unparse(v.left.func) == "int_range" \
                    and len(v.left.args) == 2 and poly(v.left.args[0]) == ONE and poly(v.left.args[1]) == size:
                state["G"] = "flat"
            elif isinstance(v, ast.Call) and ast.unparse(v.func) == "int_range" and len(v.args) == 2 \
                    and poly(v.args[0]) == ZERO and poly(v.args[1]) == size - ONE:
                state["G"] = "flat"
            elif grid(v):
                state["G"] = "grid"
            else:
                raise Bad(f"{cls}: G = {ast.unparse(v)[:50]}")
        elif nm == "corners":
            out["corner"] = cells(v)
        elif nm == "edges" and nd == 3:
            out["edge"] = cells(v)
        elif nm == "dims":
            if ast.unparse(v).replace(" ", "") != "np.array([" + ",".join(sym) + "],dtype=int)":
                raise Bad(f"{cls}: dims = {ast.unparse(v)}")
            out["dims"] = True
    if "dims" not in out:
        raise Bad(f"{cls}: `dims = np.array([Nx, ...])` not found")
    want = {"corner": {c for c in itertools.product(["lo", "hi"], repeat=nd)}}
    if nd == 3:
        want["edge"] = {c for c in itertools.product(["lo", "hi", "int"], repeat=3) if c.count("int") == 1}
    for k, w in want.items():
        got = out.get(k)
        if got is None:
            raise Bad(f"{cls}: `{k}s` not found")
        if len(got) != len(set(got)) or set(got) != w:
            raise Bad(f"{cls}: the {k} cells of mesh.py are not exactly the {k} cells of the ghosted box")
    res = {}
    for k in want:
        sz = Poly()
        for c in out[k]:
            t = ONE
            for a, x in zip(AXES, c):
                if x == "int":
                    t = t * N(a)
            sz = sz + t
        res[k] = sz
    _CELLSETS[cls] = res
    return res


# ---------------------------------------------------------------------------------------------------------
# the interpreter (one run = one class, one path)
# ---------------------------------------------------------------------------------------------------------
class Run:
    def __init__(self, mesh, cls, fn, oracle, role):
        self.mesh, self.cls, self.fn, self.role = mesh, cls, fn, role
        self.nd = NDIM[cls]
        self.oracle, self.trace, self.pc = list(oracle), [], []
        self.env, self.ctx, self.guards = {}, [], {}
        self.result, self.raised = None, None
        self.inert = tinert.analysis(fn)
        self.init_scope(fn)
        a = tinert.effective_args(fn)           # without the extra parameters that only inert statements read
        names = [x.arg for x in a.args]
        if a.vararg or a.kwarg or a.kwonlyargs or a.defaults:
            raise Bad("signature")
        if role == GHOST:
            if len(names) != 2:
                raise Bad("signature: expected (phi, BC)")
            self.phi, self.bc = names
        else:
            if len(names) != 1:
                raise Bad("signature: expected (BC)")
            self.phi, self.bc = None, names[0]

    def init_scope(self, fn):
        self.is_helper, self.hstack, self.created = False, [], []
        self.modname = tnum.FN_MODULE.get(id(fn))
        self.locals = set(tinert._bindings([fn.args] + list(fn.body), deep=False))

    # ---- geometry
    def axes(self):
        return AXES[:self.nd]

    def interior_dims(self):
        return [(a, N(a)) for a in self.axes()]

    def ghosted_shape(self):
        return tuple(N(a) + Poly.const(2) for a in self.axes())

    def ghosted_size(self):
        p = ONE
        for s in self.ghosted_shape():
            p = p * s
        return p

    def cross(self, d):
        return [a for a in self.axes() if a != d]

    # ---- statements
    def go(self):
        try:
            self.block(self.fn.body)
        except PathRaise as ex:
            if not self.ctx:
                raise Bad(f"raise {ex.name} outside the periodic branches")
            self.raised = (self.ctx[-1], ex.name)
            return
        if self.result is None:
            raise Bad("no return")

    def block(self, stmts):
        for st in stmts:
            if self.result is not None:
                raise Bad("statement after return")
            self.stmt(st)

    def stmt(self, st):
        if isinstance(st, ast.Expr) and isinstance(st.value, ast.Constant) and isinstance(st.value.value, str):
            return
        if self.inert.skip(st):                 # inert statement (tinert.py): no effect on the result
            return
        st = tnum.plain_assign(st)
        if isinstance(st, ast.Assign):
            return self.assign(st)
        if isinstance(st, ast.AugAssign):
            if not (isinstance(st.target, ast.Name) and isinstance(st.op, (ast.Add, ast.Sub))):
                raise Bad(f"augmented assignment (line {st.lineno})")
            cur, v = self.ev(st.target), self.ev(st.value)
            if not (isinstance(cur, Poly) and isinstance(v, Poly)):
                raise Bad(f"augmented assignment of non-integers (line {st.lineno})")
            self.env[st.target.id] = cur + v if isinstance(st.op, ast.Add) else cur - v
            return
        if isinstance(st, ast.If):
            return self.exec_if(st)
        if isinstance(st, ast.Raise):
            nm = "exception"
            if isinstance(st.exc, ast.Call) and isinstance(st.exc.func, ast.Name):
                nm = st.exc.func.id
            raise PathRaise(nm)
        if isinstance(st, ast.Return):
            if st.value is None:
                raise Bad("bare return")
            self.result = self.ev(st.value)
            return
        raise Bad(f"statement {type(st).__name__} (line {st.lineno})")

    def assign(self, st):
        if all(isinstance(t, ast.Name) for t in st.targets):
            v = self.ev(st.value)
            if isinstance(v, Ref) and v.what[0] != "dims":
                raise Bad(f"assignment of {ast.unparse(st.value)}")
            for t in st.targets:
                self.env[t.id] = v
            return
        if len(st.targets) != 1:
            raise Bad(f"assignment targets (line {st.lineno})")
        t = st.targets[0]
        if isinstance(t, ast.Tuple) and all(isinstance(e, ast.Name) for e in t.elts):
            v = self.ev(st.value)
            if isinstance(v, Tup):                  # `a, b = <tuple>` (e.g. the tuple a helper returns)
                if len(v.items) != len(t.elts):
                    raise Bad(f"unpacking {len(v.items)} values into {len(t.elts)} names (line {st.lineno})")
                if any(isinstance(x, Ref) and x.what[0] != "dims" for x in v.items):
                    raise Bad(f"tuple assignment of {ast.unparse(st.value)[:40]}")
                for e, x in zip(t.elts, v.items):
                    self.env[e.id] = x
                return
            if not (isinstance(v, Ref) and v.what[0] == "dims"):
                raise Bad(f"tuple assignment from {ast.unparse(st.value)}")
            if len(t.elts) != self.nd:
                raise Bad(f"unpacking .dims of a {self.nd}-D grid into {len(t.elts)} names")
            for e, a in zip(t.elts, AXES):
                self.env[e.id] = N(a)
            return
        if isinstance(t, ast.Subscript) and isinstance(t.value, ast.Name):
            z = self.env.get(t.value.id)
            if not isinstance(z, ZArr):
                raise Bad(f"item assignment to {t.value.id}, which is not a np.zeros array (line {st.lineno})")
            if self.is_helper and not any(z is c for c in self.created):
                raise Bad(f"item assignment to {t.value.id}, an array that was not created inside the helper "
                          f"(line {st.lineno})")
            idx = self.target_index(z, t.slice, ast.unparse(t))
            val = self.ev(st.value)
            z.assigned.append((idx, val, tuple(self.ctx), st.lineno))
            return
        raise Bad(f"assignment target {ast.unparse(t)}")

    def target_index(self, z, sl, txt):
        items = sl.elts if isinstance(sl, ast.Tuple) else [sl]
        if len(z.shape) == 1:
            if len(items) != 1:
                raise Bad(f"{txt}: too many indices")
            v = self.ev(items[0])
            if isinstance(v, Poly):
                return ("poly", v)
            if isinstance(v, Rng):
                return ("rng", v.start, v.len)
            if isinstance(v, Arr) and v.kind == "G":
                return ("cells", v)
            if isinstance(v, CellSet):
                return ("set", v)
            raise Bad(f"{txt}: index")
        if len(items) != len(z.shape):
            raise Bad(f"{txt}: {len(items)} indices for a {len(z.shape)}-D array")
        if all(isinstance(it, ast.Slice) for it in items):
            for it, a, L in zip(items, self.axes(), z.shape):
                if it.step is not None or it.lower is None or it.upper is None:
                    raise Bad(f"{txt}: slice")
                # a negative constant bound counts from the end of THIS array (length L): `1:-1` is `1:L-1`
                lo, hi = self.int_item(it.lower, L), self.int_item(it.upper, L)
                if lo != ONE or hi != N(a) + ONE:
                    raise Bad(f"{txt}: the slice along {a} is not 1:N+1")
            return ("interior",)
        ident = Arr([(a, L) for a, L in zip(self.axes(), z.shape)], lambda pos: tuple(pos), kind="G")
        return ("cells", self.adv_index(ident, items, txt))

    # ---- branches
    def exec_if(self, st):
        try:
            g0 = self.guard(st.test)
        except Bad:
            if self.inert.skip_guard(st):       # a validation guard on a test that is not understood
                return
            raise
        g = g_fold(g0)
        if g[0] == "const":
            return self.block(st.body if g[1] else st.orelse)
        sides = g_flags(g)
        axes = {SIDES[s][0] for s in sides}
        if len(axes) != 1:
            raise Bad(f"the test `{ast.unparse(st.test)}` mixes the flags of several axes (line {st.lineno})")
        axis = axes.pop()
        if any(c[0] == "axis" for c in self.ctx):
            raise Bad(f"nested tests on periodic flags (line {st.lineno})")
        then_label = "nonper" if g_eval(g, {s: False for s in SIDES}) else "per"
        else_label = "per" if then_label == "nonper" else "nonper"
        can_t, can_f = sat(self.pc + [(g, True)]), sat(self.pc + [(g, False)])
        if can_t and can_f:
            choice = self.oracle[len(self.trace)] if len(self.trace) < len(self.oracle) else True
            self.trace.append(choice)
        elif can_t or can_f:
            choice = can_t
        else:
            raise Bad("unreachable code")
        self.pc.append((g, choice))
        key = (axis, then_label)
        txt = g_lean(g)
        if self.guards.get(key, txt) != txt:
            raise Bad(f"two different tests for the {then_label} branch of axis {axis}")
        self.guards[key] = txt
        if choice:
            self.ctx.append(("axis", axis, then_label))
            self.block(st.body)
            self.ctx.pop()
        elif len(st.orelse) == 1 and isinstance(st.orelse[0], ast.If):
            self.exec_if(st.orelse[0])
        else:
            if self.role == ROWS and st.orelse:
                # a plain `else:` is taken exactly when the `if` test fails: its guard is the negated test
                ekey, etxt = (axis, else_label), g_lean(("not", g))
                if self.guards.get(ekey, etxt) != etxt:
                    raise Bad(f"two different tests for the {else_label} branch of axis {axis}")
                self.guards[ekey] = etxt
            self.ctx.append(("axis", axis, else_label))
            self.block(st.orelse)
            self.ctx.pop()

    def is_domain(self, node):
        return ast.unparse(node) == f"{self.bc}.domain"

    def guard(self, t):
        if isinstance(t, ast.BoolOp):
            return ("and" if isinstance(t.op, ast.And) else "or", [self.guard(v) for v in t.values])
        if isinstance(t, ast.UnaryOp) and isinstance(t.op, ast.Not):
            return ("not", self.guard(t.operand))
        if isinstance(t, ast.Attribute) and t.attr == "periodic" and isinstance(t.value, ast.Attribute) \
                and isinstance(t.value.value, ast.Name) and t.value.value.id == self.bc and t.value.attr in SIDES:
            side = t.value.attr
            if AXES.index(SIDES[side][0]) >= self.nd:
                raise Bad(f"{self.bc}.{side}.periodic on a {self.nd}-D grid")
            return ("flag", side)
        c = class_test(self.mesh, t, self.is_domain, self.cls)
        if c is not None:
            return ("const", c)
        raise Bad(f"test {ast.unparse(t)}")

    # ---- expressions
    def ev(self, node):
        m = getattr(self, "ev_" + type(node).__name__, None)
        if m is None:
            raise Bad(f"expression {type(node).__name__}: {ast.unparse(node)[:50]}")
        return m(node)

    def ev_Constant(self, node):
        v = node.value
        if isinstance(v, bool) or not isinstance(v, (int, float)):
            raise Bad(f"constant {v!r}")
        if isinstance(v, int):
            return Poly.const(v)
        return scalar(("num", Fraction(v)))

    def ev_Name(self, node):
        if node.id in self.env:
            return self.env[node.id]
        if self.is_helper:                  # a helper sees its own parameters (bound in env) only
            raise Bad(f"name {node.id}")
        if node.id == self.bc:
            return Ref("BC")
        if node.id == self.phi:
            nd = self.nd
            return Arr(self.interior_dims(), lambda pos: ("phi", tuple(p.shift(ONE) for p in pos[:nd])))
        raise Bad(f"name {node.id}")

    def ev_Tuple(self, node):
        return Tup([self.ev(e) for e in node.elts])

    def ev_List(self, node):
        return Tup([self.ev(e) for e in node.elts])

    def ev_Attribute(self, node):
        if isinstance(node.value, ast.Name) and node.value.id == "np":
            raise Bad(f"np.{node.attr}")
        base = self.ev(node.value)
        if not isinstance(base, Ref):
            raise Bad(f"attribute .{node.attr} of a computed value")
        w = base.what
        if w[0] == "BC":
            if node.attr == "domain":
                return Ref("mesh")
            if node.attr in SIDES:
                if AXES.index(SIDES[node.attr][0]) >= self.nd:
                    raise Bad(f"{self.bc}.{node.attr} on a {self.nd}-D grid")
                return Ref("side", node.attr)
            raise Bad(f"attribute {self.bc}.{node.attr}")
        if w[0] == "side":
            if node.attr in ("a", "b", "c"):
                return self.face_leaf(w[1], node.attr)
            raise Bad(f"attribute .{w[1]}.{node.attr} outside a test")
        if w[0] == "mesh":
            if node.attr in ("cellsize", "cellcenters"):
                return Ref("prop", node.attr)
            if node.attr == "dims":
                return Ref("dims")
            if node.attr == "corners" and self.nd >= 2:
                return CellSet("corner", cellsets(self.mesh, self.cls)["corner"])
            if node.attr == "edges" and self.nd == 3:
                return CellSet("edge", cellsets(self.mesh, self.cls)["edge"])
            raise Bad(f"mesh attribute .{node.attr}")
        if w[0] == "prop":
            if node.attr not in tnum.PRIV:
                raise Bad(f"attribute {w[1]}.{node.attr}")
            axis = tnum.PRIV[node.attr]
            if AXES.index(axis) >= self.nd:
                raise Bad(f"{w[1]}.{node.attr}: a {self.nd}-D grid has no {axis} axis")
            if w[1] == "cellsize":
                return Arr([(axis, N(axis) + Poly.const(2))], lambda pos: ("leaf", "DX", axis, pos[0]))
            return Arr([(axis, N(axis))], lambda pos: ("leaf", "cen", axis, pos[0].shift(ONE)))
        raise Bad(f"attribute .{node.attr}")

    def face_leaf(self, side, coef):
        d, hl = SIDES[side]
        cross = self.cross(d)
        axes = self.axes()
        along = IV(None, N(d) if hl == "hi" else ONE)

        def fn(pos):
            it = iter(pos[len(pos) - len(cross):]) if cross else iter(())
            cell = tuple(along if a == d else next(it).shift(ONE) for a in axes)
            return ("bc", (d, hl), coef, cell)
        dims = [(a, N(a)) for a in cross] if cross else [(None, ONE)]
        return Arr(dims, fn)

    def as_num(self, v):
        if isinstance(v, Poly):
            return scalar(("num", Fraction(v.constval())))
        if isinstance(v, Arr) and v.kind == "num":
            return v
        raise Bad("operand is not numeric")

    def ev_UnaryOp(self, node):
        if not isinstance(node.op, ast.USub):
            raise Bad(f"unary {type(node.op).__name__}")
        v = self.ev(node.operand)
        if isinstance(v, Poly):
            return -v
        v = self.as_num(v)
        return Arr(v.dims, lambda pos: ("neg", v.fn(pos)), raveled=v.raveled)

    def ev_BinOp(self, node):
        a, b = self.ev(node.left), self.ev(node.right)
        op = type(node.op)
        if isinstance(a, Poly) and isinstance(b, Poly) and op in (ast.Add, ast.Sub, ast.Mult):
            return a + b if op is ast.Add else a - b if op is ast.Sub else a * b
        if isinstance(a, Poly) and isinstance(b, Rng) and op is ast.Add:
            return Rng(b.start + a, b.len)
        if isinstance(a, Rng) and isinstance(b, Poly) and op in (ast.Add, ast.Sub):
            return Rng(a.start + b if op is ast.Add else a.start - b, a.len)
        tag = {ast.Add: "add", ast.Sub: "sub", ast.Mult: "mul", ast.Div: "div"}.get(op)
        if tag is None:
            raise Bad(f"operator {op.__name__}")
        a, b = self.as_num(a), self.as_num(b)
        if a.raveled or b.raveled:
            if a.dims and b.dims and not (a.raveled and b.raveled and a.dims == b.dims):
                raise Bad("elementwise operation between raveled arrays of different layout")
            dims = a.dims or b.dims
            return Arr(dims, lambda pos: (tag, a.fn(pos if a.dims else []), b.fn(pos if b.dims else [])), raveled=True)
        dims = bdims([a.dims, b.dims])
        n = len(dims)
        return Arr(dims, lambda pos: (tag, a.fn(subpos(pos, a.dims, n)), b.fn(subpos(pos, b.dims, n))))

    # ---- indexing
    def int_item(self, it, L):
        v = self.ev(it)
        if not isinstance(v, Poly):
            return None
        if v.is_const() and v.constval() < 0:
            v = L + v
        return v

    def ev_Subscript(self, node):
        base = self.ev(node.value)
        sl = node.slice
        txt = ast.unparse(node)
        items = sl.elts if isinstance(sl, ast.Tuple) else [sl]
        if isinstance(base, Ref):
            if base.what[0] == "dims" and isinstance(sl, ast.Constant) and isinstance(sl.value, int) \
                    and 0 <= sl.value < self.nd:
                return N(AXES[sl.value])
            raise Bad(f"subscript {txt}")
        if isinstance(base, ZArr):
            if len(base.shape) != 1 or not isinstance(sl, ast.Slice) or sl.step is not None:
                raise Bad(f"{txt}: only z[0:q] of a 1-D np.zeros array is understood")
            lo = ZERO if sl.lower is None else self.ev(sl.lower)
            hi = base.shape[0] if sl.upper is None else self.ev(sl.upper)
            if not (isinstance(lo, Poly) and isinstance(hi, Poly)):
                raise Bad(f"{txt}: bounds")
            return Sl(base, lo, hi)
        if isinstance(base, Rng):
            if len(items) == 1 and not isinstance(items[0], ast.Slice) and not self.is_newaxis(items[0]):
                v = self.int_item(items[0], base.len)
                if v is None:
                    raise Bad(f"{txt}: index")
                if not (nonneg(v) and nonneg(base.len - ONE - v)):
                    raise Bad(f"{txt}: index {v} out of range 0..{base.len - ONE}")
                return base.start + v
            base = base.as_arr()
        if not isinstance(base, Arr):
            raise Bad(f"subscript of {ast.unparse(node.value)[:40]}")
        if base.raveled:
            raise Bad("index of a raveled array")
        if base.kind == "G":
            return self.adv_index(base, items, txt)
        return self.basic_index(base, items, txt)

    @staticmethod
    def is_newaxis(it):
        return tnum.is_newaxis(it)          # `np.newaxis` or the literal `None`

    def basic_index(self, arr, items, txt):
        dims, maps = [], []
        s = 0
        for it in items:
            if self.is_newaxis(it):
                dims.append((None, ONE))
                continue
            if s >= len(arr.dims):
                raise Bad(f"{txt}: too many indices for shape {arr.shape()}")
            axis, L = arr.dims[s]
            if isinstance(it, ast.Slice):
                if it.step is not None:
                    raise Bad("slice step")
                lo = ZERO if it.lower is None else self.int_item(it.lower, L)
                hi = L if it.upper is None else self.int_item(it.upper, L)
                if lo is None or hi is None:
                    raise Bad(f"{txt}: slice bound")
                if axis is None:
                    if lo != ZERO or hi != L:
                        raise Bad(f"{txt}: proper slice of a singleton dimension")
                    dims.append((None, ONE))
                    maps.append(("fix", ZERO))
                else:
                    if not (nonneg(lo) and nonneg(hi - lo - ONE) and nonneg(L - hi)):
                        raise Bad(f"{txt}: slice {lo}:{hi} of a dimension of length {L}")
                    dims.append((axis, hi - lo))
                    maps.append(("dim", len(dims) - 1, lo))
            else:
                v = self.int_item(it, L)
                if v is None:
                    raise Bad(f"{txt}: index {ast.unparse(it)}")
                if not (nonneg(v) and nonneg(L - ONE - v)):
                    raise Bad(f"{txt}: index {v} out of range 0..{L - ONE}")
                maps.append(("fix", v))
            s += 1
        for t in range(s, len(arr.dims)):
            dims.append(arr.dims[t])
            maps.append(("dim", len(dims) - 1, ZERO))
        src = arr.dims

        def fn(pos):
            out = []
            for n, m in enumerate(maps):
                if src[n][0] is None:
                    out.append(IV(None, ZERO))
                elif m[0] == "fix":
                    out.append(IV(None, m[1]))
                else:
                    out.append(pos[m[1]].shift(m[2]))
            return arr.fn(out)
        return Arr(dims, fn, kind=arr.kind)

    def adv_index(self, g, items, txt):
        """g[idx, ...] with integers and integer index arrays (numpy broadcasting of the indices)"""
        if len(items) != len(g.dims):
            raise Bad(f"{txt}: {len(items)} indices for {len(g.dims)} dimensions")
        vals = []
        for it in items:
            if isinstance(it, ast.Slice) or self.is_newaxis(it):
                raise Bad(f"{txt}: slices mixed with index arrays")
            v = self.ev(it)
            if isinstance(v, Rng):
                v = v.as_arr()
            if isinstance(v, Poly):
                if v.is_const() and v.constval() < 0:
                    raise Bad(f"{txt}: negative index")
                v = Arr([], (lambda p: (lambda pos: IV(None, p)))(v), kind="int")
            if not (isinstance(v, Arr) and v.kind == "int"):
                raise Bad(f"{txt}: index {ast.unparse(it)} is not an integer / index array")
            vals.append(v)
        dims = bdims([v.dims for v in vals])
        n = len(dims)
        lens = [L for _, L in g.dims]

        def fn(pos):
            ivs = [v.fn(subpos(pos, v.dims, n)) for v in vals]
            for iv, L in zip(ivs, lens):
                span = (N({v: k for k, v in VAR.items()}[iv.var]) - ONE) if iv.var else ZERO
                if not (nonneg(iv.off) and nonneg(L - ONE - iv.off - span)):
                    raise Bad(f"{txt}: index {riv(iv)} out of range 0..{L - ONE}")
            return g.fn(ivs)
        out = Arr(dims, fn, kind=g.kind)
        out.generic()                                   # bounds are checked now
        return out

    # ---- calls
    def ev_Call(self, node):
        f = node.func
        if isinstance(f, ast.Attribute) and isinstance(f.value, ast.Name) and f.value.id == "np":
            return self.np_call(f.attr, node)
        if isinstance(f, ast.Name) and f.id == "csr_array":
            return self.csr(node)
        if isinstance(f, ast.Name) and f.id == "int_range":
            if node.keywords or len(node.args) != 2:
                raise Bad("int_range arguments")
            a, b = self.ev(node.args[0]), self.ev(node.args[1])
            if not (isinstance(a, Poly) and isinstance(b, Poly)):
                raise Bad("int_range of non-integers")
            if not nonneg(b - a):
                raise Bad(f"int_range({a}, {b}) may be empty (raises)")
            return Rng(a, b - a + ONE)
        if isinstance(f, ast.Attribute) and f.attr == "copy" and not node.args and not node.keywords:
            v = self.ev(f.value)
            if isinstance(v, Arr) and v.kind == "num":
                return v            # `x.copy()` / a value: arrays are immutable values here (no in-place store to them)
            raise Bad(".copy() of a non-array")
        if isinstance(f, ast.Attribute) and f.attr in ("ravel", "item") and not node.args and not node.keywords:
            v = self.ev(f.value)
            if not isinstance(v, Arr):
                raise Bad(f".{f.attr}() of a non-array")
            if f.attr == "item":
                if v.real_dims() or v.kind != "num":
                    raise Bad(f".item() of an array of shape {v.shape()}")
                return scalar(v.generic())
            real = v.real_dims()
            keep = [n for n, d in enumerate(v.dims) if d[0] is not None]
            dims0 = v.dims

            def fn(pos, v=v):
                full = [IV(None, ZERO)] * len(dims0)
                for n, p in zip(keep, pos):
                    full[n] = p
                return v.fn(full)
            return Arr(real, fn if not v.raveled else v.fn, kind=v.kind, raveled=True)
        if isinstance(f, ast.Attribute) and f.attr == "cell_numbers" and not node.args and not node.keywords:
            b = self.ev(f.value)
            if isinstance(b, Ref) and b.what[0] == "mesh":
                return self.cell_numbers()
        r = self.local_helper(node)
        if r is not None:
            return r[0]
        raise Bad(f"call {ast.unparse(f)[:40]}")

    # ---- pure local helpers (the extract-function refactoring; resolution / checks / binding shared with tnum.py)
    def local_helper(self, node):
        """(value,) of a call of a module-level function of boundary.py (or one imported from another module of the
        package), interpreted inline on the same path; None when the call is not such a call"""
        f = node.func
        if not isinstance(f, ast.Name) or self.modname is None:
            return None
        if f.id in self.env or f.id in self.locals or (not self.is_helper and f.id in (self.bc, self.phi)):
            return None
        r = tnum.resolve_helper(self.modname, f.id)
        if r is None:
            return None
        return (self.call_helper(r[0], r[1], node),)

    def sub_run(self, fn, modname):
        """interpreter for the body of a helper: fresh environment, the SAME path (oracle, path condition, branch
        context, guards are shared objects), so a value it computes is attributed to the branch the call stands in"""
        r = Run.__new__(Run)
        r.mesh, r.cls, r.fn, r.role, r.nd = self.mesh, self.cls, fn, self.role, self.nd
        r.oracle, r.trace, r.pc = self.oracle, self.trace, self.pc
        r.env, r.ctx, r.guards = {}, self.ctx, self.guards
        r.result, r.raised = None, None
        r.inert = tinert.analysis(fn)
        r.phi, r.bc = None, None
        r.init_scope(fn)
        r.is_helper, r.modname, r.hstack = True, modname, self.hstack + [self.fn]
        return r

    def call_helper(self, fn, modname, node):
        nm = getattr(fn, "name", "?")
        tnum.check_helper_def(fn)
        chain = [f.name for f in self.hstack + [self.fn]]
        if fn is self.fn or any(f is fn for f in self.hstack):
            raise Bad(f"helper {nm} is recursive ({' > '.join(chain + [nm])})")
        if len(self.hstack) >= tnum.HELPER_DEPTH:
            raise Bad(f"helper calls nested deeper than {tnum.HELPER_DEPTH} ({' > '.join(chain + [nm])})")
        bound = tnum.bind_call(fn, node, self.ev, lambda e: self.sub_run(fn, modname).ev(e))
        for v in bound.values():
            if isinstance(v, (Sl, Mat, Ghosted1D)):
                raise Bad(f"call of {nm}: argument kind {type(v).__name__}")
        sub = self.sub_run(fn, modname)
        sub.env.update(bound)
        bcs = [p for p, v in bound.items() if isinstance(v, Ref) and v.what[0] == "BC"]
        sub.bc = bcs[0] if len(bcs) == 1 else None          # the name the tests `<BC>.left.periodic` may use
        try:
            sub.block(fn.body)
        except Bad as ex:
            raise Bad(f"{nm}: {ex}")
        if sub.result is None:
            raise Bad(f"{nm}: no return")
        tnum.note_inlined(chain[0], modname, fn)
        return sub.result

    def cell_numbers(self):
        fn = self.mesh.method(self.cls, "cell_numbers")
        g = tnum.Interp(self.mesh, self.cls, None).run(fn)
        if isinstance(g, tnum.Range):
            if self.nd != 1 or g.n != N("x") + Poly.const(2):
                raise Bad("cell_numbers: 1-D range is not 0..Nx+1")
            return Rng(ZERO, g.n)
        if not (isinstance(g, tnum.Arr) and g.kind == "G" and len(g.dims) == self.nd):
            raise Bad("cell_numbers: unexpected result")
        if [L for _, L in g.dims] != list(self.ghosted_shape()) or [a for a, _ in g.dims] != self.axes():
            raise Bad("cell_numbers: shape is not the ghosted shape")
        probe = [("p", 0), ("q", 0), ("r", 0)][:self.nd]
        if tuple(g.fn(probe)) != tuple(probe):
            raise Bad("cell_numbers: not the C-order numbering of the ghosted box")
        return Arr([(a, L) for a, L in zip(self.axes(), self.ghosted_shape())], lambda pos: tuple(pos), kind="G")

    def np_call(self, name, node):
        args = node.args
        if name in ("zeros", "empty"):
            kws = {k.arg: k.value for k in node.keywords}
            if len(args) != 1 or set(kws) - {"dtype"}:
                raise Bad(f"np.{name} arguments")
            if "dtype" in kws and not (isinstance(kws["dtype"], ast.Name) and kws["dtype"].id in ("int", "float")):
                raise Bad(f"np.{name} dtype")
            shp = self.ev(args[0])
            if isinstance(shp, Poly):
                shp = (shp,)
            elif isinstance(shp, Tup) and all(isinstance(s, Poly) for s in shp.items):
                shp = tuple(shp.items)
            else:
                raise Bad(f"np.{name} shape")
            z = ZArr(shp, name)
            self.created.append(z)
            return z
        if node.keywords:
            raise Bad(f"np.{name} with keywords")
        if name == "arange" and len(args) in (1, 2):
            # np.arange(a, b) = a .. b-1 = int_range(a, b-1); np.arange(b) = 0 .. b-1 (integers only, no step)
            a = ZERO if len(args) == 1 else self.ev(args[0])
            b = self.ev(args[-1])
            if not (isinstance(a, Poly) and isinstance(b, Poly)):
                raise Bad("np.arange of non-integers")
            if not nonneg(b - a - ONE):
                raise Bad(f"np.arange({a}, {b}) may be empty")
            return Rng(a, b - a)
        if name == "sin" and len(args) == 1:
            v = self.as_num(self.ev(args[0]))

            def sin(pos):
                e = v.fn(pos)
                if e[0] == "leaf" and e[1] == "cen" and e[2] == "y":
                    return ("leaf", "sinC", "y", e[3])
                raise Bad("np.sin of something else than the θ centres (cellcenters._y)")
            out = Arr(v.dims, sin, raveled=v.raveled)
            out.generic()
            return out
        if name == "max" and len(args) == 1:
            v = self.as_num(self.ev(args[0]))
            return MaxOf(v)
        if name == "size" and len(args) == 1:
            v = self.ev(args[0])
            if isinstance(v, CellSet):
                return v.size
            raise Bad("np.size of something else than the edge / corner cells")
        if name in ("hstack", "concatenate") and len(args) == 1 and isinstance(args[0], (ast.List, ast.Tuple)):
            if self.role != GHOST or self.nd != 1:
                raise Bad(f"np.{name} outside the 1-D ghost function")
            elts = list(args[0].elts)
            if name == "concatenate":
                # np.concatenate (default axis, no keywords) of 1-D blocks = np.hstack; it refuses 0-d operands, so a
                # scalar must be wrapped as a one-element list `[s]` (np.hstack does that itself with atleast_1d)
                for n, e in enumerate(elts):
                    if isinstance(e, (ast.List, ast.Tuple)) and len(e.elts) == 1:
                        inner = self.ev(e.elts[0])
                        if not (isinstance(inner, Arr) and inner.kind == "num" and not inner.dims):
                            raise Bad("np.concatenate: a one-element list of a non-scalar")
                        elts[n] = e.elts[0]
                    else:
                        v = self.ev(e)
                        if not (isinstance(v, Arr) and v.kind == "num" and len(v.real_dims()) == 1 and len(v.dims) == 1):
                            raise Bad("np.concatenate: operand is neither a 1-D array nor a one-element list `[scalar]`")
            parts = [self.ev(e) for e in elts]
            if len(parts) != 3 or not all(isinstance(p, Arr) and p.kind == "num" for p in parts):
                raise Bad("np.hstack: expected [scalar, phi, scalar]")
            lo, mid, hi = parts
            if lo.dims or hi.dims or mid.dims != self.interior_dims():
                raise Bad("np.hstack: expected [scalar, interior array, scalar]")
            ctx = tuple(self.ctx)
            return Ghosted1D({"lo": (lo.generic(), ctx), "int": (mid.generic(), ctx), "hi": (hi.generic(), ctx)})
        raise Bad(f"call np.{name}")

    def csr(self, node):
        # csr_array(arg1, shape=None, ...): the shape is the keyword `shape` or the second positional argument
        if len(node.args) == 2 and not node.keywords:
            shp_node = node.args[1]
        elif len(node.args) == 1 and [k.arg for k in node.keywords] == ["shape"]:
            shp_node = node.keywords[0].value
        else:
            raise Bad("csr_array: expected csr_array((vals, (rows, cols)), shape=...)")
        a = self.ev(node.args[0])
        shp = self.ev(shp_node)
        if not (isinstance(a, Tup) and len(a.items) == 2 and isinstance(a.items[1], Tup) and len(a.items[1].items) == 2):
            raise Bad("csr_array: argument structure")
        vals, (rows, cols) = a.items[0], a.items[1].items
        for nm, v in (("values", vals), ("rows", rows), ("columns", cols)):
            if not isinstance(v, Sl):
                raise Bad(f"csr_array: {nm} are not a slice z[0:q] of a np.zeros array")
        if len({id(vals.z), id(rows.z), id(cols.z)}) != 3:
            raise Bad("csr_array: values / rows / columns are not three different arrays")
        g = self.ghosted_size()
        if not (isinstance(shp, Tup) and len(shp.items) == 2 and shp.items[0] == g and shp.items[1] == g):
            raise Bad(f"csr_array: shape is not (ghosted size, ghosted size) = {g}")
        return Mat(vals, rows, cols, g)


def class_test(mesh, t, is_domain, cls):
    """truth value of a test on the grid class (None: not such a test)"""
    def type_of_domain(n):
        return isinstance(n, ast.Call) and isinstance(n.func, ast.Name) and n.func.id == "type" \
            and len(n.args) == 1 and not n.keywords and is_domain(n.args[0])
    if isinstance(t, ast.Compare) and len(t.ops) == 1 and isinstance(t.ops[0], (ast.Is, ast.Eq)) \
            and type_of_domain(t.left) and isinstance(t.comparators[0], ast.Name):
        return cls == t.comparators[0].id
    if isinstance(t, ast.Call) and isinstance(t.func, ast.Name) and len(t.args) == 2 and not t.keywords \
            and isinstance(t.args[1], ast.Name):
        if (t.func.id == "issubclass" and type_of_domain(t.args[0])) or \
                (t.func.id == "isinstance" and is_domain(t.args[0])):
            return t.args[1].id in mesh.mro(cls)
    return None


# ---------------------------------------------------------------------------------------------------------
# analysis of one finished path
# ---------------------------------------------------------------------------------------------------------
def classify_cell(run, cell, what):
    """cell: tuple of IV -> (side (axis, lo|hi) or 'interior' or None, normalised)"""
    out = []
    for a, iv in zip(run.axes(), cell):
        if iv.var is None and iv.off == ZERO:
            out.append("lo")
        elif iv.var is None and iv.off == N(a) + ONE:
            out.append("hi")
        elif iv.var == VAR[a] and iv.off == ONE:
            out.append("int")
        else:
            raise Bad(f"{what}: component {riv(iv)} along {a} is neither 0, N+1 nor the range 1..N of that axis")
    return out


def label_of(ctx, axis, what):
    if len(ctx) != 1 or ctx[0][1] != axis:
        raise Bad(f"{what}: written outside the branch of the test on the flags of axis {axis}")
    return ctx[0][2]


def analyse_ghost(run):
    nd = run.nd
    res = run.result
    out = {"sides": {}, "guards": dict(run.guards)}
    if isinstance(res, Ghosted1D):
        e, ctx = res.regions["int"]
        out["interior"] = e
        for hl in ("lo", "hi"):
            e, ctx = res.regions[hl]
            out["sides"][("x", hl)] = (label_of(ctx, "x", f"{hl} ghost"), e)
        out["fill"] = None
        return out
    if not isinstance(res, ZArr):
        raise Bad("the result is not the ghosted array")
    if res.init != "zeros":
        raise Bad("the ghosted array is created with np.empty: the edge / corner cells, which no statement assigns, "
                  "would hold arbitrary memory (np.zeros is required)")
    if tuple(res.shape) != run.ghosted_shape():
        raise Bad("the ghosted array does not have the ghosted shape")
    if nd == 1:
        raise Bad("1-D ghost array built by item assignment")
    for idx, val, ctx, line in res.assigned:
        if idx[0] == "interior":
            if "interior" in out:
                raise Bad("interior assigned twice")
            if ctx:
                raise Bad("interior assigned inside a branch")
            if not (isinstance(val, Arr) and val.kind == "num" and val.dims == run.interior_dims()):
                raise Bad("the interior is not assigned an array of the interior shape")
            out["interior"] = val.generic()
            continue
        tgt = idx[1]
        cls = classify_cell(run, tgt.generic(), f"line {line}: target")
        outside = [(a, c) for a, c in zip(run.axes(), cls) if c != "int"]
        if len(outside) != 1:
            raise Bad(f"line {line}: the target is not a face-ghost region")
        side = outside[0]
        want = [(a, N(a)) for a in run.cross(side[0])]
        if tgt.real_dims() != want:
            raise Bad(f"line {line}: the target does not cover the whole side")
        if not (isinstance(val, Arr) and val.kind == "num") and not isinstance(val, Poly):
            raise Bad(f"line {line}: assigned value")
        val = run.as_num(val)
        if val.raveled:
            raise Bad(f"line {line}: raveled value assigned to an index-array target")
        dims = bdims([tgt.dims, val.dims])
        if len(val.dims) > len(tgt.dims) or dims != bdims([tgt.dims]):
            raise Bad(f"line {line}: value of shape {val.shape()} does not broadcast to the target {tgt.shape()}")
        n = len(dims)
        pos = [IV(VAR[a], ZERO) if a is not None else IV(None, ZERO) for a, _ in dims]
        e = val.fn(subpos(pos, val.dims, n))
        if side in out["sides"]:
            raise Bad(f"line {line}: the {SIDE_NAME[side]} ghosts are assigned twice")
        out["sides"][side] = (label_of(ctx, side[0], f"line {line}"), e)
    if "interior" not in out:
        raise Bad("the interior is never assigned")
    out["fill"] = ("num", Fraction(0))
    return out


def norm_block_value(run, v, ln, what):
    """value written into ln consecutive slots -> (real dims, generic element) ; scalars: ([], e)"""
    if isinstance(v, Poly):
        return [], v
    if isinstance(v, CellSet):
        if v.size != ln:
            raise Bad(f"{what}: {v.size} {v.name} cells written into {ln} slots")
        return None, v
    if isinstance(v, MaxOf):
        return [], v
    if not isinstance(v, Arr):
        raise Bad(f"{what}: value")
    real = v.real_dims()
    if real:
        if not v.raveled and any(d[0] is None for d in v.dims[-1:]):
            raise Bad(f"{what}: shape {v.shape()} does not fit a 1-D block")
        if not v.raveled and len(real) != 1:
            raise Bad(f"{what}: an unraveled {len(real)}-D array is written into a 1-D block")
        size = ONE
        for _, L in real:
            size = size * L
        if size != ln:
            raise Bad(f"{what}: {size} values written into {ln} slots")
    return real, v.generic()


def analyse_rows(run):
    nd = run.nd
    res = run.result
    if not (isinstance(res, Tup) and len(res.items) == 2 and isinstance(res.items[0], Mat)
            and isinstance(res.items[1], ZArr)):
        raise Bad("the result is not (csr_array(...), BCRHS)")
    mat, rhs = res.items
    if rhs.init != "zeros" or tuple(rhs.shape) != (run.ghosted_size(),):
        raise Bad("BCRHS is not np.zeros(ghosted size)")
    seqs = {}
    for role, sl in (("rows", mat.rows), ("cols", mat.cols), ("vals", mat.vals)):
        z = sl.z
        if z.init != "zeros" or len(z.shape) != 1:
            raise Bad(f"csr_array: the {role} array is not a 1-D np.zeros")
        seq = []
        for idx, val, ctx, line in z.assigned:
            if idx[0] == "poly":
                seq.append((idx[1], ONE, val, ctx, line))
            elif idx[0] == "rng":
                seq.append((idx[1], idx[2], val, ctx, line))
            else:
                raise Bad(f"line {line}: the {role} array is indexed by cells")
        end = ZERO
        for start, ln, val, ctx, line in seq:
            if start != end:
                raise Bad(f"line {line}: the {role} block starts at slot {start}, but the previous block ends at "
                          f"{end} ({'overlap' if nonneg(end - start) else 'gap'})")
            end = start + ln
        if sl.lo != ZERO or sl.hi != end:
            raise Bad(f"csr_array: the {role} slice {sl.lo}:{sl.hi} is not 0:{end} (the slots written)")
        if not nonneg(z.shape[0] - end):
            raise Bad(f"nb = {z.shape[0]} may be smaller than the {end} slots written")
        seqs[role] = seq
    if not (len(seqs["rows"]) == len(seqs["cols"]) == len(seqs["vals"])):
        raise Bad("rows / columns / values are written in different numbers of blocks")
    out = {"sides": {}, "guards": dict(run.guards), "special": {}}
    per_side = {}
    for (s1, l1, rv, c1, line), (s2, l2, cv, c2, _), (s3, l3, vv, c3, _) in zip(seqs["rows"], seqs["cols"], seqs["vals"]):
        if not (s1 == s2 == s3 and l1 == l2 == l3 and c1 == c2 == c3):
            raise Bad(f"line {line}: rows / columns / values of a block differ in position, length or branch")
        what = f"line {line}"
        rd, re_ = norm_block_value(run, rv, l1, what + " rows")
        cd, ce = norm_block_value(run, cv, l1, what + " columns")
        vd, ve = norm_block_value(run, vv, l1, what + " values")
        if isinstance(re_, CellSet):
            if not (isinstance(ce, CellSet) and ce.name == re_.name):
                raise Bad(f"{what}: the columns of the {re_.name} rows are not the {re_.name} cells themselves")
            if vd != [] or c1:
                raise Bad(f"{what}: {re_.name} coefficient")
            if re_.name in out["special"]:
                raise Bad(f"{what}: {re_.name} rows written twice")
            out["special"][re_.name] = ve
            continue
        if isinstance(ce, CellSet) or isinstance(ve, (CellSet,)):
            raise Bad(f"{what}: corner / edge cells in a side block")
        if nd == 1:
            if not (isinstance(re_, Poly) and isinstance(ce, Poly)):
                raise Bad(f"{what}: row / column of a 1-D block is not a cell number")
            rcell, ccell = (IV(None, re_),), (IV(None, ce),)
        else:
            if not (isinstance(rv, Arr) and rv.kind == "G" and isinstance(cv, Arr) and cv.kind == "G"):
                raise Bad(f"{what}: rows / columns are not cell numbers")
            rcell, ccell = re_, ce
        cls = classify_cell(run, rcell, what + " row")
        outside = [(a, c) for a, c in zip(run.axes(), cls) if c != "int"]
        if len(outside) != 1:
            raise Bad(f"{what}: the rows are not the ghost cells of one side")
        side = outside[0]
        d = side[0]
        want = [(a, N(a)) for a in run.cross(d)]
        if (rd or []) != want or (cd or []) != want:
            raise Bad(f"{what}: the block does not run over all ghost cells of the {SIDE_NAME[side]} side "
                      f"in C-order")
        if isinstance(ve, MaxOf):
            raise Bad(f"{what}: np.max in a side block")
        if isinstance(ve, Poly):
            ve = ("num", Fraction(ve.constval()))
        if vd not in ([], want):
            raise Bad(f"{what}: the values do not have the layout of the rows")
        for a, r, c in zip(run.axes(), rcell, ccell):
            if a == d:
                if c.var is not None or c.off not in (ZERO, ONE, N(a), N(a) + ONE):
                    raise Bad(f"{what}: column index {riv(c)} along {a} is not one of 0, 1, N, N+1")
            elif r != c:
                raise Bad(f"{what}: the column differs from the row across the side's axis")
        label = label_of(c1, d, what)
        ent = per_side.setdefault(side, {"label": label, "cell": rcell, "entries": []})
        if ent["label"] != label or ent["cell"] != rcell:
            raise Bad(f"{what}: blocks of the {SIDE_NAME[side]} side disagree")
        ent["entries"].append((ccell, ve))
    # right-hand side
    for idx, val, ctx, line in rhs.assigned:
        what = f"line {line} (BCRHS)"
        if idx[0] == "set":
            if not ((isinstance(val, Arr) and not val.dims and val.generic() == ("num", Fraction(0)))
                    or (isinstance(val, Poly) and val == ZERO)):
                raise Bad(f"{what}: the right-hand side of the {idx[1].name} rows is not 0")
            out["special"].setdefault(idx[1].name + "_rhs", 0)
            continue
        if idx[0] == "poly" and nd == 1:
            cell, rd = (IV(None, idx[1]),), []
        elif idx[0] == "cells":
            g = idx[1]
            if len(g.real_dims()) > 1 and not g.raveled:
                raise Bad(f"{what}: indexed by an unraveled block of cells")
            cell, rd = g.generic(), g.real_dims()
        else:
            raise Bad(f"{what}: index")
        cls = classify_cell(run, cell, what)
        outside = [(a, c) for a, c in zip(run.axes(), cls) if c != "int"]
        if len(outside) != 1:
            raise Bad(f"{what}: not the ghost cells of one side")
        side = outside[0]
        want = [(a, N(a)) for a in run.cross(side[0])]
        if rd != want:
            raise Bad(f"{what}: does not run over all ghost cells of the side")
        ent = per_side.get(side)
        if ent is None or ent["cell"] != cell:
            raise Bad(f"{what}: no matrix rows for these cells")
        if "rhs" in ent:
            raise Bad(f"{what}: assigned twice")
        if label_of(ctx, side[0], what) != ent["label"]:
            raise Bad(f"{what}: in another branch than the rows")
        if isinstance(val, Poly):
            e = ("num", Fraction(val.constval()))
        elif isinstance(val, Arr) and val.kind == "num":
            vd = val.real_dims()
            if vd and (vd != want or (len(vd) > 1 and not val.raveled)):
                raise Bad(f"{what}: value layout")
            e = val.generic()
        else:
            raise Bad(f"{what}: value")
        ent["rhs"] = e
    for side, ent in per_side.items():
        if "rhs" not in ent:
            raise Bad(f"the right-hand side of the {SIDE_NAME[side]} rows is never assigned")
        out["sides"][side] = (ent["label"], ent["cell"], ent["entries"], ent["rhs"])
    want_special = {1: set(), 2: {"corner", "corner_rhs"}, 3: {"corner", "corner_rhs", "edge", "edge_rhs"}}[nd]
    if set(out["special"]) != want_special:
        raise Bad(f"corner / edge rows: found {sorted(out['special'])}, expected {sorted(want_special)}")
    return out


# ---------------------------------------------------------------------------------------------------------
# all paths, all classes of one function
# ---------------------------------------------------------------------------------------------------------
def explore(mesh, cls, fn, role):
    runs, stack = [], [[]]
    while stack:
        dec = stack.pop()
        r = Run(mesh, cls, fn, dec, role)
        r.go()
        runs.append(r)
        for k in range(len(dec), len(r.trace)):
            stack.append(r.trace[:k] + [not r.trace[k]])
        if len(runs) > 200:
            raise Bad("too many paths")
    return runs


def sig(x):
    """hashable, comparable text of a per-side result"""
    if isinstance(x, tuple) and x and isinstance(x[0], str) and x[0] in ("num", "leaf", "bc", "phi", "add", "sub", "mul",
                                                                       "div", "neg"):
        return render(x)
    if isinstance(x, IV):
        return riv(x)
    if isinstance(x, (tuple, list)):
        return "[" + "; ".join(sig(y) for y in x) + "]"
    if isinstance(x, MaxOf):
        return "max " + render(x.arr.generic())
    return str(x)


def translate(mesh, tree, name, role, classes):
    fns = [n for n in tree.body if isinstance(n, ast.FunctionDef) and n.name == name]
    if len(fns) != 1:
        raise Bad("function not found")
    fn = fns[0]
    merged = {"sides": {}, "guards": {}, "raises": [], "special": {}, "interior": None, "fill": None}
    for cls in classes:
        nd = NDIM[cls]
        seen = set()
        for r in explore(mesh, cls, fn, role):
            if r.raised:
                (_, axis, label), exc = r.raised
                merged["raises"].append((cls, axis, label, exc))
                seen.add((axis, label))
                for k, v in r.guards.items():
                    if merged["guards"].setdefault(k, v) != v:
                        raise Bad(f"guard of {k} differs between paths")
                continue
            res = analyse_ghost(r) if role == GHOST else analyse_rows(r)
            sides = {(a, hl) for a in AXES[:nd] for hl in ("lo", "hi")}
            if set(res["sides"]) != sides:
                missing = sorted(SIDE_NAME[s] for s in sides - set(res["sides"]))
                raise Bad(f"on some path the ghost cells of the sides {missing} get no value / rows")
            for side, val in res["sides"].items():
                key = (side, val[0])
                seen.add((side[0], val[0]))
                old = merged["sides"].setdefault(key, val)
                if sig(old) != sig(val):
                    raise Bad(f"the {SIDE_NAME[side]} {val[0]} result differs between paths / classes")
            for k, v in res["guards"].items():
                if merged["guards"].setdefault(k, v) != v:
                    raise Bad(f"guard of {k} differs between paths")
            for k in ("interior", "fill"):
                if role == GHOST:
                    if merged[k] is not None and sig(merged[k]) != sig(res[k]):
                        raise Bad(f"{k} differs between paths")
                    merged[k] = res[k]
            if role == ROWS:
                for k, v in res["special"].items():
                    if k in merged["special"] and sig(merged["special"][k]) != sig(v):
                        raise Bad(f"{k} differs between paths")
                    merged["special"][k] = v
        for a in AXES[:nd]:
            for label in ("nonper", "per"):
                if (a, label) not in seen:
                    raise Bad(f"class {cls}: no path reaches the {label} branch of axis {a}")
    # a (class, axis, branch) either raises on every path or never
    for cls, axis, label, exc in merged["raises"]:
        pass
    merged["nd"] = NDIM[classes[0]]
    if len({NDIM[c] for c in classes}) != 1:
        raise Bad("called for grids of different dimension")
    return merged


def dispatcher(mesh, tree, name):
    """[(class, function or None)] for the nine grid classes"""
    fns = [n for n in tree.body if isinstance(n, ast.FunctionDef) and n.name == name]
    if len(fns) != 1:
        raise Bad(f"dispatcher {name} not found")
    fn = fns[0]
    pars = [a.arg for a in tinert.effective_args(fn).args]
    body = [s for s in tinert.live_body(fn)
            if not (isinstance(s, ast.Expr) and isinstance(s.value, ast.Constant) and isinstance(s.value.value, str))]
    if len(body) != 1 or not isinstance(body[0], ast.If):
        raise Bad(f"dispatcher {name}: expected one if-chain")
    bcname = pars[-1]

    def is_domain(n):
        return ast.unparse(n) == f"{bcname}.domain"

    def test(t, cls):
        if isinstance(t, ast.BoolOp):
            vs = [test(v, cls) for v in t.values]
            return all(vs) if isinstance(t.op, ast.And) else any(vs)
        if isinstance(t, ast.UnaryOp) and isinstance(t.op, ast.Not):
            return not test(t.operand, cls)
        c = class_test(mesh, t, is_domain, cls)
        if c is None:
            raise Bad(f"dispatcher {name}: test {ast.unparse(t)}")
        return c

    out = []
    for cls in KIND:
        node, target = body[0], None
        while True:
            if test(node.test, cls):
                branch = node.body
            elif len(node.orelse) == 1 and isinstance(node.orelse[0], ast.If):
                node = node.orelse[0]
                continue
            else:
                branch = node.orelse
            if len(branch) == 1 and isinstance(branch[0], ast.Raise):
                target = None
            elif len(branch) == 1 and isinstance(branch[0], ast.Return) and isinstance(branch[0].value, ast.Call) \
                    and isinstance(branch[0].value.func, ast.Name) and not branch[0].value.keywords \
                    and [ast.unparse(a) for a in branch[0].value.args] == pars:
                target = branch[0].value.func.id
            elif not branch:
                target = None
            else:
                raise Bad(f"dispatcher {name}: branch for {cls}")
            break
        out.append((cls, target))
    return out


# ---------------------------------------------------------------------------------------------------------
# emission
# ---------------------------------------------------------------------------------------------------------
def cross_vars(nd, d):
    return [VAR[a] for a in AXES[:nd] if a != d]


def binder(vs):
    return f" ({' '.join(vs)} : ℕ)" if vs else ""


def emit_ghost(fam, m):
    nd = m["nd"]
    out = []
    if m["fill"] is not None:
        out.append(f"/-- cells that no statement of `{GHOST}{fam}` assigns (edges, corners) keep the `np.zeros` value -/\n"
                   f"def ghost_{fam}_fill : α := {fmt(m['fill'])}\n")
    vs = [VAR[a] for a in AXES[:nd]]
    out.append(f"def ghost_{fam}_interior (φ : CellFld α){binder(vs)} : α :=\n  {fmt(m['interior'])}\n")
    for (axis, label), txt in sorted(m["guards"].items()):
        out.append(f"def ghost_{fam}_{axis}_{label}_guard (bc : BCs α) : Bool :=\n  {strip_outer(txt)}\n")
    for (side, label), (_, e) in sorted(m["sides"].items(), key=lambda kv: (AXES.index(kv[0][0][0]), kv[0][0][1] == "lo", kv[0][1] == "per")):
        nm = f"ghost_{fam}_{SIDE_NAME[side]}_{label}"
        b = binder(cross_vars(nd, side[0]))
        out.append(f"def {nm} (M : Mesh α) (bc : BCs α) (φ : CellFld α){b} : α :=\n  {fmt(e)}\n")
        if label == "nonper" and e[0] == "div":
            out.append(f"def {nm}_den (M : Mesh α) (bc : BCs α){b} : α :=\n  {fmt(e[2])}\n")
    return out


def emit_rows(fam, m):
    nd = m["nd"]
    out = []
    sp = m["special"]
    if "corner" in sp:
        v = sp["corner"]
        if isinstance(v, MaxOf):
            arr = v.arr
            if arr.real_dims() != [("x", N("x"))]:
                raise Bad("np.max of something else than an array along x")
            out.append(f"/-- the diagonal of the four decoupled corner rows is the MAXIMUM over `i` of this term; their\n"
                       f"    right-hand side is 0 -/\n"
                       f"def bcrow_{fam}_corner_maxterm (M : Mesh α) (bc : BCs α) (i : ℕ) : α :=\n"
                       f"  {fmt(arr.generic())}\n")
        else:
            if isinstance(v, Poly):
                v = ("num", Fraction(v.constval()))
            out.append(f"/-- diagonal of the decoupled corner rows (right-hand side 0) -/\n"
                       f"def bcrow_{fam}_corner_coef : α := {fmt(v)}\n")
    if "edge" in sp:
        v = sp["edge"]
        if isinstance(v, (Poly,)):
            v = ("num", Fraction(v.constval()))
        if isinstance(v, MaxOf):
            raise Bad("np.max as edge coefficient")
        out.append(f"/-- diagonal of the decoupled edge rows (right-hand side 0) -/\n"
                   f"def bcrow_{fam}_edge_coef : α := {fmt(v)}\n")
    for (axis, label), txt in sorted(m["guards"].items()):
        out.append(f"def bcrow_{fam}_{axis}_{label}_guard (bc : BCs α) : Bool :=\n  {strip_outer(txt)}\n")
    cells = {}
    for (side, label), (_, cell, entries, rhs) in sorted(
            m["sides"].items(), key=lambda kv: (AXES.index(kv[0][0][0]), kv[0][0][1] == "lo", kv[0][1] == "per")):
        b = binder(cross_vars(nd, side[0]))
        sn = SIDE_NAME[side]
        if side not in cells:
            cells[side] = cell
            out.append(f"def bcrow_{fam}_{sn}_cell (M : Mesh α){b} : Idx := {ridx(cell)}\n")
        elif sig(cells[side]) != sig(cell):
            raise Bad(f"the rows of the {sn} side differ between the branches")
        ents = ",\n    ".join(f"({ridx(c)}, {fmt(e)})" for c, e in entries)
        out.append(f"def bcrow_{fam}_{sn}_{label} (M : Mesh α) (bc : BCs α){b} : Row α :=\n"
                   f"  ⟨[{ents}],\n   {fmt(rhs)}⟩\n")
    return out


HEADER = """/- GENERATED by harness/translate/tbc.py from boundary.py (and the class hierarchy / `cell_numbers` of mesh.py) — do not edit.
   Ghost-cell formulas of `cellValuesWithBoundaries*` and boundary rows of `boundaryConditionsTerm*` at the 0-based
   cross position of the side (i, j, k along x, y, z; model cell index = position + 1); proved equal to the model
   (PyFV/Model/BC.lean) in PyFV/Props/GenEqBC.lean. -/
import PyFV.Model.BC

set_option linter.unusedVariables false

namespace PyFV.Gen.BCGen

variable {α : Type} [Field α] [LinearOrder α] [IsStrictOrderedRing α]
"""


def generate(repo):
    tinert.set_repo(repo)
    src = os.path.join(repo, "src", "pyfvtool")

    def parse(f):
        return tnum.parse_module(src, f)
    status, out = {}, [HEADER]
    mesh = MeshInfo(parse("mesh.py"))
    tree = parse("boundary.py")
    raises = []
    for role, prefix, emit in ((GHOST, "ghost", emit_ghost), (ROWS, "bcrow", emit_rows)):
        out.append(f"/-! ### boundary.py: `{role}*` -/\n")
        try:
            disp = dispatcher(mesh, tree, role)
            status[role] = "ok"
        except Bad as ex:
            disp = None
            status[role] = f"untranslated: {ex}"
        for fam in FAMILIES:
            name = role + fam
            classes = [c for c, f in (disp or []) if f == name] or [NATURAL[fam]]
            try:
                m = translate(mesh, tree, name, role, classes)
                if role == GHOST and m["raises"]:
                    raise Bad("a ghost function raises")
                defs = emit(fam, m)
                out.extend(defs)
                raises.extend(m["raises"])
                status[name] = "ok"
            except Bad as ex:
                status[name] = f"untranslated: {ex}"
            except RecursionError:
                status[name] = "untranslated: recursion"
        if disp is not None:
            rows = [(KIND[c], f) for c, f in disp if f is not None]
            out.append(f"/-- grid class ↦ function called by `{role}` (classes for which it raises are absent) -/\n"
                       f"def dispatch_{role} : List (Kind × String) :=\n  ["
                       + ",\n   ".join(f'(.{k}, "{f}")' for k, f in rows) + "]\n")
    rs = []
    for cls, axis, label, exc in raises:
        item = f"(.{KIND[cls]}, .{axis}, \"{label}\")"
        if item not in rs:
            rs.append(item)
    out.append("/-- (grid class, axis, branch) for which `boundaryConditionsTerm*` raises instead of writing rows -/\n"
               "def bcrow_raises : List (Kind × Dir × String) :=\n  [" + ",\n   ".join(rs) + "]\n")
    bad = [k for k, v in status.items() if v != "ok"]
    out.append("def untranslated : List String := [" + ", ".join(f'"{k}"' for k in bad) + "]\n")
    out.append("end PyFV.Gen.BCGen\n")
    return "\n".join(out), status


def main():
    repo = os.environ.get("VERIF_REPO", "/repo")
    dst = sys.argv[1]
    text, status = generate(repo)
    status = tnum.annotate_helpers(tinert.annotate(status))
    write_if_changed(dst, text)
    base = os.path.splitext(os.path.basename(dst))[0].lower()
    write_if_changed(os.path.join(os.path.dirname(os.path.abspath(dst)), f"{base}_status.json"),
                     json.dumps(status, indent=1, sort_keys=True) + "\n")
    print(json.dumps(status))


if __name__ == "__main__":
    main()
