#!/usr/bin/env python3
"""T-ops: translate the operator dunder methods of CellVariable (cell.py) and FaceVariable (face.py)
into a Lean table `method ↦ (operation, operand order, result BCs)` (PyFV/Gen/Operators.lean).

Each dunder has the shape
    if type(other) is X:  return X(self.domain, <expr(self.value, other.value)>, deepcopy(self.BCs))
    else:                 return X(self.domain, <expr(self.value, other)>,       deepcopy(self.BCs))
The translator extracts, for both branches, the numpy-level operation, which operand comes first,
whether the first constructor argument is `self.domain`, and (CellVariable) whether the boundary
conditions argument is `deepcopy(self.BCs)`.  Anything else becomes `untranslated`.
"""
import ast, sys, os, json

OPS = {ast.Add: "add", ast.Sub: "sub", ast.Mult: "mul", ast.Div: "div", ast.Pow: "pow",
       ast.Gt: "gt", ast.GtE: "ge", ast.Lt: "lt", ast.LtE: "le"}
CALLS = {"logical_and": "land", "logical_or": "lor", "abs": "abs"}


class Bad(Exception):
    pass


def operand(node, cls):
    """'self' | 'other' for the value expressions self.value / self._xvalue / other.value / other"""
    if isinstance(node, ast.Attribute) and isinstance(node.value, ast.Name):
        if node.attr in ("value", "_xvalue", "_yvalue", "_zvalue") and node.value.id in ("self", "other"):
            return node.value.id
    if isinstance(node, ast.Name) and node.id == "other":
        return "other"
    raise Bad(f"operand {ast.dump(node)[:60]}")


def expr_op(node, cls):
    """(op, order) with order 'so' (self first), 'os' (other first), 's' (unary)"""
    if isinstance(node, ast.BinOp) and type(node.op) in OPS:
        a, b = operand(node.left, cls), operand(node.right, cls)
        return OPS[type(node.op)], ("so" if (a, b) == ("self", "other") else "os" if (a, b) == ("other", "self") else "??")
    if isinstance(node, ast.Compare) and len(node.ops) == 1 and type(node.ops[0]) in OPS:
        a, b = operand(node.left, cls), operand(node.comparators[0], cls)
        return OPS[type(node.ops[0])], ("so" if (a, b) == ("self", "other") else "os" if (a, b) == ("other", "self") else "??")
    if isinstance(node, ast.UnaryOp) and isinstance(node.op, ast.USub):
        if operand(node.operand, cls) == "self":
            return "neg", "s"
    if isinstance(node, ast.Call) and isinstance(node.func, ast.Attribute) and isinstance(node.func.value, ast.Name) \
            and node.func.value.id == "np" and node.func.attr in CALLS:
        args = [operand(a, cls) for a in node.args]
        if args == ["self"]:
            return CALLS[node.func.attr], "s"
        if args == ["self", "other"]:
            return CALLS[node.func.attr], "so"
        if args == ["other", "self"]:
            return CALLS[node.func.attr], "os"
    raise Bad(f"expression {ast.dump(node)[:80]}")


def ret_info(ret, cls):
    call = ret.value
    if not (isinstance(call, ast.Call) and isinstance(call.func, ast.Name) and call.func.id == cls):
        raise Bad("does not return a new object of its own class")
    args = call.args
    dom = isinstance(args[0], ast.Attribute) and isinstance(args[0].value, ast.Name) and args[0].value.id == "self" and args[0].attr == "domain"
    if cls == "CellVariable":
        if len(args) != 3:
            raise Bad("CellVariable(...) arity")
        op, order = expr_op(args[1], cls)
        b = args[2]
        bcs = (isinstance(b, ast.Call) and isinstance(b.func, ast.Name) and b.func.id == "deepcopy" and len(b.args) == 1
               and isinstance(b.args[0], ast.Attribute) and isinstance(b.args[0].value, ast.Name)
               and b.args[0].value.id == "self" and b.args[0].attr == "BCs")
        return op, order, dom, "deepcopySelf" if bcs else "other"
    else:
        if len(args) != 4:
            raise Bad("FaceVariable(...) arity")
        infos = [expr_op(a, cls) for a in args[1:]]
        if len(set(infos)) != 1:
            raise Bad("components use different operations")
        # each component must use its own array
        return infos[0][0], infos[0][1], dom, "none"


def method_info(fn, cls):
    rets = []
    body = [s for s in fn.body if not (isinstance(s, ast.Expr) and isinstance(s.value, ast.Constant))]
    if len(body) == 1 and isinstance(body[0], ast.Return):
        r = ret_info(body[0], cls)
        return r, r
    if len(body) == 1 and isinstance(body[0], ast.If):
        node = body[0]
        t = node.test
        ok = (isinstance(t, ast.Compare) and isinstance(t.left, ast.Call) and isinstance(t.left.func, ast.Name) and t.left.func.id == "type"
              and isinstance(t.ops[0], ast.Is) and isinstance(t.comparators[0], ast.Name) and t.comparators[0].id == cls)
        if ok and len(node.body) == 1 and isinstance(node.body[0], ast.Return) and len(node.orelse) == 1 and isinstance(node.orelse[0], ast.Return):
            return ret_info(node.body[0], cls), ret_info(node.orelse[0], cls)
    raise Bad("unexpected method shape")


DUNDERS = ["__add__", "__radd__", "__sub__", "__rsub__", "__mul__", "__rmul__", "__truediv__", "__rtruediv__", "__neg__", "__pow__", "__rpow__",
           "__gt__", "__ge__", "__lt__", "__le__", "__and__", "__or__", "__abs__"]


def generate(repo):
    out = ["/- GENERATED by harness/translate/tops.py from cell.py and face.py — do not edit. -/",
           "namespace PyFV.Gen.Ops", "",
           "/-- (operation, operand order: so = self∘other, os = other∘self, s = unary, result domain is self.domain, result BCs) -/",
           "structure OpInfo where", "  op : String", "  order : String", "  selfDomain : Bool", "  bcs : String", "  deriving DecidableEq, Repr", ""]
    status = {}
    for cls, path in (("CellVariable", "src/pyfvtool/cell.py"), ("FaceVariable", "src/pyfvtool/face.py")):
        tree = ast.parse(open(os.path.join(repo, path)).read())
        cdef = [n for n in tree.body if isinstance(n, ast.ClassDef) and n.name == cls][0]
        methods = {n.name: n for n in cdef.body if isinstance(n, ast.FunctionDef)}
        rows_var, rows_other = [], []
        for d in DUNDERS:
            key = f"{cls}.{d}"
            if d not in methods:
                status[key] = "missing"
                continue
            try:
                a, b = method_info(methods[d], cls)
                rows_var.append((d, a)); rows_other.append((d, b))
                status[key] = "ok"
            except Bad as ex:
                status[key] = f"untranslated: {ex}"
        short = "cell" if cls == "CellVariable" else "face"
        for nm, rows in (("Var", rows_var), ("Other", rows_other)):
            out.append(f"/-- {cls}: operand `other` is a {('variable of the same class' if nm == 'Var' else 'scalar / ndarray')} -/")
            out.append(f"def {short}{nm} : List (String × OpInfo) :=\n  [" + ",\n   ".join(
                f'("{d}", ⟨"{i[0]}", "{i[1]}", {"true" if i[2] else "false"}, "{i[3]}"⟩)' for d, i in rows) + "]\n")
        out.append(f"def {short}Untranslated : List String := [" + ", ".join(f'"{k}"' for k, v in status.items() if k.startswith(cls) and v != "ok") + "]\n")
    out.append("end PyFV.Gen.Ops\n")
    return "\n".join(out), status


def main():
    repo = os.environ.get("VERIF_REPO", "/repo")
    dst = sys.argv[1]
    text, status = generate(repo)
    old = open(dst).read() if os.path.exists(dst) else None
    if old != text:
        with open(dst, "w") as f:
            f.write(text)
    print(json.dumps(status))


if __name__ == "__main__":
    main()
