#!/usr/bin/env python3
"""T-ops: translate the operator dunder methods of CellVariable (cell.py) and FaceVariable (face.py)
into a Lean table `method ↦ (operation, operand order, result BCs)` (PyFV/Gen/Operators.lean).

Each dunder has the shape
    if type(other) is X:  return X(self.domain, <expr(self.value, other.value)>, deepcopy(self.BCs))
    else:                 return X(self.domain, <expr(self.value, other)>,       deepcopy(self.BCs))
The translator extracts, for both branches, the numpy-level operation, which operand comes first,
whether the first constructor argument is `self.domain`, and (CellVariable) whether the boundary
conditions argument is `deepcopy(self.BCs)`.  Anything else becomes `untranslated`.

The method body is EVALUATED twice by a small symbolic executor, once under the assumption "the operand is a variable
of the same class" and once under "it is not", so that behaviour-preserving spellings give the same table:
  * any name for the operand parameter; docstrings, comments, `pass`;
  * straight-line local temporaries (`res = self.value - other.value`), substituted;
  * the class test `type(o) is C`, `type(o) == C`, `C is type(o)`, `o.__class__ is C`, `isinstance(o, C)` (the package
    has no subclasses of the variable classes), their negations (`is not`, `!=`, `not (...)`) with the branches
    swapped, `if T: return A` followed by `return B`, and the conditional expression `a if T else b`;
  * delegation to another dunder of the same class (`return self.__add__(other)`, `return self + other`,
    `return -self`, `return abs(self)`): the callee is evaluated in place (depth ≤ 3);
  * `np.negative`, `np.abs / np.absolute / abs`, `np.add / subtract / multiply / divide / true_divide / power`,
    `np.greater / greater_equal / less / less_equal`, `np.logical_and / logical_or`;
  * a comparison written the other way round (`other <= self.value` for `self.value >= other`) is normalised to
    "self first";
  * `deepcopy(self.BCs)` or `copy.deepcopy(self.BCs)`; the keyword `BCsTerm_precalc=True` (its default).
Checked in addition (a violation is `untranslated`): the variable branch reads the operand's array (`other.value`,
`other._xvalue` …) and the other branch the bare operand; every FaceVariable component uses its own array
(`_xvalue` for the first, `_yvalue` for the second, `_zvalue` for the third) on both operands.
"""
import ast, sys, os, json, copy

OPS = {ast.Add: "add", ast.Sub: "sub", ast.Mult: "mul", ast.Div: "div", ast.Pow: "pow",
       ast.Gt: "gt", ast.GtE: "ge", ast.Lt: "lt", ast.LtE: "le"}
CALLS = {"logical_and": "land", "logical_or": "lor", "abs": "abs", "absolute": "abs", "negative": "neg",
         "add": "add", "subtract": "sub", "multiply": "mul", "divide": "div", "true_divide": "div", "power": "pow",
         "greater": "gt", "greater_equal": "ge", "less": "lt", "less_equal": "le"}
UNARY = {"abs", "neg"}
FLIP = {"gt": "lt", "ge": "le", "lt": "gt", "le": "ge"}
BIN_DUNDER = {ast.Add: "add", ast.Sub: "sub", ast.Mult: "mul", ast.Div: "truediv", ast.Pow: "pow", ast.BitAnd: "and", ast.BitOr: "or"}
CMP_DUNDER = {ast.Gt: "gt", ast.GtE: "ge", ast.Lt: "lt", ast.LtE: "le"}
COMPONENTS = ("_xvalue", "_yvalue", "_zvalue")


import os as _os, sys as _sys
_sys.path.insert(0, _os.path.dirname(_os.path.abspath(__file__)))
import tinert

class Bad(Exception):
    pass


# ------------------------------------------------------------------ symbolic evaluation of a method body

class SelfRef:
    """marker nodes of the evaluated expressions"""


def is_name(node, name):
    return isinstance(node, ast.Name) and node.id == name


class Ctx:
    def __init__(self, cls, methods, other, assume_var, depth=0, inert=None):
        self.cls, self.methods, self.other, self.assume_var, self.depth = cls, methods, other, assume_var, depth
        self.inert = inert
        self.env = {}

    # -- class test: True (operand is a variable of class cls) / False / None (not a class test)
    def class_test(self, t):
        if isinstance(t, ast.UnaryOp) and isinstance(t.op, ast.Not):
            r = self.class_test(t.operand)
            return None if r is None else (not r)
        if isinstance(t, ast.Compare) and len(t.ops) == 1:
            op, l, r = t.ops[0], t.left, t.comparators[0]
            if isinstance(op, (ast.Is, ast.Eq, ast.IsNot, ast.NotEq)):
                pos = isinstance(op, (ast.Is, ast.Eq))
                for a, b in ((l, r), (r, l)):
                    if self.is_type_of_other(a) and is_name(b, self.cls):
                        return self.assume_var if pos else (not self.assume_var)
        if isinstance(t, ast.Call) and is_name(t.func, "isinstance") and len(t.args) == 2 and not t.keywords:
            if self.is_other(t.args[0]) and is_name(t.args[1], self.cls):
                return self.assume_var
        return None

    def is_other(self, node):
        node = self.resolve(node)
        return self.other is not None and is_name(node, self.other)

    def is_type_of_other(self, node):
        node = self.resolve(node)
        if isinstance(node, ast.Call) and is_name(node.func, "type") and len(node.args) == 1 and not node.keywords:
            return self.is_other(node.args[0])
        if isinstance(node, ast.Attribute) and node.attr == "__class__":
            return self.is_other(node.value)
        return False

    def resolve(self, node):
        """a local temporary stands for the expression it was assigned"""
        seen = 0
        while isinstance(node, ast.Name) and node.id in self.env and seen < 50:
            node = self.env[node.id]
            seen += 1
        return node

    def subst(self, node):
        """expression with temporaries substituted and class tests / conditional expressions decided"""
        if isinstance(node, ast.Name):
            if node.id in self.env:
                return self.env[node.id]
            return node
        if isinstance(node, ast.IfExp):
            r = self.class_test(node.test)
            if r is None:
                raise Bad("conditional expression on something else than the class of the operand")
            return self.subst(node.body if r else node.orelse)
        new = copy.copy(node)
        for field, val in ast.iter_fields(node):
            if isinstance(val, ast.AST):
                setattr(new, field, self.subst(val))
            elif isinstance(val, list):
                setattr(new, field, [self.subst(v) if isinstance(v, ast.AST) else v for v in val])
        return new

    def run(self, stmts):
        """-> the returned expression (substituted) of the path taken under the assumption"""
        for st in stmts:
            if isinstance(st, ast.Expr) and isinstance(st.value, ast.Constant):
                continue
            if self.inert is not None and self.inert.skip(st):
                continue        # print / warn / assert / pure validation guard: no effect on what is returned (tinert.py)
            if isinstance(st, ast.Pass):
                continue
            if isinstance(st, ast.Assign) and len(st.targets) == 1 and isinstance(st.targets[0], ast.Name):
                nm = st.targets[0].id
                if nm in ("self", self.other):
                    raise Bad("operand re-bound")
                self.env[nm] = self.subst(st.value)
                continue
            if isinstance(st, ast.Return):
                if st.value is None:
                    raise Bad("bare return")
                return self.subst(st.value)
            if isinstance(st, ast.If):
                r = self.class_test(st.test)
                if r is None:
                    raise Bad("`if` on something else than the class of the operand")
                saved = dict(self.env)
                out = self.run(st.body if r else st.orelse)
                if out is not None:
                    return out
                # the branch taken fell through: continue after the `if` with its bindings
                continue
            raise Bad(f"statement {type(st).__name__}")
        return None


def operand(node, other):
    """('self'|'other', attribute or None)"""
    if isinstance(node, ast.Attribute) and isinstance(node.value, ast.Name):
        if node.attr in ("value",) + COMPONENTS and (node.value.id == "self" or node.value.id == other):
            return ("self" if node.value.id == "self" else "other"), node.attr
    if other is not None and is_name(node, other):
        return "other", None
    raise Bad(f"operand {ast.dump(node)[:60]}")


def expr_op(node, other):
    """(op, order, [(who, attr), …]) with order 'so' (self first), 'os' (other first), 's' (unary)"""
    def binary(op, l, r):
        a, b = operand(l, other), operand(r, other)
        order = "so" if (a[0], b[0]) == ("self", "other") else "os" if (a[0], b[0]) == ("other", "self") else "??"
        if order == "os" and op in FLIP:        # `other <= self` is `self >= other`
            op, order = FLIP[op], "so"
        return op, order, [a, b]
    if isinstance(node, ast.BinOp) and type(node.op) in OPS:
        return binary(OPS[type(node.op)], node.left, node.right)
    if isinstance(node, ast.Compare) and len(node.ops) == 1 and type(node.ops[0]) in OPS:
        return binary(OPS[type(node.ops[0])], node.left, node.comparators[0])
    if isinstance(node, ast.UnaryOp) and isinstance(node.op, ast.USub):
        a = operand(node.operand, other)
        if a[0] == "self":
            return "neg", "s", [a]
    if isinstance(node, ast.Call) and not node.keywords:
        f = node.func
        nm = None
        if isinstance(f, ast.Attribute) and isinstance(f.value, ast.Name) and f.value.id in ("np", "numpy") and f.attr in CALLS:
            nm = CALLS[f.attr]
        elif is_name(f, "abs"):
            nm = "abs"
        if nm is not None:
            args = [operand(a, other) for a in node.args]
            if nm in UNARY:
                if len(args) == 1 and args[0][0] == "self":
                    return nm, "s", args
            elif len(args) == 2:
                return binary(nm, node.args[0], node.args[1])
    raise Bad(f"expression {ast.dump(node)[:80]}")


def is_self_attr(node, attr):
    return isinstance(node, ast.Attribute) and isinstance(node.value, ast.Name) and node.value.id == "self" and node.attr == attr


def is_deepcopy_self_bcs(b):
    if not (isinstance(b, ast.Call) and len(b.args) == 1 and not b.keywords and is_self_attr(b.args[0], "BCs")):
        return False
    f = b.func
    return is_name(f, "deepcopy") or (isinstance(f, ast.Attribute) and is_name(f.value, "copy") and f.attr == "deepcopy")


def delegated(call, cx):
    """name of the dunder of the same class the returned expression calls on (self, operand), or None"""
    other = cx.other
    if isinstance(call, ast.Call) and isinstance(call.func, ast.Attribute) and is_name(call.func.value, "self") \
            and call.func.attr.startswith("__") and call.func.attr.endswith("__") and not call.keywords:
        if (len(call.args) == 1 and other is not None and is_name(call.args[0], other)) or (len(call.args) == 0):
            return call.func.attr, len(call.args)
    if isinstance(call, ast.BinOp) and type(call.op) in BIN_DUNDER and is_name(call.left, "self") and other is not None and is_name(call.right, other):
        return f"__{BIN_DUNDER[type(call.op)]}__", 1
    if isinstance(call, ast.Compare) and len(call.ops) == 1 and type(call.ops[0]) in CMP_DUNDER and is_name(call.left, "self") \
            and other is not None and is_name(call.comparators[0], other):
        return f"__{CMP_DUNDER[type(call.ops[0])]}__", 1
    if isinstance(call, ast.UnaryOp) and isinstance(call.op, ast.USub) and is_name(call.operand, "self"):
        return "__neg__", 0
    if isinstance(call, ast.Call) and is_name(call.func, "abs") and len(call.args) == 1 and not call.keywords and is_name(call.args[0], "self"):
        return "__abs__", 0
    return None


def ret_info(call, cx):
    cls, other = cx.cls, cx.other
    d = delegated(call, cx)
    if d is not None:
        name, nargs = d
        if cx.depth >= 3:
            raise Bad("delegation too deep")
        if name not in cx.methods:
            raise Bad(f"delegates to {name}, which does not exist")
        return eval_method(cx.methods[name], cls, cx.methods, cx.assume_var, cx.depth + 1, expect_args=nargs)
    if not (isinstance(call, ast.Call) and isinstance(call.func, ast.Name) and call.func.id == cls):
        raise Bad("does not return a new object of its own class")
    args = call.args
    if any(isinstance(a, ast.Starred) for a in args):
        raise Bad("starred constructor argument")
    for kw in call.keywords:
        if not (cls == "CellVariable" and kw.arg == "BCsTerm_precalc" and isinstance(kw.value, ast.Constant) and kw.value.value is True):
            raise Bad(f"constructor keyword {kw.arg}")
    if not args:
        raise Bad("constructor without arguments")
    dom = is_self_attr(args[0], "domain")
    want_attr = cx.assume_var       # the variable branch reads the operand's array, the other branch the bare operand

    def check_operands(ops_, comp):
        for who, attr in ops_:
            if who == "self":
                if attr != comp:
                    raise Bad(f"component built from self.{attr}, expected self.{comp}")
            else:
                if want_attr and attr != comp:
                    raise Bad(f"variable branch reads the operand as {('.' + attr) if attr else 'a bare value'}, expected .{comp}")
                if not want_attr and attr is not None:
                    raise Bad(f"non-variable branch reads .{attr} of the operand")
    if cls == "CellVariable":
        if len(args) != 3:
            raise Bad("CellVariable(...) arity")
        op, order, ops_ = expr_op(args[1], other)
        check_operands(ops_, "value")
        return op, order, dom, "deepcopySelf" if is_deepcopy_self_bcs(args[2]) else "other"
    else:
        if len(args) != 4:
            raise Bad("FaceVariable(...) arity")
        infos = []
        for a, comp in zip(args[1:], COMPONENTS):
            op, order, ops_ = expr_op(a, other)
            check_operands(ops_, comp)          # each component uses its own array
            infos.append((op, order))
        if len(set(infos)) != 1:
            raise Bad("components use different operations")
        return infos[0][0], infos[0][1], dom, "none"


def eval_method(fn, cls, methods, assume_var, depth=0, expect_args=None):
    a = fn.args
    if a.vararg or a.kwarg or a.kwonlyargs or a.posonlyargs or a.defaults or fn.decorator_list:
        raise Bad("unexpected signature")
    params = [x.arg for x in a.args]
    if not params or params[0] != "self" or len(params) > 2:
        raise Bad("unexpected signature")
    other = params[1] if len(params) == 2 else None
    if expect_args is not None and expect_args != len(params) - 1:
        raise Bad("delegation with the wrong number of arguments")
    cx = Ctx(cls, methods, other, assume_var, depth, inert=tinert.analysis(fn))
    ret = cx.run(fn.body)
    if ret is None:
        raise Bad("a path does not return")
    return ret_info(ret, cx)


def method_info(fn, cls, methods):
    return eval_method(fn, cls, methods, True), eval_method(fn, cls, methods, False)


DUNDERS = ["__add__", "__radd__", "__sub__", "__rsub__", "__mul__", "__rmul__", "__truediv__", "__rtruediv__", "__neg__", "__pow__", "__rpow__",
           "__gt__", "__ge__", "__lt__", "__le__", "__and__", "__or__", "__abs__"]


def generate(repo):
    out = ["/- GENERATED by harness/translate/tops.py from cell.py and face.py — do not edit. -/",
           "namespace PyFV.Gen.Ops", "",
           "/-- (operation, operand order: so = self∘other, os = other∘self, s = unary, result domain is self.domain, result BCs) -/",
           "structure OpInfo where", "  op : String", "  order : String", "  selfDomain : Bool", "  bcs : String", "  deriving DecidableEq, Repr", ""]
    status = {}
    for cls, path in (("CellVariable", "src/pyfvtool/cell.py"), ("FaceVariable", "src/pyfvtool/face.py")):
        tinert.set_repo(repo)
        tree = tinert.register(ast.parse(open(os.path.join(repo, path)).read()))
        cdef = [n for n in tree.body if isinstance(n, ast.ClassDef) and n.name == cls][0]
        methods = {}
        for n in cdef.body:
            if isinstance(n, ast.FunctionDef):
                methods[n.name] = n         # a later def replaces an earlier one
        rows_var, rows_other = [], []
        for d in DUNDERS:
            key = f"{cls}.{d}"
            if d not in methods:
                status[key] = "missing"
                continue
            try:
                a, b = method_info(methods[d], cls, methods)
                rows_var.append((d, a)); rows_other.append((d, b))
                status[key] = "ok"
            except Bad as ex:
                status[key] = f"untranslated: {ex}"
        short = "cell" if cls == "CellVariable" else "face"
        for nm, rows in (("Var", rows_var), ("Other", rows_other)):
            out.append(f"/-- {cls}: operand `other` is a {('variable of the same class' if nm == 'Var' else 'scalar / ndarray')} -/")
            out.append(f"def {short}{nm} : List (String × OpInfo) :=\n  [" + ",\n   ".join(
                f'("{d}", ⟨"{i[0]}", "{i[1]}", {"true" if i[2] else "false"}, "{i[3]}"⟩)' for d, i in rows) + "]\n")
        out.append(f"def {short}Untranslated : List String := [" + ", ".join(f'"{k}"' for k, v in status.items() if k.startswith(cls) and v != "ok") + "]\n")
    out.append("end PyFV.Gen.Ops\n")
    return "\n".join(out), status


def main():
    repo = os.environ.get("VERIF_REPO", "/repo")
    dst = sys.argv[1]
    text, status = generate(repo)
    old = open(dst).read() if os.path.exists(dst) else None
    if old != text:
        with open(dst, "w") as f:
            f.write(text)
    print(json.dumps(status))


if __name__ == "__main__":
    main()
