#!/usr/bin/env python3
"""tinert: recognise INERT statements (diagnostics, assertions, input validation) so that the translators can skip them.

Shared by tnum / tupw / tbc / tavg / tmesh / tstate / tasm.  stdlib `ast` only; nothing is imported from the package.
The check is PURELY SYNTACTIC on the statement itself and on everything inside it: a statement is accepted only when
every sub-expression belongs to the closed grammar below, so no write can hide inside a skipped statement.

  INERT STATEMENT (inside a function)
    pass;  an expression statement that is a constant (docstring-like)
    print(<pure>...)                         keywords sep / end / flush = <pure>, file = sys.stdout | sys.stderr only
    warnings.warn(<pure>...) / warn(...)     (`import warnings` / `from warnings import warn`); keywords category, stacklevel
    logging.<level>(<pure>...)               level = debug info warning warn error critical exception log
    <logger>.<level>(<pure>...)              <logger> bound ONLY by a module-level `<logger> = logging.getLogger(<pure>)`
    assert <pure> [, <pure>]
    if <pure>: <inert | raise>... [else: <inert | raise>...]
        raise                                only inside such an `if`:  `raise`, `raise E`, `raise E(<pure>...)` [from <pure>]
                                             with E a builtin exception (or a module-level `class E(<builtin exc.>): pass`)
                                             An `if` that contains a `raise` is a VALIDATION GUARD (reported separately);
                                             its test must mention at least one name (`if True: raise` is refused)
    <name> = <pure>   (also `<name>: T = <pure>`)   where <name> is an INERT-ONLY LOCAL: not a parameter, not global /
                                             nonlocal, every store of it in the function is such an assignment and every
                                             load of it lies inside an inert statement (computed as a greatest fixed
                                             point over the function; nested functions / lambdas count as "outside")
    import warnings | logging | math | sys;  from warnings import warn        (inside a function)
  PURE EXPRESSION
    names, constants, f-strings of pure expressions, `'...'.format(<pure>...)` on a string constant,
    (names must be bound somewhere: in the function, at module level, or builtins), attribute loads (any depth; see
    the DENY list), subscripts / slices with pure indices, unary / binary / boolean /
    comparison operators, conditional expressions, tuples / lists / sets / dicts of pure expressions, comprehensions and
    generator expressions with pure element, conditions and iterables, lambda expressions (creating, never calling),
    and calls of this closed list of side-effect-free functions on pure arguments (no `out=`: keywords only
    axis keepdims rtol atol equal_nan n default start; positional arguments limited so that no `out` can be passed):
      len str repr int float bool abs min max sum type(1 arg) isinstance issubclass hasattr getattr(constant name)
      np.shape np.size np.ndim np.isscalar np.isfinite np.isnan np.all np.any np.max np.min np.abs np.sum np.allclose
      np.array_equal np.diff      math.isfinite
    (`np.diff`, `np.isnan` were added to the list of the brief: both return a new array and have no `out` parameter.)
    EVERYTHING ELSE IS IMPURE: every other call (all method calls: `.copy()`, `.apply_BCs()`, `.setdiag()`, `.fill()`,
    `.sort()`, `.pop()`, `.append()`, `np.copyto`, `np.add(..., out=)`, `getattr(x, 'm')()`, `x.__setitem__(..)`),
    `:=`, await, yield, starred dict displays.
  ONE-SHOT ITERATORS.  Constructs that ITERATE their operand (single-argument builtin `sum` / `min` / `max`, `np.sum`,
    the right operand of `in` / `not in`, the iterable of a comprehension, a starred argument) would consume a generator /
    `zip` / `map` object held in a name.  Their operand must therefore be MATERIALISED: a display, a constant, a
    comprehension, the result of an operator or of a listed function (not getattr / min / max / sum), or an attribute load
    of a known array / tuple attribute (shape, dims, value, _value, ...).  A bare name there is refused.
  NAME RESOLUTION.  `print`, `len`, ... must be the builtins: not bound at module level nor anywhere in the function;
    `np` / `math` / `warnings` / `logging` / `sys` must be bound ONLY by the plain `import` of that module (`import numpy
    as np`).  A module with `from x import *` gets no inert statements at all.  Functions of modules that were not
    registered (`register(tree)`) get none either.
  DENY LIST (attribute loads).  Every `@property` getter of the package ($VERIF_REPO/src/pyfvtool/*.py) is checked: a getter
    whose body is not itself made of pure returns / raises / ifs / local assignments is DENIED (loading that attribute is
    impure), transitively.  At the time of writing all getters of cell.py, face.py, mesh.py, boundary.py, utilities.py
    are pure (they return an attribute or a basic-slice view, or raise); the only denied names are `cellvolume`
    (mesh.py calls `self._getCellVolumes()`, cell.py forwards to it: a method call, pure in fact but not by this
    grammar).  A class of the package defining one of READ_DUNDERS (`__getattr__`, `__getitem__`, `__len__`, `__bool__`,
    `__eq__`, `__iter__`, `__format__`, ...: special methods through which a mere READ would run package code) leaves only
    names and constants pure; the package defines none of them today.
  EXTRA PARAMETERS.  `extra_inert_params(fn)`: keyword-only parameters with a default, and the trailing run of positional
    parameters with a default (only when the function has no *args: a positional parameter in front of *args would
    capture the first extra argument), that are never stored, never shadowed, and loaded only inside inert statements;
    the default must be a pure expression or an inert call; `effective_args(fn)` is `fn.args` without them.
HOW THE TRANSLATORS USE IT.  `register(tree)` once per parsed module; `a = analysis(fn)` per function;
  `a.skip(st)`        inert and WITHOUT `raise`: skipped before the translator looks at the statement (so that the
                      generated text does not depend on whether the translator would have understood it);
  `a.skip_guard(st)`  inert, possibly a validation guard: used as a FALLBACK, after the translator failed to understand the
                      statement (a guard it does understand keeps its meaning: a path of the solvePDE cascade, a periodic
                      branch that raises, a cell-count requirement of a mesh constructor, `if len(args) > 0: raise`);
  `a.live(body)` / `live_body(fn)`   the non-inert statements of a block (dispatchers, exact-template checks);
  `effective_args(fn)`               the signature without the extra inert parameters.
  tstate skips every inert statement first (it never gives `raise` a meaning), tmesh only uses the fallback (it already
  interprets `warn` and decided guards), tnum has no `if` at all and skips both kinds first.
SEMANTICS.  Skipping an inert statement is sound for PARTIAL correctness: inert statements can print, warn, log and RAISE
  (assert, validation guard, NameError, ...), nothing else; whenever the function returns normally its result and its
  effect on every object are those of the function without them.  What is skipped is recorded (`annotate(status)` adds
  the key `_inert` with `statements`, `validation_guards`, `inert_params`, `module_level` when something was skipped).
Trusted: the listed functions and the operators / `__repr__` / `__str__` / `__format__` / `__len__` / `__bool__` / `__eq__`
  of the values involved have no effect on the tracked objects (checked for the package: the dunder methods of
  CellVariable / FaceVariable build new objects, `__repr__` of the BC classes prints); logging handlers and the
  warnings filter only produce output or raise.
"""
import ast, builtins, os

PURE_BUILTINS = {"len": (1, 1), "str": (0, 3), "repr": (1, 1), "int": (0, 2), "float": (0, 1), "bool": (0, 1),
                 "abs": (1, 1), "min": (1, 99), "max": (1, 99), "sum": (1, 2), "type": (1, 1), "isinstance": (2, 2),
                 "issubclass": (2, 2), "hasattr": (2, 2), "getattr": (2, 3)}
PURE_NP = {"shape": (1, 1), "size": (1, 2), "ndim": (1, 1), "isscalar": (1, 1), "isfinite": (1, 1), "isnan": (1, 1),
           "all": (1, 2), "any": (1, 2), "max": (1, 2), "min": (1, 2), "abs": (1, 1), "sum": (1, 2),
           "allclose": (2, 4), "array_equal": (2, 2), "diff": (1, 3)}
PURE_MATH = {"isfinite": (1, 1)}
PURE_KEYWORDS = {"axis", "keepdims", "rtol", "atol", "equal_nan", "n", "default", "start"}
ITERATING = {("b", "sum"), ("b", "min"), ("b", "max"), ("np", "sum")}       # iterate their (single) first argument
NOT_MATERIALISING = {("b", "getattr"), ("b", "min"), ("b", "max"), ("b", "sum")}
LOG_LEVELS = {"debug", "info", "warning", "warn", "error", "critical", "exception", "log"}
LOG_KEYWORDS = {"exc_info", "stack_info", "stacklevel", "extra"}
STD_MODULES = {"np": "numpy", "math": "math", "warnings": "warnings", "logging": "logging", "sys": "sys"}
ARRAY_ATTRS = {"shape", "dims", "size", "ndim", "dtype", "T", "value", "_value", "_xvalue", "_yvalue", "_zvalue",
               "xvalue", "yvalue", "zvalue", "rvalue", "thetavalue", "phivalue", "cellsize", "cellcenters",
               "facecenters", "_x", "_y", "_z", "x", "y", "z", "r", "theta", "phi", "a", "b", "c", "_a", "_b", "_c",
               "args", "coordlabels"}
# special methods that would make a "read" (attribute load, subscript, len, truth value, `in`, iteration, format, ==)
# run package code; the package defines none of them (only operators, `__array__`, `__str__` / `__repr__`, which are
# trusted, see the docstring).  If one appears, only names and constants stay pure.
READ_DUNDERS = {"__getattr__", "__getattribute__", "__get__", "__getitem__", "__missing__", "__contains__", "__iter__",
                "__next__", "__len__", "__bool__", "__format__", "__index__", "__int__", "__float__", "__hash__",
                "__eq__", "__ne__", "__class_getitem__", "__instancecheck__", "__subclasscheck__"}
BUILTIN_EXCEPTIONS = {n for n, o in vars(builtins).items() if isinstance(o, type) and issubclass(o, BaseException)}
SCOPES = (ast.FunctionDef, ast.AsyncFunctionDef, ast.Lambda, ast.ClassDef)


# ---------------------------------------------------------------------------------------------------------
# names bound in a scope
# ---------------------------------------------------------------------------------------------------------
def _bindings(nodes, deep):
    """{name: set of binding kinds} for the statements `nodes`; deep=False: do not enter nested function / class
    scopes (their NAME is bound here, and names they declare `global` are); deep=True: everything below"""
    out = {}

    def add(name, kind):
        out.setdefault(name, set()).add(kind)

    def visit(n, top):
        if isinstance(n, (ast.FunctionDef, ast.AsyncFunctionDef, ast.ClassDef)):
            add(n.name, ("def",))
            if not deep:
                for x in ast.walk(n):
                    if isinstance(x, ast.Global):
                        for g in x.names:
                            add(g, ("store",))
                return
        if isinstance(n, ast.Lambda) and not deep:
            return
        if isinstance(n, ast.Import):
            for al in n.names:
                if al.asname:
                    add(al.asname, ("import", al.name))
                else:
                    add(al.name.split(".")[0], ("import", al.name) if "." not in al.name else ("store",))
        elif isinstance(n, ast.ImportFrom):
            for al in n.names:
                if al.name == "*":
                    add("*", ("star",))
                else:
                    add(al.asname or al.name, ("from", n.module or "", al.name, n.level))
        elif isinstance(n, ast.Name) and isinstance(n.ctx, (ast.Store, ast.Del)):
            add(n.id, ("store",))
        elif isinstance(n, ast.arg):
            add(n.arg, ("store",))
        elif isinstance(n, (ast.Global, ast.Nonlocal)):
            for g in n.names:
                add(g, ("store",))
        elif isinstance(n, ast.ExceptHandler) and n.name:
            add(n.name, ("store",))
        elif type(n).__name__ in ("MatchAs", "MatchStar") and getattr(n, "name", None):
            add(n.name, ("store",))
        elif type(n).__name__ == "MatchMapping" and getattr(n, "rest", None):
            add(n.rest, ("store",))
        for c in ast.iter_child_nodes(n):
            visit(c, False)

    for n in nodes:
        visit(n, True)
    return out


def _is_getlogger(v):
    return (isinstance(v, ast.Call) and isinstance(v.func, ast.Attribute) and v.func.attr == "getLogger"
            and isinstance(v.func.value, ast.Name) and v.func.value.id == "logging")


class ModuleFacts:
    """what the names `print`, `np`, `warnings`, ... mean at module level"""

    def __init__(self, tree):
        self.tree = tree
        self._counts = None
        self.bound = _bindings(tree.body, deep=False)
        self.star = "*" in self.bound
        # module-level `<name> = logging.getLogger(...)` / `<name> = <constant>` (single assignment)
        self.logger_defs, self.const_defs = {}, {}
        for st in tree.body:
            if isinstance(st, ast.Assign) and len(st.targets) == 1 and isinstance(st.targets[0], ast.Name):
                if _is_getlogger(st.value):
                    self.logger_defs.setdefault(st.targets[0].id, []).append(st)
                elif isinstance(st.value, ast.Constant):
                    self.const_defs.setdefault(st.targets[0].id, []).append(st)
        self.exc_classes = set()
        for st in tree.body:
            if isinstance(st, ast.ClassDef) and not st.decorator_list and not st.keywords and st.bases \
                    and all(isinstance(b, ast.Name) and b.id in BUILTIN_EXCEPTIONS and b.id not in self.bound
                            for b in st.bases) \
                    and all(isinstance(s, ast.Pass) or (isinstance(s, ast.Expr) and isinstance(s.value, ast.Constant))
                            for s in st.body) and self.bound.get(st.name) == {("def",)}:
                self.exc_classes.add(st.name)

    def stores_everywhere(self, name):
        """number of binding occurrences of `name` in the whole module (all scopes)"""
        if self._counts is None:
            c = {}

            def add(n):
                c[n] = c.get(n, 0) + 1
            for x in ast.walk(self.tree):
                if isinstance(x, (ast.FunctionDef, ast.AsyncFunctionDef, ast.ClassDef)):
                    add(x.name)
                elif isinstance(x, ast.alias):
                    add((x.asname or x.name).split(".")[0])
                elif isinstance(x, ast.Name) and isinstance(x.ctx, (ast.Store, ast.Del)):
                    add(x.id)
                elif isinstance(x, ast.arg):
                    add(x.arg)
                elif isinstance(x, (ast.Global, ast.Nonlocal)):
                    for g in x.names:
                        add(g)
                elif isinstance(x, ast.ExceptHandler) and x.name:
                    add(x.name)
                elif type(x).__name__ in ("MatchAs", "MatchStar") and getattr(x, "name", None):
                    add(x.name)
            self._counts = c
        return self._counts.get(name, 0)


# ---------------------------------------------------------------------------------------------------------
# the package: property getters that are not evidently pure
# ---------------------------------------------------------------------------------------------------------
_REPO = [None]
_DENY = {}


def set_repo(repo):
    _REPO[0] = repo


def _repo():
    return _REPO[0] or os.environ.get("VERIF_REPO", "/repo")


def deny_list(repo=None):
    """(denied attribute names, all attribute loads denied?) for the package under `repo`"""
    repo = repo or _repo()
    if repo in _DENY:
        return _DENY[repo]
    src = os.path.join(repo, "src", "pyfvtool")
    getters, all_denied = [], False
    files = sorted(os.path.relpath(os.path.join(d, f), src) for d, _, fs in os.walk(src) for f in fs if f.endswith(".py"))
    for f in files:
        try:
            tree = ast.parse(open(os.path.join(src, f)).read())
        except (OSError, SyntaxError):
            all_denied = True
            continue
        facts = ModuleFacts(tree)
        for cls in ast.walk(tree):
            if not isinstance(cls, ast.ClassDef):
                continue
            for m in cls.body:
                if not isinstance(m, (ast.FunctionDef, ast.AsyncFunctionDef)):
                    continue
                if m.name in READ_DUNDERS:
                    all_denied = True
                for d in m.decorator_list:
                    txt = ast.unparse(d)
                    if txt == "property":
                        getters.append((m, facts))
                    elif "property" in txt or "cached" in txt:
                        getters.append((None, m.name))
    denied = {g[1] for g in getters if g[0] is None}
    changed = True
    while changed:
        changed = False
        for m, facts in [g for g in getters if g[0] is not None]:
            if m.name in denied:
                continue
            chk = Purity(facts, _bindings([m], deep=True), denied, all_denied)
            if not all(_getter_stmt(s, chk) for s in m.body):
                denied.add(m.name)
                changed = True
    _DENY[repo] = (frozenset(denied), all_denied)
    return _DENY[repo]


def _getter_stmt(s, chk):
    if isinstance(s, ast.Pass) or (isinstance(s, ast.Expr) and isinstance(s.value, ast.Constant)):
        return True
    if isinstance(s, ast.Return):
        return s.value is None or chk.pure(s.value)
    if isinstance(s, ast.Raise):
        return chk.raise_ok(s, any_exception=True)
    if isinstance(s, ast.Assert):
        return chk.pure(s.test) and (s.msg is None or chk.pure(s.msg))
    if isinstance(s, ast.If):
        return chk.pure(s.test) and all(_getter_stmt(x, chk) for x in s.body + s.orelse)
    if isinstance(s, ast.Assign):
        return all(isinstance(t, ast.Name) for t in s.targets) and chk.pure(s.value)
    return False


# ---------------------------------------------------------------------------------------------------------
# purity of expressions
# ---------------------------------------------------------------------------------------------------------
class Purity:
    def __init__(self, facts, local_bound, denied=frozenset(), all_denied=False):
        self.facts, self.local, self.denied, self.all_denied = facts, local_bound, denied, all_denied

    # ---- name resolution
    def kinds(self, name):
        """binding kinds of `name` seen from inside the function (None: only the builtin is visible)"""
        k = set()
        k |= self.local.get(name, set())
        k |= self.facts.bound.get(name, set())
        return k or None

    def is_builtin(self, name):
        return not self.facts.star and self.kinds(name) is None and hasattr(builtins, name)

    def is_std(self, name):
        return (not self.facts.star and name in STD_MODULES
                and self.kinds(name) == {("import", STD_MODULES[name])})

    def is_warn(self, name):
        return not self.facts.star and name == "warn" and self.kinds(name) == {("from", "warnings", "warn", 0)}

    def is_logger(self, name):
        return (not self.facts.star and self.is_std("logging") and name not in self.local
                and self.facts.bound.get(name) == {("store",)} and len(self.facts.logger_defs.get(name, [])) == 1
                and self.facts.stores_everywhere(name) == 1)

    def callee(self, f):
        """('b', name) | ('np', name) | ('math', name) for a listed function, else None"""
        if isinstance(f, ast.Name) and f.id in PURE_BUILTINS and self.is_builtin(f.id):
            return ("b", f.id)
        if isinstance(f, ast.Attribute) and isinstance(f.value, ast.Name):
            if f.value.id == "np" and f.attr in PURE_NP and self.is_std("np"):
                return ("np", f.attr)
            if f.value.id == "math" and f.attr in PURE_MATH and self.is_std("math"):
                return ("math", f.attr)
        return None

    # ---- expressions
    def pure(self, n):
        if self.all_denied and not isinstance(n, (ast.Constant, ast.Name, ast.JoinedStr, ast.FormattedValue, ast.Tuple,
                                                  ast.List)):
            return False
        m = getattr(self, "p_" + type(n).__name__, None)
        return bool(m and m(n))

    def all_pure(self, ns):
        return all(self.pure(x) for x in ns)

    def p_Constant(self, n):
        return True

    def p_Name(self, n):
        # a load of a name that is bound somewhere (function, module, builtins): `print(Nx)` in a function that has no
        # `Nx` would raise NameError on every call
        return isinstance(n.ctx, ast.Load) and (self.kinds(n.id) is not None or hasattr(builtins, n.id))

    def p_JoinedStr(self, n):
        return self.all_pure(n.values)

    def p_FormattedValue(self, n):
        return self.pure(n.value) and (n.format_spec is None or self.pure(n.format_spec))

    def p_Attribute(self, n):
        if not isinstance(n.ctx, ast.Load):
            return False
        if isinstance(n.value, ast.Name) and self.is_std(n.value.id):
            return True                                     # np.pi, sys.stderr, np.float64, ...
        if self.all_denied or n.attr in self.denied:
            return False
        return self.pure(n.value)

    def p_Subscript(self, n):
        return isinstance(n.ctx, ast.Load) and self.pure(n.value) and self.pure(n.slice)

    def p_Slice(self, n):
        return all(x is None or self.pure(x) for x in (n.lower, n.upper, n.step))

    def p_BinOp(self, n):
        return self.pure(n.left) and self.pure(n.right)

    def p_UnaryOp(self, n):
        return self.pure(n.operand)

    def p_BoolOp(self, n):
        return self.all_pure(n.values)

    def p_Compare(self, n):
        if not (self.pure(n.left) and self.all_pure(n.comparators)):
            return False
        for op, right in zip(n.ops, n.comparators):
            if isinstance(op, (ast.In, ast.NotIn)) and not self.materialised(right):
                return False
        return True

    def p_IfExp(self, n):
        return self.pure(n.test) and self.pure(n.body) and self.pure(n.orelse)

    def seq(self, elts):
        for e in elts:
            if isinstance(e, ast.Starred):
                if not (self.pure(e.value) and self.materialised(e.value)):
                    return False
            elif not self.pure(e):
                return False
        return True

    def p_Tuple(self, n):
        return isinstance(n.ctx, ast.Load) and self.seq(n.elts)

    def p_List(self, n):
        return isinstance(n.ctx, ast.Load) and self.seq(n.elts)

    def p_Set(self, n):
        return self.seq(n.elts)

    def p_Dict(self, n):
        return all(k is not None and self.pure(k) for k in n.keys) and self.all_pure(n.values)

    def p_Lambda(self, n):
        return True                                         # creating a function; nothing in the grammar calls it

    def comp(self, n, elts):
        for g in n.generators:
            if g.is_async or not self.target_ok(g.target):
                return False
            if not (self.pure(g.iter) and self.materialised(g.iter) and self.all_pure(g.ifs)):
                return False
        return self.all_pure(elts)

    def target_ok(self, t):
        if isinstance(t, ast.Name):
            return True
        return isinstance(t, (ast.Tuple, ast.List)) and all(self.target_ok(e) for e in t.elts)

    def p_ListComp(self, n):
        return self.comp(n, [n.elt])

    def p_SetComp(self, n):
        return self.comp(n, [n.elt])

    def p_GeneratorExp(self, n):
        return self.comp(n, [n.elt])

    def p_DictComp(self, n):
        return self.comp(n, [n.key, n.value])

    def p_Call(self, n):
        f = n.func
        # '...'.format(...)
        if isinstance(f, ast.Attribute) and f.attr == "format" and isinstance(f.value, ast.Constant) \
                and isinstance(f.value.value, str):
            return self.seq(n.args) and all(k.arg is not None and self.pure(k.value) for k in n.keywords)
        c = self.callee(f)
        if c is None:
            return False
        lo, hi = {"b": PURE_BUILTINS, "np": PURE_NP, "math": PURE_MATH}[c[0]][c[1]]
        if any(isinstance(a, ast.Starred) for a in n.args):
            if c != ("b", "max") and c != ("b", "min"):
                return False                                # a starred argument could reach an `out` position
        if not lo <= len(n.args) <= hi or not self.seq(n.args):
            return False
        for k in n.keywords:
            if k.arg is None or k.arg not in PURE_KEYWORDS or not self.pure(k.value):
                return False
        if c in ITERATING and (len(n.args) == 1 or c[1] == "sum"):
            # sum(x[, start]) / np.sum(x[, axis]) / min(x) / max(x) iterate x
            if isinstance(n.args[0], ast.Starred) or not self.materialised(n.args[0]):
                return False
        if c in (("b", "hasattr"), ("b", "getattr")):
            a = n.args[1]
            if not (isinstance(a, ast.Constant) and isinstance(a.value, str)):
                return False
            if self.all_denied or a.value in self.denied:
                return False
        return True

    def materialised(self, n):
        """the value of the (pure) expression n cannot be a one-shot iterator"""
        if isinstance(n, (ast.Constant, ast.JoinedStr, ast.Tuple, ast.List, ast.Set, ast.Dict, ast.ListComp, ast.SetComp,
                          ast.DictComp, ast.BinOp, ast.UnaryOp, ast.Compare)):
            return True
        if isinstance(n, ast.BoolOp):
            return all(self.materialised(v) for v in n.values)
        if isinstance(n, ast.IfExp):
            return self.materialised(n.body) and self.materialised(n.orelse)
        if isinstance(n, ast.Attribute):
            return n.attr in ARRAY_ATTRS
        if isinstance(n, ast.Subscript):
            return isinstance(n.value, ast.Attribute) and n.value.attr in ARRAY_ATTRS
        if isinstance(n, ast.Call):
            f = n.func
            if isinstance(f, ast.Attribute) and f.attr == "format" and isinstance(f.value, ast.Constant):
                return True
            c = self.callee(f)
            return c is not None and c not in NOT_MATERIALISING
        return False

    # ---- calls that only produce output
    def sink(self, c):
        """is the call `c` print / warn / logging on pure arguments"""
        if not isinstance(c, ast.Call):
            return False
        f = c.func
        kind = None
        if isinstance(f, ast.Name) and f.id == "print" and self.is_builtin("print"):
            kind = "print"
        elif isinstance(f, ast.Name) and self.is_warn(f.id):
            kind = "warn"
        elif isinstance(f, ast.Attribute) and isinstance(f.value, ast.Name):
            if f.value.id == "warnings" and f.attr == "warn" and self.is_std("warnings"):
                kind = "warn"
            elif f.value.id == "logging" and f.attr in LOG_LEVELS and self.is_std("logging"):
                kind = "log"
            elif f.attr in LOG_LEVELS and self.is_logger(f.value.id):
                kind = "log"
        if kind is None or not self.seq(c.args):
            return False
        if kind == "warn" and len(c.args) > 3:
            return False
        for k in c.keywords:
            if k.arg is None:
                return False
            if kind == "print":
                if k.arg == "file":
                    v = k.value
                    if not (isinstance(v, ast.Attribute) and isinstance(v.value, ast.Name) and v.value.id == "sys"
                            and v.attr in ("stdout", "stderr") and self.is_std("sys")):
                        return False
                    continue
                if k.arg not in ("sep", "end", "flush"):
                    return False
            elif kind == "warn":
                if k.arg not in ("category", "stacklevel"):
                    return False
            elif k.arg not in LOG_KEYWORDS:
                return False
            if not self.pure(k.value):
                return False
        return True

    def exc_name(self, e):
        if isinstance(e, ast.Name):
            if e.id in BUILTIN_EXCEPTIONS and self.is_builtin(e.id):
                return True
            return e.id in self.facts.exc_classes and e.id not in self.local and not self.facts.star
        return False

    def raise_ok(self, s, any_exception=False):
        if s.cause is not None and not self.pure(s.cause):
            return False
        e = s.exc
        if e is None:
            return True
        if isinstance(e, ast.Call):
            if not (self.seq(e.args) and all(k.arg is not None and self.pure(k.value) for k in e.keywords)):
                return False
            e = e.func
        return self.exc_name(e)


# ---------------------------------------------------------------------------------------------------------
# statements
# ---------------------------------------------------------------------------------------------------------
INERT_IMPORTS = {"warnings", "logging", "math", "sys"}


def _plain(st):
    """`name: T = e` is `name = e`"""
    if isinstance(st, ast.AnnAssign) and isinstance(st.target, ast.Name) and st.value is not None and st.simple:
        return st.target, st.value, st.annotation
    if isinstance(st, ast.Assign) and len(st.targets) == 1 and isinstance(st.targets[0], ast.Name):
        return st.targets[0], st.value, None
    return None


def _inert(st, chk, names, nested=False):
    """structural check; `names`: the local names an assignment may bind; nested: inside an inert `if`"""
    if isinstance(st, ast.Pass):
        return True
    if isinstance(st, ast.Expr):
        return isinstance(st.value, ast.Constant) or chk.sink(st.value)
    if isinstance(st, ast.Assert):
        return chk.pure(st.test) and (st.msg is None or chk.pure(st.msg)) and _mentions_name(st.test)
    if isinstance(st, ast.If):
        if not chk.pure(st.test):
            return False
        if not all(_inert(s, chk, names, True) for s in st.body + st.orelse):
            return False
        if has_raise(st) and not _mentions_name(st.test):
            return False
        return True
    if isinstance(st, ast.Raise):
        return nested and chk.raise_ok(st)
    pa = _plain(st)
    if pa is not None:
        t, v, ann = pa
        return t.id in names and chk.pure(v) and (ann is None or chk.pure(ann))
    if isinstance(st, ast.Import):
        return all(al.name in INERT_IMPORTS and al.asname is None for al in st.names)
    if isinstance(st, ast.ImportFrom):
        return st.module == "warnings" and st.level == 0 and all(al.name == "warn" and al.asname is None
                                                                  for al in st.names)
    return False


def _mentions_name(e):
    return any(isinstance(x, ast.Name) for x in ast.walk(e))


def has_raise(st):
    return any(isinstance(x, ast.Raise) for x in ast.walk(st))


def is_inert_statement(stmt, known_pure_names=frozenset(), facts=None, local_bound=None):
    """the purely syntactic test.  known_pure_names: local names that are known to be read only inside inert statements
    (an assignment `name = <pure>` is inert only for these; `analysis(fn).locals` computes them); facts: ModuleFacts of
    the module the statement comes from (None: the empty module, in which every builtin has its usual meaning and nothing
    is imported, so `np.` / `warnings.` / `logging.` forms are refused)"""
    facts = facts or ModuleFacts(ast.parse(""))
    denied, alld = deny_list()
    return _inert(stmt, Purity(facts, local_bound or {}, denied, alld), set(known_pure_names))


# ---------------------------------------------------------------------------------------------------------
# per-function analysis
# ---------------------------------------------------------------------------------------------------------
_FACTS = {}         # id(FunctionDef) -> ModuleFacts
_KEEP = []          # registered trees (kept alive: the table is keyed by id)
_ANALYSES = {}
REPORT = {"statements": {}, "validation_guards": {}, "inert_params": {}, "module_level": {}}


def register(tree):
    """make the functions of a parsed module known (call once per ast.parse); returns the tree"""
    if any(t is tree for t in _KEEP):
        return tree
    _KEEP.append(tree)
    facts = ModuleFacts(tree)
    # module-level functions and the methods of module-level classes (a nested function sees the locals of the
    # enclosing one, which the name resolution below does not model: it gets no inert statements)
    for n in tree.body:
        if isinstance(n, ast.FunctionDef):
            _FACTS[id(n)] = facts
        elif isinstance(n, ast.ClassDef):
            for m in n.body:
                if isinstance(m, ast.FunctionDef):
                    _FACTS[id(m)] = facts
    return tree


def _sub_blocks(st):
    for f in ("body", "orelse", "finalbody"):
        b = getattr(st, f, None)
        if isinstance(b, list) and b and isinstance(b[0], ast.stmt):
            yield b
    for h in getattr(st, "handlers", []) or []:
        yield h.body
    for c in getattr(st, "cases", []) or []:
        yield c.body


class Analysis:
    """which statements of one function are inert"""

    def __init__(self, fn, facts):
        self.fn, self.facts = fn, facts
        self.ids, self.region_ids = set(), set()
        self.locals, self.params = set(), []
        self.regions = []
        if facts is None or facts.star or not isinstance(fn, ast.FunctionDef):
            return
        denied, alld = deny_list()
        self.chk = Purity(facts, _bindings(fn.body + [fn.args], deep=True), denied, alld)
        argnames = {a.arg for a in ast.walk(fn) if isinstance(a, ast.arg)}
        declared = {g for x in ast.walk(fn) if isinstance(x, (ast.Global, ast.Nonlocal)) for g in x.names}
        # candidate inert-only locals: targets of `name = <pure>`
        cand = set()
        for x in ast.walk(fn):
            if isinstance(x, ast.stmt):
                pa = _plain(x)
                if pa is not None and pa[0].id not in argnames and pa[0].id not in declared:
                    cand.add(pa[0].id)
        while True:
            regions = self.find_regions(cand)
            inside = set()
            for r in regions:
                for x in ast.walk(r):
                    inside.add(id(x))
            bad = set()
            for x in ast.walk(fn):
                if isinstance(x, ast.Name) and x.id in cand and id(x) not in inside:
                    bad.add(x.id)
                elif isinstance(x, ast.ExceptHandler) and x.name in cand:
                    bad.add(x.name)
            # inside a region a store must be the target of a plain assignment (not a comprehension variable etc.)
            for r in regions:
                targets = {id(_plain(s)[0]) for s in ast.walk(r) if isinstance(s, ast.stmt) and _plain(s) is not None}
                for x in ast.walk(r):
                    if isinstance(x, ast.Name) and x.id in cand and not isinstance(x.ctx, ast.Load) \
                            and id(x) not in targets:
                        bad.add(x.id)
            if not bad:
                break
            cand -= bad
        # keep only the candidates that are really assigned inside a region
        assigned = set()
        for r in regions:
            for s in ast.walk(r):
                if isinstance(s, ast.stmt) and _plain(s) is not None and _plain(s)[0].id in cand:
                    assigned.add(_plain(s)[0].id)
        self.locals = assigned
        self.regions = regions
        self.region_ids = {id(r) for r in regions}
        for r in regions:
            for s in ast.walk(r):
                if isinstance(s, ast.stmt) and not isinstance(s, ast.Raise):
                    self.ids.add(id(s))
        self.inside = {id(x) for r in regions for x in ast.walk(r)}
        self.params = self.find_params(argnames, declared)

    def find_regions(self, names):
        out = []

        def walk(body):
            for st in body:
                if isinstance(st, SCOPES):
                    continue
                if _inert(st, self.chk, names):
                    out.append(st)
                else:
                    for b in _sub_blocks(st):
                        walk(b)
        walk(self.fn.body)
        return out

    def find_params(self, argnames, declared):
        a = self.fn.args
        own = [x.arg for x in a.posonlyargs + a.args + a.kwonlyargs] + [x.arg for x in (a.vararg, a.kwarg) if x]
        nested_args = [x.arg for x in ast.walk(self.fn) if isinstance(x, ast.arg)]

        def ok(p, default, ann):
            if default is None or p.arg in declared or nested_args.count(p.arg) != 1 or own.count(p.arg) != 1:
                return False
            if not (self.chk.pure(default) or self.chk.sink(default)):
                return False
            if ann is not None and not self.chk.pure(ann):
                return False
            for x in ast.walk(self.fn):
                if isinstance(x, ast.Name) and x.id == p.arg:
                    if not isinstance(x.ctx, ast.Load) or id(x) not in self.inside:
                        return False
                if isinstance(x, ast.ExceptHandler) and x.name == p.arg:
                    return False
            return True
        out = []
        for p, d in zip(a.kwonlyargs, a.kw_defaults):
            if ok(p, d, p.annotation):
                out.append(p.arg)
        if a.vararg is None:
            pos = list(a.args)
            defaults = [None] * (len(pos) - len(a.defaults)) + list(a.defaults)
            tail = []
            for p, d in reversed(list(zip(pos, defaults))):
                if not ok(p, d, p.annotation):
                    break
                tail.append(p.arg)
            out += reversed(tail)
        return out

    # ---- queries used by the translators
    def is_inert(self, st):
        return id(st) in self.ids

    def skip(self, st, note=True):
        """inert and without `raise`: may be skipped before the translator looks at it"""
        if id(st) in self.ids and not has_raise(st):
            if note:
                self.note(st)
            return True
        return False

    def skip_guard(self, st, note=True):
        """inert (possibly a validation guard): to be skipped when the translator does not understand it"""
        if id(st) in self.ids:
            if note:
                self.note(st)
            return True
        return False

    def live(self, body):
        """the statements of `body` that are not inert"""
        return [s for s in body if not self.skip_guard(s)]

    def note(self, st):
        if not isinstance(st, (ast.If, ast.Assert)) and not (isinstance(st, ast.Expr) and isinstance(st.value, ast.Call)):
            return          # docstrings, `pass`, imports, assignments to inert-only locals: not worth a record
        key = "validation_guards" if has_raise(st) else "statements"
        txt = " ".join(ast.unparse(st).split())
        txt = txt if len(txt) <= 100 else txt[:97] + "..."
        lst = REPORT[key].setdefault(self.fn.name, [])
        if txt not in lst:
            lst.append(txt)


_EMPTY = Analysis(None, None)


def analysis(fn):
    a = _ANALYSES.get(id(fn))
    if a is None or a.fn is not fn:
        facts = _FACTS.get(id(fn))
        a = Analysis(fn, facts) if facts is not None else _EMPTY
        if a is not _EMPTY:
            _ANALYSES[id(fn)] = a
    return a


def extra_inert_params(fn_node):
    """names of the parameters of `fn_node` that a caller of the original signature never binds and that only inert
    statements read"""
    return list(analysis(fn_node).params)


def effective_args(fn):
    """`fn.args` without the extra inert parameters (a new ast.arguments; `fn` is not modified)"""
    names = extra_inert_params(fn)
    a = fn.args
    if not names:
        return a
    lst = REPORT["inert_params"].setdefault(fn.name, [])
    for n in names:
        if n not in lst:
            lst.append(n)
    args = [x for x in a.args if x.arg not in names]
    k = len(a.args) - len(args)
    kws = [(p, d) for p, d in zip(a.kwonlyargs, a.kw_defaults) if p.arg not in names]
    return ast.arguments(posonlyargs=list(a.posonlyargs), args=args, vararg=a.vararg,
                         kwonlyargs=[p for p, _ in kws], kw_defaults=[d for _, d in kws], kwarg=a.kwarg,
                         defaults=list(a.defaults)[:len(a.defaults) - k] if k else list(a.defaults))


def live_body(fn, body=None):
    """the statements of fn.body (or of `body`, a block of fn) that are not inert"""
    return analysis(fn).live(fn.body if body is None else body)


# ---------------------------------------------------------------------------------------------------------
# module level
# ---------------------------------------------------------------------------------------------------------
def is_inert_module_statement(st, tree):
    """a module-level statement that only serves inert statements: `<name> = logging.getLogger(<pure>)` or
    `<name> = <constant>` where <name> is bound exactly once in the whole module and every load of it lies inside an
    inert statement of a function of the module (`tree` must be registered)"""
    if not (isinstance(st, ast.Assign) and len(st.targets) == 1 and isinstance(st.targets[0], ast.Name)):
        return False
    name = st.targets[0].id
    facts = None
    for n in ast.walk(tree):
        if isinstance(n, ast.FunctionDef) and id(n) in _FACTS:
            facts = _FACTS[id(n)]
            break
    if st not in tree.body or facts is None or facts.tree is not tree or facts.star:
        return False
    if facts.stores_everywhere(name) != 1 or hasattr(builtins, name):
        return False
    if _is_getlogger(st.value):
        chk = Purity(facts, {}, *deny_list())
        if not (chk.is_std("logging") and chk.seq(st.value.args) and not st.value.keywords):
            return False
    elif not isinstance(st.value, ast.Constant):
        return False
    inside = set()
    for n in ast.walk(tree):
        if isinstance(n, ast.FunctionDef) and id(n) in _FACTS:
            inside |= getattr(analysis(n), "inside", set())
    for x in ast.walk(tree):
        if isinstance(x, ast.Name) and x.id == name and x is not st.targets[0] and id(x) not in inside:
            return False
    lst = REPORT["module_level"].setdefault("<module>", [])
    txt = ast.unparse(st)
    if txt not in lst:
        lst.append(txt)
    return True


def annotate(status):
    """add the record of what was skipped to a status dictionary (nothing is added when nothing was skipped, so the
    status of an unmodified source is unchanged)"""
    rep = {k: v for k, v in REPORT.items() if v}
    if rep:
        status = dict(status)
        status["_inert"] = rep
    return status
