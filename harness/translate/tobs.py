#!/usr/bin/env python3
"""T-obs: regenerate the OBSERVER functions of cell.py / face.py from the Python source.

  python3 harness/translate/tobs.py lean/PyFV/Gen/ObsGen.lean

writes  <out>                        Lean definitions (namespace PyFV.Gen.ObsGen), one per branch ("family" F) of the
                                     class cascade of the function (`issubclass(type(..), C)`, `isinstance(.., C)`,
                                     `type(..) is C`, and the METHOD RESOLUTION of `self._getCellVolumes()`):
                                       value_F               M φ i j k   `CellVariable.value` (getter) at the 0-based
                                                                         interior position (= model cell (i+1, j+1, k+1))
                                       cellvolume_F          M i j k     `CellVariable.cellvolume` → `MeshStructure.cellvolume`
                                                                         → the `_getCellVolumes` of the class (nine families)
                                       domainIntegral_F      M φ         `CellVariable.domainIntegral()`: a nested `Finset.sum`
                                                                         over `Finset.range M.ax.n` (× `M.ay.n` × `M.az.n`)
                                       plotprofile_x_F / _y_F / _z_F   M p      coordinate arrays of `plotprofile()`
                                       plotprofile_phi_F     M φ i j k   value array of `plotprofile()` at the 0-based
                                                                         position (i, j, k) of the GHOSTED shape (= model index)
                                       plotprofile_shapes                shapes of the returned arrays
                                       cellLocations_X_F / _Y_F / _Z_F   M i j k   interior values of the returned CellVariables
                                       faceLocations_<D>face_<a>_F       M i j k   component `_<a>value` of the FaceVariable
                                                                         returned for the D-faces, at the 0-based position
                                                                         of the D-face array ((Nx+1, Ny, Nz), ...)
                                       <function>_classes : List (String × List Kind)   family ↦ grid classes reaching it
                                       untranslated                                     keys for which nothing was emitted
        <dir>/obsgen_status.json     {"<function>.<family>": "ok" | "untranslated: reason"}
and prints the status as one JSON line.  stdlib only; nothing is imported from the package; the source root is
$VERIF_REPO (default /repo).  PyFV/Props/GenEqObs.lean proves every generated formula equal to the hand-written model
(PyFV/Model/Obs.lean, `domainIntegral` of PyFV/Lemmas/BoxSum.lean, `cellVolume` of PyFV/Model/Geom.lean).

METHOD.  Every function is executed symbolically ONCE PER GRID CLASS (nine runs) with the interpreter of tavg.py
(tnum → tupw → tavg: symbolic arrays, piecewise in-place assignment with buffer identities, class cascades → families),
EXTENDED by
  methods / properties   the top function may be a method of `CellVariable` (`self` is the cell variable φ).  `obj.p` for a
                   `@property` p of CellVariable (`value`, `cellvolume`, `cellcenters`) INTERPRETS the property body;
                   `<mesh>.p` for a `@property` of the mesh class (found along the MRO of the concrete grid class:
                   `cellvolume`) likewise; `self.m()` on the mesh is tnum's MRO helper call.  Every method / property
                   resolution along the MRO is recorded in the TRACE (defining class), so the nine `_getCellVolumes`
                   give nine families.
  class tests      `isinstance(E, C)` (E the mesh) = `issubclass(type(E), C)`; `len(args) == c`, `np.isscalar(x)`
  return           a `return` ends the function (statements after it are not executed); a `raise` that is reached makes
                   the class untranslated ("raises ...")
  `.flatten()`     a fresh 1-D copy (C order; the multi-index is kept as in `.ravel()`)
  `.sum()`         (no arguments) the TOTAL sum over all symbolic axes: emitted as nested `∑ i ∈ Finset.range n, ..`
  `.T`             the transposed view (dimensions reversed)
  np.hstack / np.concatenate([s0, a, s1])   of scalars and 1-D arrays: a PIECEWISE 1-D array in the position
                   (`if p < 1 then s0 else if p < n + 1 then a[p-1] else s1`)
  np.tile(a, (r0, r1, ..))   reps 1 keep a dimension; a dimension of length 1 is repeated r times (r = N + c gives the
                   axis); repeating a longer dimension is untranslated
  np.zeros / np.ones((1, 1, N))   dimensions of length 1 are broadcast dimensions; `z[0, 0, :] = v` (index 0 / -1 or
                   the full slice on them) is the piecewise assignment of tupw on the remaining dimensions
  FaceVariable(m, c)   INTERPRETS `FaceVariable.__init__` of face.py (the `len(args)` / `issubclass` / `np.isscalar` cascade,
                   `Nx, Ny = mesh.dims`, `c*np.ones((Nx+1, Ny))`, `np.array([])`, `self._xvalue = np.asarray(.., dtype=float)`);
                   the three components must come out with the shapes (Nx+1, Ny, Nz), (Nx, Ny+1, Nz), (Nx, Ny, Nz+1) /
                   empty for the missing directions.  `X._xvalue = e` afterwards REBINDS the component (a reference store).
  CHECKS on what is returned
     value / cellvolume      the interior shape (N_x, N_y, N_z)
     domainIntegral          a scalar
     plotprofile             (x[, y[, z]], phi0): coordinate a has N_a + 2 entries along its own dimension (and length 1
                             along the others in 3-D); phi0 has the ghosted shape; phi0 is a FRESH buffer
                             (dropping `np.copy` makes the in-place assignments `untranslated`: tupw's discipline)
     cellLocations           the array handed to `CellVariable(m, a)` has EXACTLY the interior shape (tavg.mk_cell; a shape
                             (N_x+2, ..) would be adopted as ghosted array by `CellVariable.__init__`): interior values only
     faceLocations           every component of the FaceVariable returned for the D-faces has the D-face shape; no returned
                             component is (a view of) an array of the mesh or shares its buffer with another returned
                             component (`X._xvalue = m.facecenters._x` without np.copy is REFUSED: aliasing)
INERT statements (tinert.py) are skipped as in tavg.  ANY other statement or expression form makes the family
`untranslated: <reason>` (no definition, key listed in `untranslated`, the theorems of GenEqObs.lean stop compiling).
Trusted (not derived), in addition to the lists of tnum / tupw / tavg: `np.tile`, `np.hstack`, `.T`, `.flatten()`, `.sum()`
  semantics; the interior of `CellVariable(mesh, v)._value` is v (T-bc); numpy assignment semantics (right-hand side
  evaluated before the store).  tnum.py / tupw.py / tavg.py are not edited; `tupw.render` is monkey-patched (sums).
"""
import ast, sys, os, json
from fractions import Fraction

sys.path.insert(0, os.path.dirname(os.path.abspath(__file__)))
import tnum
import tupw
import tavg
import tinert
from tnum import Bad, Poly, ONE, Arr, Tup, Ref, AXES, VAR, KIND, scalar, write_if_changed
from tupw import bufof, is_input, sstrip, shift, lin, pos_lt, rnat, paren
from tavg import FaceObj, DCell, Empty, SUFFIX, is_cell

ZERO = ("num", Fraction(0))
UNIT = ("num", Fraction(1))

# ---------------------------------------------------------------------------------------------------------
# rendering of total sums (monkey-patch of tupw.render; its recursive calls look the name up in tupw's globals)
# ---------------------------------------------------------------------------------------------------------
_render0 = tupw.render


def render(e, names):
    if e[0] == "sum":
        _, binds, body = e
        s = sstrip(tupw.render(body, names))
        for v, L in reversed(binds):
            s = f"∑ {v} ∈ Finset.range {paren(L)}, {s}"
        return f"({s})"
    return _render0(e, names)


tupw.render = render
tnum.QUIET_HELPERS |= {"_getCellVolumes"}      # the MRO call of `MeshStructure.cellvolume`: not listed under `_helpers`


class OFace(FaceObj):
    """a FaceVariable under construction / returned by faceLocations"""

    def __init__(self):
        super().__init__({})
        self.domain_ok = False


CMPS = {ast.Eq: lambda a, b: a == b, ast.NotEq: lambda a, b: a != b, ast.Lt: lambda a, b: a < b,
        ast.LtE: lambda a, b: a <= b, ast.Gt: lambda a, b: a > b, ast.GtE: lambda a, b: a >= b}


# ---------------------------------------------------------------------------------------------------------
# the interpreter
# ---------------------------------------------------------------------------------------------------------
class OInterp(tavg.AInterp):
    def __init__(self, ctx, cls, modname, pars, trace, depth=0):
        super().__init__(ctx, cls, modname, pars, trace, depth)
        self._memo = {}

    def spawn(self, modname=None):
        if self.depth >= 8:
            raise Bad("calls nested too deeply")
        sub = OInterp(self.ctx, self.cls, modname or self.modname, {}, self.trace, self.depth + 1)
        sub.ndim = self.ndim
        return sub

    def ev(self, node):
        if self._memo and id(node) in self._memo:
            return self._memo.pop(id(node))
        return super().ev(node)

    def with_base(self, node, base, method):
        """call an inherited ev_* method of `node` without evaluating `node.value` a second time"""
        self._memo[id(node.value)] = base
        try:
            return method(node)
        finally:
            self._memo.pop(id(node.value), None)

    # ---- statements: `return` ends the function; a reached `raise` is an error of the class
    def exec_block(self, body):
        for st in body:
            if self.result is not None:
                return
            if isinstance(st, ast.Expr) and isinstance(st.value, ast.Constant) and isinstance(st.value.value, str):
                continue
            if self.inert.skip(st):
                continue
            st = tnum.plain_assign(st)
            if isinstance(st, ast.Assign):
                self.assign(st)
            elif isinstance(st, ast.AugAssign):
                self.augassign(st)
            elif isinstance(st, ast.If):
                ntrace = len(self.trace)
                try:
                    r = self.test(st.test)
                except Bad:
                    if self.inert.skip_guard(st):
                        del self.trace[ntrace:]
                        continue
                    raise
                self.exec_block(st.body if r else st.orelse)
            elif isinstance(st, ast.For):
                self.exec_for(st)
            elif isinstance(st, ast.Return):
                if st.value is None:
                    raise Bad("bare return")
                self.result = self.ev(st.value)
            elif isinstance(st, ast.Raise):
                raise Bad(f"raises {ast.unparse(st.exc)[:60] if st.exc is not None else ''} (line {st.lineno})")
            else:
                raise Bad(f"statement {type(st).__name__} (line {st.lineno})")

    def run_body(self, fn):
        """execute a body that need not return (`__init__`)"""
        self.enter(fn)
        self.inert = tinert.analysis(fn)
        self.exec_block(fn.body)
        return self.result

    # ---- tests
    def atom(self, t):
        if (isinstance(t, ast.Call) and isinstance(t.func, ast.Name) and t.func.id == "isinstance"
                and "isinstance" not in tnum.SHADOWED and "isinstance" not in self.env and len(t.args) == 2
                and not t.keywords):
            c = self.class_of(t.args[1])
            if c is not None and self.is_mesh(t.args[0]):
                if self.cls is None:
                    raise Bad(f"if {ast.unparse(t)}: no grid class")
                return c in self.mesh.mro(self.cls), True
        if (isinstance(t, ast.Call) and ast.unparse(t.func) == "np.isscalar" and len(t.args) == 1 and not t.keywords):
            v = self.ev(t.args[0])
            if isinstance(v, Poly) or (isinstance(v, Arr) and v.kind == "num" and not v.dims):
                return True, False
            if isinstance(v, (Arr, Tup)):
                return False, False
            raise Bad(f"if {ast.unparse(t)}: kind of the value unknown")
        if isinstance(t, ast.Compare) and len(t.ops) == 1 and type(t.ops[0]) in CMPS:
            try:
                a, b = self.ev(t.left), self.ev(t.comparators[0])
            except Bad:
                a = b = None
            if isinstance(a, Poly) and isinstance(b, Poly) and a.is_const() and b.is_const():
                return CMPS[type(t.ops[0])](a.constval(), b.constval()), False
        return super().atom(t)

    # ---- assignment: attribute stores on a FaceVariable object, broadcast dimensions
    def assign(self, st):
        if len(st.targets) == 1 and isinstance(st.targets[0], ast.Attribute) \
                and isinstance(st.targets[0].value, ast.Name):
            t = st.targets[0]
            obj = self.env.get(t.value.id)
            if isinstance(obj, FaceObj):
                v = self.ev(st.value)
                if t.attr == "domain":
                    if not (isinstance(v, Ref) and v.what[0] == "mesh"):
                        raise Bad(f"{ast.unparse(t)} = something else than the mesh")
                    if isinstance(obj, OFace):
                        obj.domain_ok = True
                    return
                if t.attr in ("_xvalue", "_yvalue", "_zvalue"):
                    if isinstance(v, Poly):
                        v = self.as_num(v)
                    if not (isinstance(v, Empty) or (isinstance(v, Arr) and v.kind == "num" and not v.raveled)):
                        raise Bad(f"{ast.unparse(t)} = a value that is not a numeric array")
                    if any(obj is o for o in self.frozen_objs):
                        raise Bad(f"{ast.unparse(t)} = ...: store into an argument of the helper")
                    obj.comps[t.attr[1]] = v
                    return
                raise Bad(f"assignment target {ast.unparse(t)}")
            raise Bad(f"assignment target {ast.unparse(t)}")
        return super().assign(st)

    def check_mutable(self, name):
        super().check_mutable(name)
        b = bufof(self.env[name])
        for n2, v in self.env.items():
            arrs = []
            if isinstance(v, FaceObj):
                arrs = [c for c in v.comps.values() if isinstance(c, Arr)]
            elif isinstance(v, DCell):
                arrs = [v.interior]
            elif isinstance(v, Tup):
                arrs = list(self.arrays_in(v))
            if n2 != name and any(bufof(a) is b for a in arrs):
                raise Bad(f"in-place assignment to {name}, which shares its buffer with {n2}")

    def item_assign(self, name, sl, val, txt):
        x = self.env[name]
        if isinstance(x, Arr) and x.kind == "num" and not x.raveled and any(a is None for a, _ in x.dims) \
                and any(a is not None for a, _ in x.dims):
            return self.item_assign_bc(name, x, sl, val, txt)
        return super().item_assign(name, sl, val, txt)

    def item_assign_bc(self, name, x, sl, val, txt):
        """`z[0, 0, :] = v` on an array with dimensions of length 1: they must be selected entirely (0, -1 or `:`)"""
        self.check_mutable(name)
        items = sl.elts if isinstance(sl, ast.Tuple) else [sl]
        spec = self.parse_index(items, txt)
        if any(s is None for s in spec):
            raise Bad(f"{txt}: np.newaxis in an assignment target")
        if len(spec) > len(x.dims):
            raise Bad(f"{txt}: too many indices for shape {x.shape()}")
        keep = [n for n, (a, _) in enumerate(x.dims) if a is not None]
        for n, (a, L) in enumerate(x.dims):
            if a is not None or n >= len(spec):
                continue
            s = spec[n]
            if s[0] == "idx":
                if not (s[1].is_const() and s[1].constval() in (0, -1)):
                    raise Bad(f"{txt}: index {s[1]} on a dimension of length 1")
            else:
                lo, hi = s[1], s[2]
                if not ((lo is None or lo == Poly()) and (hi is None or hi == ONE)):
                    raise Bad(f"{txt}: proper slice of a dimension of length 1")
        red = Arr([x.dims[n] for n in keep], lambda pos: x.fn(self._expand(pos, keep, len(x.dims))))
        sel = []
        for n in keep:
            axis, L = x.dims[n]
            s = spec[n] if n < len(spec) else ("sl", None, None)
            if s[0] == "idx":
                sel.append(("idx", self.fixed(s[1], L, txt)))
            else:
                lo, hi = self.slice_bounds(s[1], s[2], L, txt)
                sel.append(("sl", lo, hi))
        new = self.piecewise(red, sel, val, txt)
        res = Arr(x.dims, lambda pos: new.fn([pos[n] for n in keep]))
        res._buf = bufof(x)
        self.env[name] = res

    @staticmethod
    def _expand(pos, keep, n):
        out = [None] * n
        for p, k in zip(pos, keep):
            out[k] = p
        return out

    # ---- attributes
    def ev_Attribute(self, node):
        if isinstance(node.value, ast.Name) and node.value.id == "np":
            return super().ev_Attribute(node)
        at = node.attr
        base = self.ev(node.value)
        if at == "T" and isinstance(base, Arr):
            if base.raveled:
                raise Bad(".T of a raveled array")
            b = base
            r = Arr(list(reversed(b.dims)), lambda pos: b.fn(list(reversed(pos))), kind=b.kind)
            r._buf = bufof(b)
            return r
        if is_cell(base) and at not in ("domain", "_value", "value"):
            return self.cell_property(base, at)
        if isinstance(base, Ref) and base.what[0] == "mesh" and at not in ("cellsize", "cellcenters", "facecenters",
                                                                            "dims"):
            return self.mesh_property(at, node)
        return self.with_base(node, base, super().ev_Attribute)

    def cell_property(self, obj, name):
        """a `@property` of class CellVariable, interpreted with `self` = obj"""
        fn = self.ctx.cell_method(name, prop=True)
        a = fn.args
        if len(a.args) != 1 or a.vararg or a.kwarg or a.kwonlyargs or a.defaults:
            raise Bad(f"CellVariable.{name}: signature")
        sub = self.spawn("cell")
        sub.env[a.args[0].arg] = obj
        try:
            return sub.run(fn)
        except Bad as ex:
            raise Bad(f"CellVariable.{name}: {ex}")

    def cell_value(self, obj):
        return self.cell_property(obj, "value")

    def defining_class(self, name):
        for c in self.mesh.mro(self.cls):
            if any(isinstance(m, ast.FunctionDef) and m.name == name for m in self.mesh.classes[c].body):
                return c
        return None

    def mesh_property(self, name, node):
        if self.cls is None:
            raise Bad(f"mesh attribute .{name}: no grid class")
        c = self.defining_class(name)
        if c is None:
            raise Bad(f"mesh attribute .{name}")
        defs = [m for m in self.mesh.classes[c].body if isinstance(m, ast.FunctionDef) and m.name == name]
        if len(defs) != 1 or len(defs[0].decorator_list) != 1 \
                or not (isinstance(defs[0].decorator_list[0], ast.Name) and defs[0].decorator_list[0].id == "property"):
            raise Bad(f"mesh attribute .{name}: not a plain read-only @property of {c}")
        if "property" in tnum.SHADOWED:
            raise Bad("the name `property` is rebound in the package")
        if name in tnum.package_attr_stores():
            raise Bad(f"mesh attribute .{name}: an attribute of that name is assigned somewhere in the package")
        fn = defs[0]
        a = fn.args
        if len(a.args) != 1 or a.vararg or a.kwarg or a.kwonlyargs or a.defaults:
            raise Bad(f"{c}.{name}: signature")
        self.trace.append(("mesh", f"property {name}", True, c))
        sub = self.spawn("mesh")
        sub.env[a.args[0].arg] = Ref("mesh")
        try:
            return sub.run(fn)
        except Bad as ex:
            raise Bad(f"{c}.{name}: {ex}")

    def call_helper(self, fn, modname, node, first=()):
        if first and isinstance(first[0], Ref) and first[0].what[0] == "mesh" and self.cls is not None:
            self.trace.append(("mesh", f"method {fn.name}", True, self.defining_class(fn.name)))
        return super().call_helper(fn, modname, node, first)

    # ---- operators on `mesh.dims` of a 1-D grid (`Nx = mesh.dims; np.ones(Nx+1)`)
    def ev_BinOp(self, node):
        if isinstance(node.op, (ast.Add, ast.Sub)):
            a, b = self.ev(node.left), self.ev(node.right)
            if isinstance(a, Ref) and a.what[0] == "dims" and isinstance(b, Poly):
                nd = self.need_ndim()
                return Tup([Poly.var(x) + b if isinstance(node.op, ast.Add) else Poly.var(x) - b for x in AXES[:nd]])
            self._memo[id(node.left)], self._memo[id(node.right)] = a, b
            try:
                return super().ev_BinOp(node)
            finally:
                self._memo.pop(id(node.left), None)
                self._memo.pop(id(node.right), None)
        return super().ev_BinOp(node)

    # ---- indexing
    def ev_Subscript(self, node):
        base = self.ev(node.value)
        if isinstance(base, Tup):
            sl = node.slice
            if isinstance(sl, ast.Constant) and type(sl.value) is int and 0 <= sl.value < len(base.items):
                return base.items[sl.value]
            raise Bad(f"subscript {ast.unparse(node)[:50]}")
        return self.with_base(node, base, super().ev_Subscript)

    # ---- calls
    def ev_Call(self, node):
        f = node.func
        if isinstance(f, ast.Name) and f.id == "len" and "len" not in self.env and "len" not in tnum.SHADOWED \
                and len(node.args) == 1 and not node.keywords:
            v = self.ev(node.args[0])
            if isinstance(v, Tup):
                return Poly.const(len(v.items))
            raise Bad(f"len of {ast.unparse(node.args[0])[:40]}")
        if isinstance(f, ast.Name) and f.id == "FaceVariable" and f.id not in self.env and len(node.args) != 4:
            return self.new_face(node)
        if isinstance(f, ast.Attribute) and f.attr in ("flatten", "sum") and not node.args and not node.keywords \
                and not (isinstance(f.value, ast.Name) and f.value.id == "np"):
            v = self.ev(f.value)
            if isinstance(v, Poly):
                v = self.as_num(v)
            if not (isinstance(v, Arr) and v.kind == "num"):
                raise Bad(f".{f.attr}() of something that is not a numeric array")
            if f.attr == "flatten":
                if any(a is None for a, _ in v.dims):
                    raise Bad(f".flatten() of an array with a broadcast dimension {v.shape()}")
                return Arr(v.dims, v.fn, raveled=v.raveled or len(v.dims) > 1)       # a fresh buffer
            return self.total_sum(v)
        return super().ev_Call(node)

    def total_sum(self, v):
        if any(a is None for a, _ in v.dims):
            raise Bad(f".sum() of an array with a broadcast dimension {v.shape()}")
        axes = [a for a, _ in v.dims]
        if len(set(axes)) != len(axes):
            raise Bad(f".sum() of an array of shape {v.shape()}: an axis occurs twice")
        binds = tuple((VAR[a], rnat(L)) for a, L in v.dims)
        body = v.fn([(VAR[a], 0) for a in axes])
        return scalar(("sum", binds, body))

    def new_face(self, node):
        """`FaceVariable(mesh, c)`: interpret `FaceVariable.__init__`"""
        if node.keywords or len(node.args) < 1 or any(isinstance(x, ast.Starred) for x in node.args):
            raise Bad("FaceVariable(...): arguments")
        cls = self.ctx.find_class("face", "FaceVariable")
        inits = [m for m in cls.body if isinstance(m, ast.FunctionDef) and m.name == "__init__" and not m.decorator_list]
        if len(inits) != 1:
            raise Bad("FaceVariable.__init__: expected exactly one undecorated definition")
        fn = inits[0]
        a = fn.args
        if len(a.args) != 2 or a.vararg is None or a.kwarg or a.kwonlyargs or a.defaults or a.posonlyargs:
            raise Bad("FaceVariable.__init__: signature is not (self, mesh, *args)")
        m = self.ev(node.args[0])
        if not (isinstance(m, Ref) and m.what[0] == "mesh"):
            raise Bad("FaceVariable(...): the first argument is not the mesh")
        rest = [self.ev(x) for x in node.args[1:]]
        for v in rest:
            if not (isinstance(v, Poly) or (isinstance(v, Arr) and v.kind == "num")):
                raise Bad("FaceVariable(...): argument kind")
        obj = OFace()
        sub = self.spawn("face")
        sub.env[a.args[0].arg] = obj
        sub.env[a.args[1].arg] = m
        sub.env[a.vararg.arg] = Tup(rest)
        try:
            r = sub.run_body(fn)
        except Bad as ex:
            raise Bad(f"FaceVariable.__init__: {ex}")
        if r is not None:
            raise Bad("FaceVariable.__init__ returns a value")
        if not obj.domain_ok:
            raise Bad("FaceVariable.__init__ does not store the mesh in self.domain")
        nd = self.need_ndim()
        for n, d in enumerate(AXES):
            c = obj.comps.get(d)
            if c is None:
                raise Bad(f"FaceVariable.__init__ does not set _{d}value")
            if n >= nd:
                if not isinstance(c, Empty):
                    raise Bad(f"FaceVariable.__init__: _{d}value of a {nd}-D grid is not np.array([])")
            else:
                want = face_shape(d, nd)
                if isinstance(c, Empty) or c.dims != want:
                    raise Bad(f"FaceVariable.__init__: _{d}value has shape "
                              f"{'()' if isinstance(c, Empty) else c.shape()}, not {shape_txt(want)}")
        return obj

    # ---- numpy
    def const_array(self, shp, val, what):
        ls = shp.items if isinstance(shp, Tup) else [shp]
        if not ls or not all(isinstance(L, Poly) for L in ls):
            raise Bad(f"{what}: shape is not a tuple of integers")
        if self.ndim is not None and len(ls) != self.ndim:
            raise Bad(f"{what}: {len(ls)}-D array on a {self.ndim}-D grid")
        dims = []
        for n, L in enumerate(ls):
            if L == ONE:
                dims.append((None, ONE))
                continue
            try:
                a, s, c = lin(L)
            except Bad:
                a = None
            if a is None or s != 1 or n >= 3 or a != AXES[n]:
                raise Bad(f"{what}: length {L} of dimension {n} is neither 1 nor N{AXES[n] if n < 3 else '?'} + c")
            if tupw.pmin(L) < 1:
                raise Bad(f"{what}: possibly empty dimension {L}")
            dims.append((a, L))
        return Arr(dims, lambda pos: val)

    def np_call(self, name, node):
        args = node.args
        if name == "asarray" and len(args) == 1 and all(k.arg == "dtype" and ast.unparse(k.value) == "float"
                                                        for k in node.keywords) and len(node.keywords) <= 1 \
                and "float" not in tnum.SHADOWED:
            v = self.ev(args[0])
            if isinstance(v, Empty):
                return v
            if isinstance(v, Poly):
                return self.as_num(v)
            if not (isinstance(v, Arr) and v.kind == "num"):
                raise Bad("np.asarray of a non-array")
            return v                                        # the SAME buffer
        if node.keywords:
            raise Bad(f"np.{name} with keywords")
        if name in ("zeros", "ones") and len(args) == 1:
            shp = self.ev(args[0])
            ls = shp.items if isinstance(shp, Tup) else [shp]
            if name == "ones" or (isinstance(shp, Tup) and any(isinstance(L, Poly) and L == ONE for L in ls)):
                return self.const_array(shp, ZERO if name == "zeros" else UNIT, f"np.{name}")
            self._memo[id(args[0])] = shp
            try:
                return super().np_call(name, node)
            finally:
                self._memo.pop(id(args[0]), None)
        if name == "tile" and len(args) == 2:
            reps = self.ev(args[1])
            if isinstance(reps, Tup):
                return self.tile(self.ev(args[0]), reps, ast.unparse(node)[:60])
            self._memo[id(args[1])] = reps
            try:
                return super().np_call(name, node)
            finally:
                self._memo.pop(id(args[1]), None)
        if name in ("hstack", "concatenate") and len(args) == 1 and isinstance(args[0], (ast.List, ast.Tuple)):
            return self.hstack_pw([self.ev(e) for e in args[0].elts], f"np.{name}")
        return super().np_call(name, node)

    def tile(self, v, reps, txt):
        if isinstance(v, Poly):
            v = self.as_num(v)
        if not (isinstance(v, Arr) and v.kind == "num") or v.raveled:
            raise Bad(f"{txt}: the first argument is not an (unraveled) numeric array")
        R = list(reps.items)
        if not all(isinstance(r, Poly) for r in R):
            raise Bad(f"{txt}: repetitions are not integers")
        n = max(len(v.dims), len(R))
        pre = n - len(v.dims)
        vd = [(None, ONE)] * pre + list(v.dims)
        R = [ONE] * (n - len(R)) + R
        dims = []
        for m, ((a, L), r) in enumerate(zip(vd, R)):
            if r == ONE:
                dims.append((a, L))
            elif a is None:
                try:
                    ax, s, c = lin(r)
                except Bad:
                    ax = None
                if ax is None or s != 1:
                    raise Bad(f"{txt}: repetition {r} is not of the form N + c")
                if tupw.pmin(r) < 1:
                    raise Bad(f"{txt}: possibly zero repetitions {r}")
                dims.append((ax, r))
            else:
                raise Bad(f"{txt}: repeating a dimension of length {L} ({r} times)")
        src = v.dims
        f = v.fn

        def fn(pos):
            return f([pos[pre + k] if src[k][0] is not None else None for k in range(len(src))])
        return Arr(dims, fn)                                # a fresh buffer

    def hstack_pw(self, blocks, what):
        bl = []
        axis, total = None, Poly()
        for b in blocks:
            if isinstance(b, Poly):
                b = self.as_num(b)
            if not (isinstance(b, Arr) and b.kind == "num"):
                raise Bad(f"{what} of something that is not a numeric array / number")
            if b.raveled or len(b.dims) > 1:
                raise Bad(f"{what} of a block of shape {b.shape()}")
            if b.dims:
                a, L = b.dims[0]
                if a is None:
                    raise Bad(f"{what} of a block with a broadcast dimension")
                if axis not in (None, a):
                    raise Bad(f"{what} of blocks along different axes ({axis}, {a})")
                axis = a
            else:
                L = ONE
            bl.append((b, total, total + L))
            total = total + L
        if axis is None:
            raise Bad(f"{what} of numbers only")

        def fn(pos):
            p = pos[0]
            out = None
            for b, start, end in reversed(bl):
                c = True if out is None else pos_lt(p, end)
                if c is False:
                    continue
                val = b.fn([shift(p, -start)]) if b.dims else b.fn([])
                out = val if c is True else ("ite", c, val, out)
            return out
        return Arr([(axis, total)], fn)                     # a fresh buffer


def face_shape(d, nd):
    return [(b, Poly.var(b) + (ONE if b == d else Poly())) for b in AXES[:nd]]


def shape_txt(dims):
    return "(" + ", ".join(str(L) for _, L in dims) + ")"


# ---------------------------------------------------------------------------------------------------------
# drivers
# ---------------------------------------------------------------------------------------------------------
# (module, python name, lean base name, kind, is a method of CellVariable)
TARGETS = [
    ("cell", "value", "value", "value", "prop"),
    ("cell", "cellvolume", "cellvolume", "volume", "prop"),
    ("cell", "domainIntegral", "domainIntegral", "integral", "method"),
    ("cell", "plotprofile", "plotprofile", "profile", "method"),
    ("cell", "cellLocations", "cellLocations", "cellloc", "function"),
    ("face", "faceLocations", "faceLocations", "faceloc", "function"),
]


def run_class(ctx, mod, pyname, how, cls):
    trace = []
    if how == "function":
        fn = ctx.functions(mod).get(pyname)
        if fn is None:
            raise Bad("function not found")
        a = tinert.effective_args(fn)
        if len(a.args) != 1 or a.vararg or a.kwarg or a.kwonlyargs or a.defaults:
            raise Bad("signature")
        it = OInterp(ctx, cls, mod, {}, trace)
        it.env[a.args[0].arg] = Ref("mesh")
    else:
        fn = ctx.cell_method(pyname, prop=(how == "prop"))
        a = tinert.effective_args(fn)
        if len(a.args) != 1 or a.vararg or a.kwarg or a.kwonlyargs or a.defaults:
            raise Bad("signature")
        it = OInterp(ctx, cls, mod, {a.args[0].arg: ("cell", "φ")}, trace)
    it.cell_numbers()
    return it, it.run(fn), trace


def at_pos(it, arr, want, what):
    if not (isinstance(arr, Arr) and arr.kind == "num"):
        raise Bad(f"{what}: not a numeric array")
    if arr.raveled or arr.dims != want:
        raise Bad(f"{what}: shape {arr.shape()} is not {shape_txt(want)}")
    return sstrip(tupw.render(arr.fn(it.ipos()), {}))


def ghosted_dims(nd):
    return [(a, Poly.var(a) + Poly.const(2)) for a in AXES[:nd]]


def materialize(it, res, kind):
    """{component: Lean term} (+ 'shape:<component>': text)"""
    nd = it.need_ndim()
    if kind in ("value", "volume"):
        return {"v": at_pos(it, res, it.interior_dims(), "result")}
    if kind == "integral":
        if isinstance(res, Poly):
            res = it.as_num(res)
        if not (isinstance(res, Arr) and res.kind == "num" and not res.dims):
            raise Bad("result is not a number")
        return {"v": sstrip(tupw.render(res.fn([]), {}))}
    if kind == "profile":
        if not (isinstance(res, Tup) and len(res.items) == nd + 1):
            raise Bad(f"result is not a tuple of {nd + 1} arrays")
        out = {}
        for n, (a, x) in enumerate(zip(AXES, res.items[:nd])):
            if not (isinstance(x, Arr) and x.kind == "num") or x.raveled:
                raise Bad(f"coordinate {a}: not a numeric array")
            own = (a, Poly.var(a) + Poly.const(2))
            wants = [[own]] if nd < 3 else []
            wants.append([own if m == n else (None, ONE) for m in range(nd)])
            if x.dims not in wants:
                raise Bad(f"coordinate {a}: shape {x.shape()}")
            k = [m for m, d in enumerate(x.dims) if d[0] is not None][0]
            pos = [("p", 0) if m == k else None for m in range(len(x.dims))]
            out[a] = sstrip(tupw.render(x.fn(pos), {}))
            out["shape:" + a] = x.shape()
        phi = res.items[nd]
        out["phi"] = at_pos(it, phi, ghosted_dims(nd), "phi0")
        out["shape:phi"] = phi.shape()
        if is_input(bufof(phi)):
            raise Bad("phi0 is a view of the variable's own array")
        return out
    if kind == "cellloc":
        items = [res] if isinstance(res, DCell) else res.items if isinstance(res, Tup) else None
        if items is None or len(items) != nd or not all(isinstance(x, DCell) for x in items):
            raise Bad(f"result is not {nd} CellVariable(s)")
        return {"XYZ"[n]: at_pos(it, x.interior, it.interior_dims(), f"{'XYZ'[n]}") for n, x in enumerate(items)}
    if kind == "faceloc":
        items = [res] if isinstance(res, FaceObj) else res.items if isinstance(res, Tup) else None
        if items is None or len(items) != nd or not all(isinstance(x, FaceObj) for x in items):
            raise Bad(f"result is not {nd} FaceVariable(s)")
        if len({id(x) for x in items}) != len(items):
            raise Bad("the same FaceVariable object is returned twice")
        out, bufs = {}, []
        for n, (D, obj) in enumerate(zip(AXES, items)):
            want = face_shape(D, nd)
            for m, a in enumerate(AXES):
                c = obj.comps.get(a)
                if m >= nd:
                    if not isinstance(c, Empty):
                        raise Bad(f"{'XYZ'[n]}._{a}value on a {nd}-D grid is not empty")
                    continue
                if not isinstance(c, Arr):
                    raise Bad(f"{'XYZ'[n]}._{a}value is not an array")
                b = bufof(c)
                if is_input(b):
                    raise Bad(f"{'XYZ'[n]}._{a}value is (a view of) the array {'.'.join(b[1:])} of the mesh: the returned "
                              f"FaceVariable would alias it")
                if any(b is b2 for b2 in bufs):
                    raise Bad(f"{'XYZ'[n]}._{a}value shares its buffer with another returned component")
                bufs.append(b)
                out[f"{D}face_{a}"] = at_pos(it, c, want, f"{'XYZ'[n]}._{a}value")
                out[f"shape:{D}face_{a}"] = c.shape()
        return out
    raise Bad(f"result kind {kind}")


def emit(lean, fam, kind, comps, classes):
    doc = "classes: " + ", ".join(classes)
    out = []
    if kind == "value":
        out.append(f"/-- `CellVariable.value` (getter) at the 0-based interior position (i, j, k); {doc} -/\n"
                   f"def {lean}_{fam} (M : Mesh α) (φ : CellFld α) (i j k : ℕ) : α :=\n  {comps['v']}\n")
    elif kind == "volume":
        out.append(f"/-- `CellVariable.cellvolume` at the 0-based interior position (i, j, k); {doc} -/\n"
                   f"def {lean}_{fam} (M : Mesh α) (i j k : ℕ) : α :=\n  {comps['v']}\n")
    elif kind == "integral":
        out.append(f"/-- `CellVariable.domainIntegral()`; {doc} -/\n"
                   f"def {lean}_{fam} (M : Mesh α) (φ : CellFld α) : α :=\n  {comps['v']}\n")
    elif kind == "profile":
        for a in AXES:
            if a in comps:
                out.append(f"/-- `plotprofile()`: coordinate array {a} (shape {comps['shape:' + a]}) at position p; {doc} -/\n"
                           f"def {lean}_{a}_{fam} (M : Mesh α) (p : ℕ) : α :=\n  {comps[a]}\n")
        out.append(f"/-- `plotprofile()`: value array (shape {comps['shape:phi']}) at the 0-based position (i, j, k) "
                   f"(= ghosted model index); {doc} -/\n"
                   f"def {lean}_phi_{fam} (M : Mesh α) (φ : CellFld α) (i j k : ℕ) : α :=\n  {comps['phi']}\n")
    elif kind == "cellloc":
        for n in "XYZ":
            if n in comps:
                out.append(f"/-- `cellLocations(m)`: interior values of {n} at the 0-based interior position (i, j, k); {doc} -/\n"
                           f"def {lean}_{n}_{fam} (M : Mesh α) (i j k : ℕ) : α :=\n  {comps[n]}\n")
    elif kind == "faceloc":
        for D in AXES:
            for a in AXES:
                key = f"{D}face_{a}"
                if key in comps:
                    out.append(f"/-- `faceLocations(m)`: `{D.upper()}._{a}value` (shape {comps['shape:' + key]}) at the 0-based "
                               f"position (i, j, k) of the {D}-face array; {doc} -/\n"
                               f"def {lean}_{key}_{fam} (M : Mesh α) (i j k : ℕ) : α :=\n  {comps[key]}\n")
    return out


def translate_target(ctx, mod, pyname, lean, kind, how, status):
    runs = {}
    for cls in KIND:
        try:
            it, res, trace = run_class(ctx, mod, pyname, how, cls)
            runs[cls] = (tuple(trace), materialize(it, res, kind), None)
        except Bad as ex:
            runs[cls] = (None, None, str(ex))
        except RecursionError:
            runs[cls] = (None, None, "recursion")
    groups = {}
    for cls, (trace, comps, err) in runs.items():
        if err is not None:
            status[f"{lean}.{cls}"] = f"untranslated: {err}"
            continue
        groups.setdefault(trace, []).append(cls)
    defs, rows, labels, shapes = [], [], {}, []
    for trace, classes in groups.items():
        firsts = [t for t in trace if t[2]]
        lab = SUFFIX.get(firsts[0][3]) if firsts and firsts[0][3] else None
        if lab is None:
            lab = SUFFIX[classes[0]]
        key = f"{lean}.{lab}"
        if lab in labels:
            status[key] = f"untranslated: two different traces are both named {lab}"
            continue
        labels[lab] = classes
        texts = {json.dumps(runs[c][1], sort_keys=True) for c in classes}
        if len(texts) != 1:
            status[key] = f"untranslated: the classes {', '.join(classes)} reach the branch with different formulas"
            continue
        comps = runs[classes[0]][1]
        defs.extend(emit(lean, lab, kind, comps, classes))
        for k in comps:
            if k.startswith("shape:"):
                c = k[6:]
                nm = f"{lean}_{c}_{lab}"
                shapes.append(f'("{nm}", "{comps[k]}")')
        status[key] = "ok"
        rows.append((lab, classes))
    return defs, rows, shapes


HEADER = """/- GENERATED by harness/translate/tobs.py from cell.py, face.py (class hierarchy and `_getCellVolumes` of mesh.py) — do
   not edit.  Observer functions: `CellVariable.value` / `.cellvolume` / `.domainIntegral()` / `.plotprofile()`,
   `cellLocations(m)`, `faceLocations(m)`.  Interior arrays at the 0-based interior position (i, j, k) (= model cell
   (i+1, j+1, k+1)); the value array of `plotprofile()` at the 0-based position of the ghosted shape (= model index);
   face arrays at the 0-based position of the face array.  Proved equal to the model in PyFV/Props/GenEqObs.lean. -/
import PyFV.Model.Geom
import PyFV.Model.Terms
import Mathlib.Algebra.BigOperators.Intervals

set_option linter.unusedVariables false

namespace PyFV.Gen.ObsGen

variable {α : Type} [Field α] [LinearOrder α] [IsStrictOrderedRing α]
"""


def generate(repo):
    status, out = {}, [HEADER]
    tinert.set_repo(repo)
    ctx = tavg.Ctx(repo)
    last_mod = None
    for mod, pyname, lean, kind, how in TARGETS:
        if mod != last_mod:
            out.append(f"/-! ### {mod}.py -/\n")
            last_mod = mod
        try:
            defs, rows, shapes = translate_target(ctx, mod, pyname, lean, kind, how, status)
        except Bad as ex:
            defs, rows, shapes = [], [], []
            status[lean] = f"untranslated: {ex}"
        out.extend(defs)
        if kind in ("profile", "faceloc"):
            out.append(f"/-- shapes of the arrays returned by `{pyname}` (N* = cell counts) -/\n"
                       f"def {lean}_shapes : List (String × String) :=\n  [" + ",\n   ".join(shapes) + "]\n")
        out.append(f"/-- branch (family) of `{pyname}` ↦ grid classes that reach it -/\n"
                   f"def {lean}_classes : List (String × List Kind) :=\n  ["
                   + ",\n   ".join(f'("{lab}", [' + ", ".join("." + KIND[c] for c in cl) + "])" for lab, cl in rows) + "]\n")
    bad = [k for k, v in status.items() if v != "ok"]
    out.append("def untranslated : List String := [" + ", ".join(f'"{k}"' for k in bad) + "]\n")
    out.append("end PyFV.Gen.ObsGen\n")
    return "\n".join(out), status


def main():
    repo = os.environ.get("VERIF_REPO", "/repo")
    dst = sys.argv[1]
    text, status = generate(repo)
    status = tnum.annotate_helpers(tinert.annotate(status))
    write_if_changed(dst, text)
    base = os.path.splitext(os.path.basename(dst))[0].lower()
    write_if_changed(os.path.join(os.path.dirname(os.path.abspath(dst)), f"{base}_status.json"),
                     json.dumps(status, indent=1, sort_keys=True) + "\n")
    print(json.dumps(status))


if __name__ == "__main__":
    main()
