#!/usr/bin/env python3
"""T-eff: translate the public builders / operators / solvers of PyFVTool into the effect IR of
PyFV/Model/Effects.lean (properties C14, C15).

  python3 harness/translate/teff.py lean/PyFV/Gen/Effects.lean

writes  <out>                      `prog_<f>`, `cert_<f>`, `mutable_<f>`, `allowedRet_<f>`, name lists
        <dir>/EffectsSafe.lean     `theorem safe_<f> … = true` or `theorem unsafe_<f> … = false` (`by decide +kernel`)
        <dir>/effects_status.json  full status: per function regions written / returned / reachable, the offending
                                   statements (file:line) of every unsafe function, callbacks, conservative fallbacks
                                   (read by the dynamic validation harness/effects.py)
and prints a one-line JSON summary.  stdlib `ast` only; nothing is imported from the package; source root
from $VERIF_REPO (default /repo).

Pipeline
  1. `Package`   parses every module: functions, classes, properties (getter/setter), base classes, import scopes.
  2. `Builder`   walks one function body ONCE and produces certificate-independent statements (MIR):
                 alias / fresh / store / write / ret plus the symbolic `attr`, `setattr`, `item`, `call`.
                 One variable per parameter / local / temporary that carries a reference; scalars carry nothing.
       ALIAS   rebinding, basic slicing / indexing, `.ravel() .reshape() .T .view()`, `np.asarray/reshape/ravel/squeeze/
               broadcast_to`, `TrackedArray(x)` (a view), `x if c else y`, tuple / list displays (fresh container
               + stores), unpacking / iteration (`item`)
       FRESH   arithmetic / comparison / unary operators on arrays, `np.copy/zeros/ones/array/hstack/tile/...`,
               `x.copy()`, `csr_array(...)`, fancy indexing on the right, `deepcopy(x)` (a fresh object that contains only
               itself, its own copy of the mesh included); scalars (`len`, `.item()`, `.tobytes()`, …) are untracked
       WRITE   `x[...] = e`, `x[...] op= e`, `x op= e`, `np.copyto(x, e)`, `.fill/.sort/.resize`, `out=x`;
               `o.attr = e` is a store into `o` (which the checker counts as a write of `o`'s regions)
       CALL    package functions / constructors / methods (by name over all classes that define it) / operators between
               `CellVariable`s / `FaceVariable`s (the dunder is called): see 4.
       calls of a parameter / local (user callbacks `f`, `FL`, `externalsolver`): ASSUMED not to modify their arguments;
               the result may alias every argument (recorded under "callbacks")
       anything else: conservative (write every mentioned variable, result aliases all of them), recorded under
               "conservative" with file:line; `global`, `random`, `time`, written mutable defaults: write of `.glob`
  3. `Analysis`  solves the constraints of one function (least fixpoint), lowering the symbolic statements with the
                 current certificate.  Internally the contents of a region are kept PER FIELD, so
       `y.domain`  denotes the mesh objects stored in `y` (for an input: the implicit mesh parameter, see below),
       `y.attr`    the non-mesh members stored under `attr` (or under "any field": inputs, containers);
                 the lowering is an `alias` from the CANONICAL variable of each such region (parameter `i` for
                 `.inp i`, the mesh parameter for `.meshObj`, `load` of it for `.meshData`, a dedicated variable for a
                 fresh site).  Property getters / setters are expanded in place (two levels, then summaries).
                 `self` of `__init__` is a new, empty object.  Attributes that only ever hold immutable values
                 (`_BCs_applied`) carry nothing.
  4. summaries   (writes, returned regions, stored references per field, sites by kind) are iterated to a global
                 fixpoint over the call graph.  At a call site the callee's `.inp j` stands for everything reachable from
                 argument `j` without entering the mesh (only the argument itself for stores that always hit the
                 parameter object, and for `self` of `__init__`); its fresh sites become sites of the caller.
  5. emission    aliases merged per target, dead reads removed, stores into objects that do not escape the call are
                 dropped (all reads of their fields are already resolved: scalar replacement), variables / sites
                 renumbered, contents recomputed as the least solution of the emitted stores.  A Python replica of
                 `PyFV.Eff.safe` decides `safe_` vs `unsafe_` and names the offending statements; a certificate that is
                 not closed aborts the run (never a false `= true`).
Parameters: a mesh (`m`, `mesh`, `mesh_struct`, annotation is a mesh class, `self` of a mesh class) is `.meshObj`
(`self` of `CellProp` classes: `.meshData`), parameter `i` otherwise `.inp i` (`self` is 0, `*args` one parameter).
When the mesh of an input is needed and the function has no mesh parameter, an IMPLICIT trailing parameter of region
`.meshObj` is appended ("the mesh of the inputs"); likewise `.glob` for module-level state.
"""
import ast, sys, os, json, itertools

MODULES = ["utilities", "mesh", "boundary", "cell", "face", "averaging", "calculus", "diffusion", "advection",
           "source", "pdesolver"]
MESH_PARAM_NAMES = {"m", "mesh", "mesh_struct"}

NP_ALIAS = {"asarray", "asanyarray", "reshape", "ravel", "squeeze", "broadcast_to", "transpose", "atleast_1d",
            "atleast_2d", "atleast_3d", "expand_dims", "swapaxes", "moveaxis"}
NP_FRESH = {"copy", "zeros", "ones", "array", "hstack", "vstack", "tile", "arange", "full", "where", "maximum",
            "minimum", "abs", "exp", "log", "sin", "cos", "sqrt", "max", "min", "sum", "all", "any", "nonzero",
            "meshgrid", "ix_", "sign", "logical_and", "logical_or", "logical_not", "isscalar", "linspace", "diff",
            "prod", "zeros_like", "ones_like", "empty", "concatenate", "cumsum", "mean", "float64", "isfinite",
            "tan", "power", "absolute", "log10", "floor", "ceil", "array_equal", "allclose", "shape", "size",
            "ndim", "repeat", "eye", "dot", "outer", "int64", "flatnonzero", "argsort", "unique", "isnan", "amax",
            "amin", "round", "clip", "stack", "isclose", "count_nonzero",
            # elementwise ufuncs spelled as functions (`np.negative(x)` for `-x`, `np.greater(a, b)` for `a > b`, ...):
            # the result is a new array; an `out=` argument is recorded as a write by `npcall`
            "negative", "positive", "add", "subtract", "multiply", "divide", "true_divide", "floor_divide", "mod",
            "remainder", "square", "reciprocal", "fabs", "greater", "greater_equal", "less", "less_equal", "equal",
            "not_equal", "logical_xor", "fmax", "fmin", "hypot", "arctan2", "arctan", "arcsin", "arccos", "sinh",
            "cosh", "tanh", "exp2", "expm1", "log2", "log1p", "cbrt", "rint", "trunc", "heaviside", "copysign",
            "signbit", "isinf", "full_like", "empty_like", "identity", "argmax", "argmin", "argwhere"}
NP_UFUNC1 = {"abs", "absolute", "fabs", "negative", "positive", "exp", "exp2", "expm1", "log", "log2", "log10", "log1p", "sqrt",
             "cbrt", "square", "reciprocal", "sin", "cos", "tan", "arcsin", "arccos", "arctan", "sinh", "cosh", "tanh", "sign",
             "floor", "ceil", "rint", "trunc", "isfinite", "isnan", "isinf", "signbit", "logical_not"}
NP_UFUNC2 = {"add", "subtract", "multiply", "divide", "true_divide", "floor_divide", "mod", "remainder", "power", "maximum",
             "minimum", "fmax", "fmin", "hypot", "arctan2", "copysign", "heaviside", "greater", "greater_equal", "less",
             "less_equal", "equal", "not_equal", "logical_and", "logical_or", "logical_xor"}
NP_WRITE0 = {"copyto", "put", "place", "putmask", "fill_diagonal"}
METH_ALIAS = {"ravel", "reshape", "view", "squeeze", "transpose", "swapaxes"}
METH_FRESH = {"copy", "flatten", "item", "tobytes", "sum", "max", "min", "all", "any", "astype", "tolist",
              "toarray", "nonzero", "mean", "tocsr", "tocoo", "todense", "dot", "prod", "format", "join", "keys",
              "values", "items", "get", "lower", "upper", "startswith", "endswith", "conj", "cumsum", "argmax",
              "argmin", "round", "diagonal", "multiply", "power", "getformat", "count", "index", "split", "strip"}
METH_WRITE = {"fill", "sort", "resize", "setdiag", "eliminate_zeros", "sum_duplicates", "itemset", "partition"}
ATTR_SCALAR = {"shape", "size", "ndim", "dtype", "nnz", "__class__", "__name__", "itemsize", "nbytes", "real", "imag"}
BUILTIN_FRESH = {"len", "type", "isinstance", "issubclass", "bool", "int", "float", "str", "range", "print", "hasattr",
                 "min", "max", "sum", "repr", "format", "id", "round", "enumerate", "zip", "sorted", "any", "all",
                 "int_range", "csr_array", "spsolve", "warn", "vars", "callable", "divmod", "pow", "complex",
                 "csc_array", "coo_array", "Fraction", "dict", "set", "frozenset", "bytes", "iter", "next", "map",
                 "filter", "reversed", "slice", "Exception", "ValueError", "TypeError", "AttributeError",
                 "NotImplementedError", "RuntimeError", "KeyError", "IndexError", "use_solver"}
BUILTIN_SCALAR = {"len", "type", "isinstance", "issubclass", "bool", "int", "float", "str", "print", "hasattr", "repr",
                  "format", "id", "round", "callable", "warn", "use_solver", "range", "min", "max", "sum", "any", "all"}
METH_SCALAR = {"item", "tobytes", "sum", "max", "min", "all", "any", "mean", "prod", "format", "join", "lower", "upper",
               "startswith", "endswith", "argmax", "argmin", "getformat", "count", "index", "strip"}
NP_SCALAR = {"isscalar", "array_equal", "allclose", "shape", "size", "ndim", "float64", "int64", "count_nonzero"}
GLOB_MODULES = {"random", "time"}
BINOP = {ast.Add: "add", ast.Sub: "sub", ast.Mult: "mul", ast.Div: "truediv", ast.Pow: "pow", ast.BitAnd: "and",
         ast.BitOr: "or", ast.FloorDiv: "floordiv", ast.Mod: "mod", ast.MatMult: "matmul", ast.BitXor: "xor"}
CMPOP = {ast.Gt: "gt", ast.GtE: "ge", ast.Lt: "lt", ast.LtE: "le", ast.Eq: "eq", ast.NotEq: "ne"}
CMP_REFLECT = {"gt": "lt", "ge": "le", "lt": "gt", "le": "ge", "eq": "eq", "ne": "ne"}

MESHOBJ, MESHDATA, GLOB = ("meshObj",), ("meshData",), ("glob",)


def rstr(r):
    return r[0] + (str(r[1]) if len(r) > 1 else "")


def rlean(r):
    return "." + r[0] + (f" {r[1]}" if len(r) > 1 else "")


def rkey(r):
    return ({"inp": 0, "meshObj": 1, "meshData": 2, "glob": 3, "fresh": 4}[r[0]], r[1] if len(r) > 1 else 0)


def srt(rs):
    """regions in a fixed order: the ORDER in which instructions / variables / sites are created must not depend on
    the iteration order of Python sets (string hashing is randomised per process)"""
    return sorted(rs, key=rkey)


def is_fresh(r):
    return r[0] == "fresh"


def is_mesh(r):
    return r[0] in ("meshObj", "meshData")


# ====================================================================== package model

class Fn:
    def __init__(self, module, cls, node, kind, path):
        self.module, self.cls, self.node, self.kind, self.path = module, cls, node, kind, path
        self.pyname = node.name
        self.qual = f"{module}." + (f"{cls.name}." if cls else "") + node.name + ("" if kind in ("func", "method") else f"@{kind}")
        a = node.args
        self.params = [x.arg for x in a.posonlyargs + a.args]
        self.npos = len(self.params)
        self.vararg = None
        if a.vararg:
            self.vararg = len(self.params); self.params.append(a.vararg.arg)
        self.kwonly = {}
        for x in a.kwonlyargs:
            self.kwonly[x.arg] = len(self.params); self.params.append(x.arg)
        self.kwarg = None
        if a.kwarg:
            self.kwarg = len(self.params); self.params.append(a.kwarg.arg)
        self.ann = {x.arg: ast.unparse(x.annotation) for x in a.posonlyargs + a.args + a.kwonlyargs if x.annotation is not None}
        self.mutable_defaults = []
        pos = a.posonlyargs + a.args
        for x, d in zip(pos[len(pos) - len(a.defaults):], a.defaults):
            if isinstance(d, (ast.Dict, ast.List, ast.Set)):
                self.mutable_defaults.append(x.arg)
        for x, d in zip(a.kwonlyargs, a.kw_defaults):
            if isinstance(d, (ast.Dict, ast.List, ast.Set)):
                self.mutable_defaults.append(x.arg)
        self.pregions = None
        self.ret_type = None
        self.summary = None
        self.an = None          # last Analysis

    def loc(self, node=None):
        return f"{self.path}:{(node or self.node).lineno}"


class Cls:
    def __init__(self, module, node):
        self.module, self.node, self.name = module, node, node.name
        self.bases = [b.id for b in node.bases if isinstance(b, ast.Name)]
        self.methods, self.getters, self.setters = {}, {}, {}
        self.plain_attrs = set()
        self.side = "var"


class Package:
    def __init__(self, root):
        self.root = root
        self.funcs = {}     # module -> name -> Fn
        self.classes = {}   # name -> Cls
        self.scope = {}     # module -> visible name -> ("func", Fn) | ("class", Cls)
        self.modvars = {}   # module -> names bound at module level to something that is not an immutable constant
        self.all = []
        for mod in MODULES:
            path = os.path.join(root, "src/pyfvtool", mod + ".py")
            if not os.path.exists(path):
                continue
            rel = f"src/pyfvtool/{mod}.py"
            tree = ast.parse(open(path).read())
            self.funcs[mod] = {}
            self.modvars[mod] = set()
            for st in tree.body:
                if isinstance(st, (ast.Assign, ast.AnnAssign, ast.AugAssign)):
                    tgs = st.targets if isinstance(st, ast.Assign) else [st.target]
                    val = st.value
                    if val is not None and not self._immutable_const(val):
                        for tg in tgs:
                            for n in ast.walk(tg):
                                if isinstance(n, ast.Name):
                                    self.modvars[mod].add(n.id)
                if isinstance(st, ast.FunctionDef) and not self._overload(st):
                    f = Fn(mod, None, st, "func", rel)
                    self.funcs[mod][st.name] = f; self.all.append(f)
                elif isinstance(st, ast.ClassDef):
                    c = Cls(mod, st)
                    self.classes[c.name] = c
                    for m in st.body:
                        if not isinstance(m, ast.FunctionDef) or self._overload(m):
                            continue
                        decs = [ast.unparse(d) for d in m.decorator_list]
                        if "property" in decs:
                            f = Fn(mod, c, m, "getter", rel); c.getters[m.name] = f
                        elif any(d.endswith(".setter") for d in decs):
                            f = Fn(mod, c, m, "setter", rel); c.setters[m.name] = f
                        else:
                            f = Fn(mod, c, m, "method", rel); c.methods[m.name] = f
                        self.all.append(f)
                    for n in ast.walk(st):
                        if isinstance(n, ast.Attribute) and isinstance(n.ctx, ast.Store) and isinstance(n.value, ast.Name) and n.value.id == "self":
                            c.plain_attrs.add(n.attr)
            self._tree = tree
        # module scopes (own definitions + `from .x import y`)
        for mod in self.funcs:
            sc = {}
            path = os.path.join(root, "src/pyfvtool", mod + ".py")
            tree = ast.parse(open(path).read())
            for st in tree.body:
                if isinstance(st, ast.ImportFrom) and st.level >= 1 and st.module in self.funcs:
                    for al in st.names:
                        nm = al.asname or al.name
                        if al.name in self.modvars.get(st.module, ()):
                            self.modvars[mod].add(nm)      # module-level state of a sibling module, imported by name
                        if al.name in self.funcs[st.module]:
                            sc[nm] = ("func", self.funcs[st.module][al.name])
                        elif al.name in self.classes:
                            sc[nm] = ("class", self.classes[al.name])
            for nm, f in self.funcs[mod].items():
                sc[nm] = ("func", f)
            for c in self.classes.values():
                if c.module == mod:
                    sc[c.name] = ("class", c)
            self.scope[mod] = sc
        # class sides
        for c in self.classes.values():
            anc = self.ancestors(c)
            if any(a.name == "MeshStructure" for a in anc):
                c.side = "meshObj"
            elif any(a.name == "CellProp" for a in anc):
                c.side = "meshData"
        self.mesh_class_names = {c.name for c in self.classes.values() if c.side == "meshObj"}
        # by-name tables
        self.methods_by_name, self.getters_by_name, self.setters_by_name = {}, {}, {}
        for c in self.classes.values():
            for tab, src in ((self.methods_by_name, c.methods), (self.getters_by_name, c.getters), (self.setters_by_name, c.setters)):
                for nm, f in src.items():
                    tab.setdefault(nm, []).append(f)
        for f in self.all:
            self._param_regions(f)
        self._ret_types()

    @staticmethod
    def _immutable_const(v):
        """numbers, strings, None, tuples of these: a module-level NAME bound to such a value carries no shared state"""
        if isinstance(v, ast.Constant):
            return True
        if isinstance(v, ast.UnaryOp) and isinstance(v.op, (ast.USub, ast.UAdd)):
            return Package._immutable_const(v.operand)
        if isinstance(v, ast.Tuple):
            return all(Package._immutable_const(x) for x in v.elts)
        if isinstance(v, ast.BinOp):
            return Package._immutable_const(v.left) and Package._immutable_const(v.right)
        return False

    @staticmethod
    def _overload(fn):
        return any(ast.unparse(d) == "overload" for d in fn.decorator_list)

    def ancestors(self, c):
        out, todo = [], [c]
        while todo:
            x = todo.pop(0)
            if x in out:
                continue
            out.append(x)
            todo += [self.classes[b] for b in x.bases if b in self.classes]
        return out

    def lookup_method(self, c, name):
        for a in self.ancestors(c):
            if name in a.methods:
                return a.methods[name]
        return None

    def _param_regions(self, f):
        regs = []
        for i, p in enumerate(f.params):
            if i == 0 and f.cls is not None and p == "self":
                regs.append(MESHOBJ if f.cls.side == "meshObj" else (MESHDATA if f.cls.side == "meshData" else ("inp", 0)))
            elif p in MESH_PARAM_NAMES or f.ann.get(p, "").split(".")[-1] in self.mesh_class_names:
                regs.append(MESHOBJ)
            else:
                regs.append(("inp", i))
        f.pregions = regs

    def _ret_types(self):
        for _ in range(4):
            for f in self.all:
                if f.ret_type:
                    continue
                r = f.node.returns
                if r is not None and ast.unparse(r) in ("CellVariable", "FaceVariable"):
                    f.ret_type = {"CellVariable": "cell", "FaceVariable": "face"}[ast.unparse(r)]
                    continue
                ts = set()
                for n in ast.walk(f.node):
                    if isinstance(n, ast.Return) and n.value is not None:
                        v = n.value
                        if isinstance(v, ast.Call) and isinstance(v.func, ast.Name):
                            if v.func.id in ("CellVariable", "FaceVariable"):
                                ts.add({"CellVariable": "cell", "FaceVariable": "face"}[v.func.id])
                            else:
                                tgt = self.scope[f.module].get(v.func.id)
                                ts.add(tgt[1].ret_type if tgt and tgt[0] == "func" else None)
                        else:
                            ts.add(None)
                if len(ts) == 1 and None not in ts:
                    f.ret_type = ts.pop()


# ====================================================================== function body -> MIR

class Builder:
    """walks one function body once and produces certificate-independent statements (MIR)"""

    def __init__(self, pkg, fn, log, host=None, bind=None, result=None, tag=""):
        """host=None: a function of its own.  host=Analysis: the body is expanded INTO the host
        (parameters bound to the host variables `bind`, returns flow into host variable `result`)"""
        self.pkg, self.fn, self.log = pkg, fn, log
        self.host, self.result, self.tag = host, result, tag
        self.locals = set(fn.params)
        self.list_names = set()
        self.types = {}
        for n in ast.walk(fn.node):
            if isinstance(n, ast.Name) and isinstance(n.ctx, (ast.Store, ast.Del)):
                self.locals.add(n.id)
        for p, a in fn.ann.items():
            if a in ("CellVariable", "FaceVariable"):
                self.types[p] = {"CellVariable": "cell", "FaceVariable": "face"}[a]
        if fn.cls is not None and fn.params and fn.params[0] == "self" and fn.cls.name in ("CellVariable", "FaceVariable"):
            self.types["self"] = {"CellVariable": "cell", "FaceVariable": "face"}[fn.cls.name]
        self.tmps = {}
        self.sites = {}
        self.uses_glob = False
        if host is None:
            self.names = list(fn.params)
            self.vid = {p: i for i, p in enumerate(fn.params)}
            self.site_info = {}
            self.mir = []
        else:
            self.names = None
            self.vid = {}
            self.site_info = host.site_info
            self.mir = []
            for i, p in enumerate(fn.params):
                x = self.v(p)
                if bind.get(i):
                    self.mir.append(("alias", x, list(bind[i]), fn.loc()))
        self._infer_local_types()
        for st in fn.node.body:
            self.stmt(st)
        for p in fn.mutable_defaults:
            self.emit("globdefault", self.v(p), fn.node)

    # ---------------------------------------------------------------- helpers
    def v(self, name):
        if name not in self.vid:
            if self.host is None:
                self.vid[name] = len(self.names); self.names.append(name)
            else:
                self.vid[name] = self.host.newvar(f"{self.tag}{name}")
        return self.vid[name]

    def tmp(self, key, label):
        if key not in self.tmps:
            if self.host is None:
                self.tmps[key] = len(self.names); self.names.append(label)
            else:
                self.tmps[key] = self.host.newvar(f"{self.tag}{label}")
        return self.tmps[key]

    def site(self, key, node, kind):
        if key not in self.sites:
            if self.host is None:
                self.sites[key] = len(self.sites)
            else:
                self.sites[key] = self.host.nsites
                self.host.nsites += 1
            self.site_info[self.sites[key]] = {"line": self.fn.loc(node), "kind": kind}
        return self.sites[key]

    def emit(self, op, *args):
        node = args[-1]
        self.mir.append((op,) + args[:-1] + (self.fn.loc(node),))

    def pos(self, node):
        return (node.lineno, node.col_offset, getattr(node, "end_col_offset", 0))

    def _infer_local_types(self):
        for _ in range(3):
            for n in ast.walk(self.fn.node):
                if isinstance(n, ast.Assign) and len(n.targets) == 1 and isinstance(n.targets[0], ast.Name):
                    t = self.etype(n.value)
                    if t:
                        self.types[n.targets[0].id] = t
                    if isinstance(n.value, (ast.List, ast.ListComp)) or (isinstance(n.value, ast.Call) and isinstance(n.value.func, ast.Name) and n.value.func.id == "list"):
                        self.list_names.add(n.targets[0].id)

    def etype(self, e):
        if isinstance(e, ast.Name):
            return self.types.get(e.id)
        if isinstance(e, ast.Call) and isinstance(e.func, ast.Name):
            if e.func.id in ("CellVariable", "FaceVariable") and e.func.id not in self.locals:
                return {"CellVariable": "cell", "FaceVariable": "face"}[e.func.id]
            tgt = self.pkg.scope[self.fn.module].get(e.func.id)
            if tgt and tgt[0] == "func" and e.func.id not in self.locals:
                return tgt[1].ret_type
            if e.func.id == "abs" and e.args:
                return self.etype(e.args[0])
        if isinstance(e, ast.BinOp):
            return self.etype(e.left) or self.etype(e.right)
        if isinstance(e, ast.UnaryOp):
            return self.etype(e.operand)
        if isinstance(e, ast.Compare) and len(e.ops) == 1:
            return self.etype(e.left) or self.etype(e.comparators[0])
        if isinstance(e, ast.IfExp):
            return self.etype(e.body) or self.etype(e.orelse)
        return None

    def fresh(self, node, need, kind="array", tag="f"):
        if not need:
            return []
        key = ("fresh",) + self.pos(node) + (tag,)
        t = self.tmp(key, f"%{kind}@{node.lineno}")
        k = self.site(key, node, kind)
        self.emit("fresh", t, k, node)
        return [t]

    def conservative(self, node, what, vars_):
        self.log["conservative"].append({"fn": self.fn.qual, "at": self.fn.loc(node), "what": what})
        for x in vars_:
            self.emit("write", x, node)
        return list(vars_)

    # ---------------------------------------------------------------- statements
    def stmt(self, st):
        if isinstance(st, ast.Expr):
            if not isinstance(st.value, ast.Constant):
                self.ev(st.value, False)
        elif isinstance(st, ast.Assign):
            for tg in st.targets:
                self.assign(tg, st.value, st)
        elif isinstance(st, ast.AnnAssign):
            if st.value is not None:
                self.assign(st.target, st.value, st)
        elif isinstance(st, ast.AugAssign):
            self.augassign(st)
        elif isinstance(st, ast.Return):
            if st.value is not None and not (isinstance(st.value, ast.Constant)):
                for x in self.ev(st.value, True):
                    if self.host is None:
                        self.emit("ret", x, st)
                    elif self.result is not None:
                        self.emit("alias", self.result, [x], st)
        elif isinstance(st, (ast.If, ast.While)):
            self.ev(st.test, False)
            for s in st.body + st.orelse:
                self.stmt(s)
        elif isinstance(st, ast.For):
            self.bind_iter(st.target, st.iter, st)
            for s in st.body + st.orelse:
                self.stmt(s)
        elif isinstance(st, ast.With):
            for it in st.items:
                vs = self.ev(it.context_expr, True)
                if it.optional_vars is not None and isinstance(it.optional_vars, ast.Name) and vs:
                    self.emit("alias", self.v(it.optional_vars.id), vs, st)
            for s in st.body:
                self.stmt(s)
        elif isinstance(st, ast.Try):
            for s in st.body + st.orelse + st.finalbody:
                self.stmt(s)
            for h in st.handlers:
                for s in h.body:
                    self.stmt(s)
        elif isinstance(st, ast.Raise):
            if st.exc is not None:
                self.ev(st.exc, False)
        elif isinstance(st, ast.Assert):
            self.ev(st.test, False)
        elif isinstance(st, (ast.Pass, ast.Break, ast.Continue, ast.Import, ast.ImportFrom)):
            pass
        elif isinstance(st, (ast.Global, ast.Nonlocal)):
            self.uses_glob = True
            self.emit("globwrite", st)
        elif isinstance(st, ast.Delete):
            pass
        else:
            mentioned = [self.v(n.id) for n in ast.walk(st) if isinstance(n, ast.Name) and n.id in self.locals]
            self.conservative(st, f"statement {type(st).__name__}", mentioned)

    def bind_iter(self, target, it, node):
        if isinstance(it, (ast.Tuple, ast.List)):
            vs = []
            for e in it.elts:
                vs += self.ev(e, True)
            self.bind(target, vs, node, item=False)
            return
        vs = self.ev(it, True)
        self.bind(target, vs, node, item=True)

    def bind(self, target, vs, node, item):
        """bind `target` to (the items of, if item) the values vs"""
        if item and vs:
            t = self.tmp(("item", tuple(vs)), "%item")
            self.emit("item", t, vs, node)
            vs = [t]
        if isinstance(target, ast.Name):
            if vs:
                self.emit("alias", self.v(target.id), vs, node)
        elif isinstance(target, (ast.Tuple, ast.List)):
            for e in target.elts:
                self.bind(e.value if isinstance(e, ast.Starred) else e, vs, node, item=True)
        elif isinstance(target, ast.Attribute):
            base = self.ev(target.value, True)
            if base:
                self.emit("setattr", base, target.attr, [] if target.attr in VALUE_FIELDS else vs, node)
        elif isinstance(target, ast.Subscript):
            base = self.ev(target.value, True)
            self.ev_slice(target.slice)
            for b in base:
                self.emit("write", b, node)
            if isinstance(target.value, ast.Name) and target.value.id in self.list_names:
                for b in base:
                    for x in vs:
                        self.emit("store", b, x, node)

    def assign(self, target, value, node):
        if isinstance(target, (ast.Tuple, ast.List)):
            if isinstance(value, (ast.Tuple, ast.List)) and len(value.elts) == len(target.elts):
                for t, e in zip(target.elts, value.elts):
                    self.assign(t, e, node)
                return
            if isinstance(value, ast.Call):
                vs = self.call(value, True, deref=True)
                if vs is not None:
                    for e in target.elts:
                        self.bind(e.value if isinstance(e, ast.Starred) else e, vs, node, item=False)
                    return
            vs = self.ev(value, True)
            for e in target.elts:
                self.bind(e.value if isinstance(e, ast.Starred) else e, vs, node, item=True)
            return
        if isinstance(target, ast.Subscript):
            vs = self.ev(value, isinstance(target.value, ast.Name) and target.value.id in self.list_names)
        else:
            vs = self.ev(value, True)
        self.bind(target, vs, node, item=False)

    def augassign(self, st):
        tg = st.target
        self.ev(st.value, False)
        if isinstance(tg, ast.Name):
            t = self.etype(tg)
            if t in ("cell", "face") and type(st.op) in BINOP:
                vs = self.dunder(t, BINOP[type(st.op)], tg, st.value, st, True)
                if vs:
                    self.emit("alias", self.v(tg.id), vs, st)
            elif tg.id in self.locals:
                self.emit("write", self.v(tg.id), st)
        elif isinstance(tg, ast.Subscript):
            for b in self.ev(tg.value, True):
                self.emit("write", b, st)
            self.ev_slice(tg.slice)
        elif isinstance(tg, ast.Attribute):
            base = self.ev(tg.value, True)
            cur = self.ev(ast.Attribute(value=tg.value, attr=tg.attr, ctx=ast.Load(), lineno=tg.lineno, col_offset=tg.col_offset,
                                        end_col_offset=tg.end_col_offset), True)
            for x in cur:
                self.emit("write", x, st)
            if base:
                self.emit("setattr", base, tg.attr, cur, st)

    # ---------------------------------------------------------------- expressions
    def ev_slice(self, s):
        if isinstance(s, ast.Slice):
            for p in (s.lower, s.upper, s.step):
                if p is not None:
                    self.ev(p, False)
        elif isinstance(s, ast.Tuple):
            for e in s.elts:
                self.ev_slice(e)
        else:
            self.ev(s, False)

    @staticmethod
    def fancy(s):
        if isinstance(s, ast.Tuple):
            return any(Builder.fancy(e) for e in s.elts)
        return isinstance(s, (ast.List, ast.Compare, ast.BoolOp, ast.ListComp))

    def ev(self, e, need):
        """returns the IR variables the value of `e` may alias ([] = nothing tracked)"""
        if isinstance(e, ast.Name):
            if e.id in self.locals:
                return [self.v(e.id)]
            if e.id in self.pkg.modvars.get(self.fn.module, ()):
                # a module-level variable (a cache, a registry, ...): module-level state, shared between calls
                self.uses_glob = True
                t = self.tmp(("globvar", e.id), f"%global:{e.id}")
                self.emit("globret", t, e)
                return [t]
            return []
        if isinstance(e, ast.Constant):
            return []
        if isinstance(e, ast.JoinedStr):
            for v in e.values:
                if isinstance(v, ast.FormattedValue):
                    self.ev(v.value, False)
            return []
        if isinstance(e, ast.Attribute):
            if isinstance(e.value, ast.Name) and e.value.id not in self.locals and e.value.id not in self.pkg.modvars.get(self.fn.module, ()):
                return []         # np.pi, np.newaxis, module constants
            base = self.ev(e.value, True)
            if not base or e.attr in ATTR_SCALAR:
                return []
            if e.attr == "T":
                return base
            if e.attr in VALUE_FIELDS:
                return []
            t = self.tmp(("attr", tuple(base), e.attr), "%." + e.attr)
            self.emit("attr", t, base, e.attr, e)
            return [t]
        if isinstance(e, ast.Subscript):
            if isinstance(e.value, ast.Call):
                vs = self.call(e.value, True, deref=True)
                self.ev_slice(e.slice)
                if vs is not None:
                    return vs
                base = self.ev(e.value, True)
            else:
                base = self.ev(e.value, True)
                self.ev_slice(e.slice)
            if not base:
                return []
            if self.fancy(e.slice):
                return self.fresh(e, need, "array", "fancy")
            t = self.tmp(("item", tuple(base)), "%item")
            self.emit("item", t, base, e)
            return base + [t]
        if isinstance(e, ast.BinOp):
            t = self.etype(e.left) or self.etype(e.right)
            if t in ("cell", "face") and type(e.op) in BINOP:
                return self.dunder(t, BINOP[type(e.op)], e.left, e.right, e, need)
            self.ev(e.left, False); self.ev(e.right, False)
            return self.fresh(e, need)
        if isinstance(e, ast.UnaryOp):
            t = self.etype(e.operand)
            if t in ("cell", "face") and isinstance(e.op, ast.USub):
                return self.dunder(t, "neg", e.operand, None, e, need)
            self.ev(e.operand, False)
            return self.fresh(e, need) if not isinstance(e.op, ast.Not) else []
        if isinstance(e, ast.Compare):
            if len(e.ops) == 1 and type(e.ops[0]) in CMPOP:
                t = self.etype(e.left) or self.etype(e.comparators[0])
                if t in ("cell", "face") and CMPOP[type(e.ops[0])] in ("gt", "ge", "lt", "le"):
                    return self.dunder(t, CMPOP[type(e.ops[0])], e.left, e.comparators[0], e, need)
            self.ev(e.left, False)
            for c in e.comparators:
                self.ev(c, False)
            return self.fresh(e, need) if not all(isinstance(o, (ast.Is, ast.IsNot, ast.In, ast.NotIn)) for o in e.ops) else []
        if isinstance(e, ast.BoolOp):
            out = []
            for v in e.values:
                out += self.ev(v, need)
            return list(dict.fromkeys(out))
        if isinstance(e, ast.IfExp):
            self.ev(e.test, False)
            return list(dict.fromkeys(self.ev(e.body, need) + self.ev(e.orelse, need)))
        if isinstance(e, (ast.Tuple, ast.List, ast.Set)):
            parts = []
            for x in e.elts:
                parts += self.ev(x.value if isinstance(x, ast.Starred) else x, need)
            if not need:
                return list(dict.fromkeys(parts))
            return self.container(e, parts, "tuple" if isinstance(e, ast.Tuple) else "list")
        if isinstance(e, ast.Dict):
            parts = []
            for x in e.values:
                if x is not None:
                    parts += self.ev(x, need)
            return self.container(e, parts, "dict") if need else list(dict.fromkeys(parts))
        if isinstance(e, (ast.GeneratorExp, ast.ListComp, ast.SetComp)):
            for g in e.generators:
                self.bind_iter(g.target, g.iter, e)
                for c in g.ifs:
                    self.ev(c, False)
            parts = self.ev(e.elt, True)
            return self.container(e, parts, "gen" if isinstance(e, ast.GeneratorExp) else "list") if need else parts
        if isinstance(e, ast.Call):
            return self.call(e, need)
        if isinstance(e, ast.Starred):
            return self.ev(e.value, need)
        if isinstance(e, ast.Lambda):
            mentioned = [self.v(n.id) for n in ast.walk(e) if isinstance(n, ast.Name) and n.id in self.locals]
            return self.conservative(e, "lambda", mentioned)
        mentioned = [self.v(n.id) for n in ast.walk(e) if isinstance(n, ast.Name) and n.id in self.locals]
        return self.conservative(e, f"expression {type(e).__name__}", mentioned)

    def container(self, node, parts, kind):
        key = ("fresh",) + self.pos(node) + ("c",)
        t = self.tmp(key, f"%{kind}@{node.lineno}")
        k = self.site(key, node, kind)
        self.emit("fresh", t, k, node)
        for x in dict.fromkeys(parts):
            self.emit("store", t, x, node)
        return [t]

    # ---------------------------------------------------------------- calls
    def dunder(self, t, op, left, right, node, need):
        cname = {"cell": "CellVariable", "face": "FaceVariable"}[t]
        c = self.pkg.classes.get(cname)
        lt = self.etype(left)
        if right is None:
            f = self.pkg.lookup_method(c, f"__{op}__") if c else None
            recv, other = self.ev(left, True), []
        elif lt in ("cell", "face"):
            f = self.pkg.lookup_method(self.pkg.classes[{"cell": "CellVariable", "face": "FaceVariable"}[lt]], f"__{op}__")
            recv, other = self.ev(left, True), self.ev(right, True)
        else:
            rop = CMP_REFLECT[op] if op in CMP_REFLECT else "r" + op
            f = self.pkg.lookup_method(c, f"__{rop}__") if c else None
            recv, other = self.ev(right, True), self.ev(left, True)
        if f is None:
            return self.conservative(node, f"operator {op} on {cname} has no method", recv + other)
        argmap = {0: recv}
        if right is not None and len(f.params) > 1:
            argmap[1] = other
        return self.pkgcall(node, [(f, argmap)], need, False)

    def pkgcall(self, node, targets, need, deref):
        """targets: [(Fn, {param index: [vars]})]"""
        key = ("call",) + self.pos(node)
        x = self.tmp(key, f"%call@{node.lineno}") if need else None
        self.emit("call", x, [(f.qual, am) for f, am in targets], key, bool(deref), node)
        return [x] if need else []

    def argmap(self, f, node, recv=None):
        """map the actual arguments of call `node` to the parameters of f"""
        am = {}
        pos = list(range(f.npos))
        if recv is not None:
            am[0] = list(recv)
            pos = pos[1:]
        i = 0
        for a in node.args:
            if isinstance(a, ast.Starred):
                vs = self.ev(a.value, True)
                items = []
                if vs:
                    t = self.tmp(("item", tuple(vs)), "%item")
                    self.emit("item", t, vs, node)
                    items = [t]
                for p in pos[i:]:
                    am.setdefault(p, []).extend(items)
                if f.vararg is not None:
                    am.setdefault(f.vararg, []).extend(vs + items)
                i = len(pos)
                continue
            vs = self.ev(a, True)
            if i < len(pos):
                am.setdefault(pos[i], []).extend(vs)
            elif f.vararg is not None:
                am.setdefault(f.vararg, []).extend(vs)
            i += 1
        for kw in node.keywords:
            vs = self.ev(kw.value, True)
            if kw.arg is None:
                continue
            if kw.arg in f.params:
                am.setdefault(f.params.index(kw.arg), []).extend(vs)
            elif f.kwarg is not None:
                am.setdefault(f.kwarg, []).extend(vs)
        return am

    def construct(self, node, c, need):
        key = ("fresh",) + self.pos(node) + ("new",)
        s = self.tmp(key, f"%{c.name}@{node.lineno}")
        k = self.site(key, node, "obj:" + c.name)
        self.emit("fresh", s, k, node)
        init = self.pkg.lookup_method(c, "__init__")
        if init is not None:
            am = self.argmap(init, node, recv=[s])
            self.emit("call", None, [(init.qual, am)], ("call",) + self.pos(node), False, node)
        else:
            for a in node.args:
                self.ev(a, False)
        return [s]

    def all_args(self, node, need=True):
        out = []
        for a in node.args:
            out += self.ev(a.value if isinstance(a, ast.Starred) else a, need)
        for kw in node.keywords:
            out += self.ev(kw.value, need)
        return list(dict.fromkeys(out))

    def call(self, node, need, deref=False):
        """deref=True: the caller wants the ELEMENTS of the returned tuple; returns None when the call
        cannot be treated that way (caller falls back to ev + item)"""
        f = node.func
        if deref:
            # only package calls can be dereferenced directly
            tg = None
            if isinstance(f, ast.Name) and f.id not in self.locals:
                tg = self.pkg.scope[self.fn.module].get(f.id)
            if not (tg and tg[0] == "func"):
                return None
            if any(ast.unparse(d) not in ("overload", "staticmethod") for d in getattr(tg[1].node, "decorator_list", [])):
                return None     # decorated (caching) callee: no direct dereference, the general rule below applies
            return self.pkgcall(node, [(tg[1], self.argmap(tg[1], node))], True, True)
        if isinstance(f, ast.Name):
            nm = f.id
            if nm in self.locals:
                args = self.all_args(node)
                self.log["callbacks"].append({"fn": self.fn.qual, "at": self.fn.loc(node), "callee": nm})
                return list(dict.fromkeys(args + self.fresh(node, need, "array", "cb")))
            if nm == "TrackedArray":
                return self.all_args(node)
            if nm == "deepcopy":
                self.all_args(node, False)
                return self.fresh(node, need, "deep")
            if nm == "abs" and node.args and self.etype(node.args[0]) in ("cell", "face"):
                return self.dunder(self.etype(node.args[0]), "abs", node.args[0], None, node, need)
            if nm == "abs" and len(node.args) == 1 and not node.keywords:
                # builtin abs of an ndarray / number is `x.__abs__()`: a new array (of a variable: handled above)
                self.all_args(node, False)
                return self.fresh(node, need)
            if nm == "getattr" and len(node.args) >= 2 and isinstance(node.args[1], ast.Constant) and isinstance(node.args[1].value, str):
                fake = ast.Attribute(value=node.args[0], attr=node.args[1].value, ctx=ast.Load())
                ast.copy_location(fake, node)
                out = self.ev(fake, need)
                for a in node.args[2:]:
                    out = out + self.ev(a, need)
                return list(dict.fromkeys(out))
            if nm in ("tuple", "list"):
                vs = self.all_args(node)
                if not need:
                    return []
                items = []
                if vs:
                    t = self.tmp(("item", tuple(vs)), "%item")
                    self.emit("item", t, vs, node)
                    items = [t]
                return self.container(node, items, nm)
            if nm == "super":
                return []
            tg = self.pkg.scope[self.fn.module].get(nm)
            if tg and tg[0] == "func":
                decs = [ast.unparse(d) for d in getattr(tg[1].node, "decorator_list", [])]
                if any(d not in ("overload", "staticmethod") for d in decs):
                    # a decorated function (lru_cache, a memoising wrapper, ...): what it returns may live in module-level
                    # state and be handed out again by a later call
                    self.all_args(node, False)
                    self.uses_glob = True
                    self.emit("globwrite", node)
                    if not need:
                        return []
                    t = self.tmp(("globret",) + self.pos(node), f"%cached@{node.lineno}")
                    self.emit("globret", t, node)
                    return [t]
                return self.pkgcall(node, [(tg[1], self.argmap(tg[1], node))], need, False)
            if tg and tg[0] == "class":
                return self.construct(node, tg[1], need)
            if nm in self.pkg.classes:
                return self.construct(node, self.pkg.classes[nm], need)
            if nm in BUILTIN_SCALAR:
                self.all_args(node, False)
                return []
            if nm in BUILTIN_FRESH or nm.endswith("Error") or nm.endswith("Exception") or nm.endswith("Warning"):
                self.all_args(node, False)
                return self.fresh(node, need)
            return self.conservative(node, f"call of unknown function {nm}", self.all_args(node))
        if isinstance(f, ast.Attribute):
            m = f.attr
            if isinstance(f.value, ast.Name) and f.value.id not in self.locals and f.value.id not in self.pkg.modvars.get(self.fn.module, ()):
                mod = f.value.id
                if mod in ("np", "numpy"):
                    return self.npcall(node, m, need)
                if mod in GLOB_MODULES:
                    self.all_args(node, False)
                    self.uses_glob = True
                    self.emit("globwrite", node)
                    return self.fresh(node, need)
                if mod in ("warnings", "math"):
                    self.all_args(node, False)
                    return self.fresh(node, need)
                if mod in self.pkg.classes:         # Class.method(obj, ...)
                    fn = self.pkg.lookup_method(self.pkg.classes[mod], m)
                    if fn is not None:
                        return self.pkgcall(node, [(fn, self.argmap(fn, node))], need, False)
                return self.conservative(node, f"call {mod}.{m}", self.all_args(node))
            if isinstance(f.value, ast.Call) and isinstance(f.value.func, ast.Name) and f.value.func.id == "super":
                fn = None
                if self.fn.cls is not None:
                    for a in self.pkg.ancestors(self.fn.cls)[1:]:
                        if m in a.methods:
                            fn = a.methods[m]; break
                if fn is None:
                    return self.conservative(node, f"super().{m} not found", self.all_args(node))
                return self.pkgcall(node, [(fn, self.argmap(fn, node, recv=[0]))], need, False)
            if isinstance(f.value, ast.Call) and isinstance(f.value.func, ast.Name) and f.value.func.id == "type":
                # type(self)(...)
                self.all_args(node, False)
                return self.conservative(node, "type(x).method", self.all_args(node))
            recv = self.ev(f.value, True)
            out = []
            handled = False
            if m in METH_ALIAS:
                self.all_args(node, False); out += recv; handled = True
            if m in METH_SCALAR:
                self.all_args(node, False); handled = True
            elif m in METH_FRESH:
                self.all_args(node, False); out += self.fresh(node, need, "array", "m"); handled = True
            if m in METH_WRITE:
                self.all_args(node, False)
                for r in recv:
                    self.emit("write", r, node)
                handled = True
            if m in ("append", "extend", "insert", "add", "update"):
                vs = self.all_args(node)
                for r in recv:
                    self.emit("write", r, node)
                    for x in vs:
                        self.emit("store", r, x, node)
                handled = True
            fns = self.pkg.methods_by_name.get(m, [])
            if fns and recv:
                out += self.pkgcall(node, [(fn, self.argmap(fn, node, recv=recv)) for fn in fns], need, False)
                handled = True
            if not handled:
                if not recv:
                    self.all_args(node, False)
                    return self.fresh(node, need)
                return self.conservative(node, f"method .{m}()", recv + self.all_args(node))
            return list(dict.fromkeys(out))
        # call of a call result / subscript ...
        vs = self.ev(f, True)
        return self.conservative(node, "call of a computed callee", vs + self.all_args(node))

    def npcall(self, node, m, need):
        for kw in node.keywords:
            if kw.arg == "out":
                for x in self.ev(kw.value, True):
                    self.emit("write", x, node)
        if m in NP_WRITE0:
            if node.args:
                for x in self.ev(node.args[0], True):
                    self.emit("write", x, node)
                for a in node.args[1:]:
                    self.ev(a, False)
            return []
        if m in NP_ALIAS:
            vs = self.ev(node.args[0], True) if node.args else []
            for a in node.args[1:]:
                self.ev(a, False)
            return vs
        if m in NP_SCALAR:
            self.all_args(node, False)
            return []
        if m in NP_FRESH:
            # a ufunc called with its output array as an extra POSITIONAL argument (`np.add(a, b, c)`) writes into it
            extra = node.args[2:] if m in NP_UFUNC2 else (node.args[1:] if m in NP_UFUNC1 else [])
            outs = []
            for a in extra:
                for x in self.ev(a, True):
                    self.emit("write", x, node)
                    outs.append(x)
            self.all_args(node, False)
            return outs if outs else self.fresh(node, need)
        if m in ("random",):
            self.uses_glob = True
            self.emit("globwrite", node)
            return self.fresh(node, need)
        return self.conservative(node, f"call np.{m}", self.all_args(node))


# ====================================================================== analysis of one function

class Analysis:
    INLINE_DEPTH = 2

    def __init__(self, pkg, fn, builder, log=None):
        self.pkg, self.fn, self.b = pkg, fn, builder
        self.log = log if log is not None else {"conservative": [], "callbacks": []}
        self.nv = len(builder.names)
        self.names = list(builder.names)
        self.nsites = len(builder.sites)
        self.site_info = dict(builder.site_info)
        self.inst_sites = {}
        self.canon = {}
        self.instrs = {}          # instr -> list of source notes
        self.pts = {}
        self.cont = {}            # region -> field -> set of regions   (field "*": any / items)
        self.writes = set()
        self.changed = False
        self.params = list(fn.pregions)
        self.is_init = fn.pyname == "__init__" and fn.cls is not None and fn.params[:1] == ["self"]
        self.mesh_var = None
        self.glob_var = None
        for i, r in enumerate(self.params):
            if r == MESHOBJ and self.mesh_var is None:
                self.mesh_var = i
        self.extra_params = []    # (var, region)
        self.extra_mir = []       # (depth, stmt) produced by inlining
        self.inlined = {}

    # ---------------------------------------------------------------- cert primitives
    def P(self, x):
        return self.pts.setdefault(x, set())

    def Cd(self, r):
        if r not in self.cont:
            d = self.cont[r] = {}
            if r[0] == "inp":
                if self.is_init and r == ("inp", 0):
                    d["*"] = set()      # `self` of a constructor is a new, empty object
                else:
                    d["*"] = {r, MESHOBJ}; self.Cd(MESHOBJ)
            elif r == MESHOBJ:
                d["*"] = {MESHDATA}; self.Cd(MESHDATA)
            elif r == MESHDATA:
                d["*"] = {MESHDATA}
            elif r == GLOB:
                d["*"] = {GLOB}
            elif is_fresh(r) and self.site_info.get(r[1], {}).get("kind") == "deep":
                d["*"] = {r}
        return self.cont[r]

    def C(self, r):
        out = set()
        for v in self.Cd(r).values():
            out |= v
        return out

    def addp(self, x, rs):
        s = self.P(x)
        n = len(s)
        s |= rs
        for r in rs:
            self.Cd(r)
        if len(s) != n:
            self.changed = True

    def addc(self, r, field, rs):
        s = self.Cd(r).setdefault(field, set())
        n = len(s)
        s |= rs
        for q in rs:
            self.Cd(q)
        if len(s) != n:
            self.changed = True

    def addw(self, rs):
        n = len(self.writes)
        self.writes |= rs
        if len(self.writes) != n:
            self.changed = True

    def newvar(self, label):
        self.names.append(label)
        self.nv += 1
        return self.nv - 1

    def ins(self, instr, note):
        if instr not in self.instrs:
            self.instrs[instr] = []
            self.changed = True
        if note not in self.instrs[instr] and len(self.instrs[instr]) < 32:
            self.instrs[instr].append(note)

    # ---------------------------------------------------------------- canonical variables
    def cv(self, r):
        if r[0] == "inp" and r[1] < len(self.params) and self.params[r[1]] == r:
            return r[1]
        if r in self.canon:
            return self.canon[r]
        if r == MESHOBJ:
            if self.mesh_var is None:
                self.mesh_var = self.newvar("<mesh>")
                self.extra_params.append((self.mesh_var, MESHOBJ))
                self.addp(self.mesh_var, {MESHOBJ})
            return self.mesh_var
        if r == GLOB:
            if self.glob_var is None:
                self.glob_var = self.newvar("<glob>")
                self.extra_params.append((self.glob_var, GLOB))
                self.addp(self.glob_var, {GLOB})
            return self.glob_var
        if r == MESHDATA:
            x = self.newvar("<meshdata>")
            self.canon[r] = x
            self.ins(("load", x, self.cv(MESHOBJ)), "canonical mesh data")
            return x
        if r[0] == "fresh":
            x = self.newvar(f"<site{r[1]}>")
            self.canon[r] = x
            self.ins(("fresh", x, r[1]), self.site_info[r[1]]["line"])
            return x
        raise KeyError(r)

    def reach_nonmesh(self, rs):
        """rs (mesh regions included when passed directly) and everything reachable from the non-mesh ones without entering the mesh"""
        out, todo = {r for r in rs if is_mesh(r)}, [r for r in rs if not is_mesh(r)]
        while todo:
            r = todo.pop()
            if r in out:
                continue
            out.add(r)
            todo += [q for q in self.C(r) if not is_mesh(q) and q not in out]
        return out

    def ptsl(self, vs):
        out = set()
        for x in vs:
            out |= self.P(x)
        return out

    # ---------------------------------------------------------------- lowering
    def members(self, r, name):
        d = self.Cd(r)
        if name is None:
            return {q for q in d.get("*", ()) if q != MESHOBJ}
        base = d.get(name, set()) | d.get("*", set())
        if name == "domain":
            return {q for q in base if q == MESHOBJ or (is_fresh(q) and self.site_info.get(q[1], {}).get("kind") == "deep")}
        return {q for q in base if q != MESHOBJ}

    def sides(self, rs):
        return {("meshObj" if r == MESHOBJ else ("meshData" if r == MESHDATA else "var")) for r in rs}

    def inline(self, key, f, bind, result, depth, note):
        if key in self.inlined:
            return
        self.inlined[key] = True
        tag = f"{f.cls.name if f.cls else ''}.{f.pyname}:"
        b = Builder(self.pkg, f, self.log, host=self, bind=bind, result=result, tag=tag)
        for st in b.mir:
            self.extra_mir.append((depth + 1, st[:-1] + (st[-1] + f" [in {f.qual} <- {note.split(' (')[0]}]" if depth == 0 else st[-1],)))
        self.changed = True

    def lower(self, st, depth=0):
        op, note = st[0], st[-1]
        if op == "alias":
            for y in st[2]:
                self.ins(("alias", st[1], y), note)
        elif op == "fresh":
            self.ins(("fresh", st[1], st[2]), note)
        elif op == "store":
            self.ins(("store", st[1], st[2], "*"), note)
        elif op == "write":
            self.ins(("write", st[1]), note)
        elif op == "ret":
            self.ins(("ret", st[1]), note)
        elif op == "globwrite":
            self.ins(("write", self.cv(GLOB)), note + " (module-level state)")
        elif op == "globret":
            self.ins(("alias", st[1], self.cv(GLOB)), note + " (module-level state: a module variable, or the result of a decorated / caching function)")
        elif op == "globdefault":
            if self.P(st[1]) & self.writes:
                self.ins(("write", self.cv(GLOB)), note + " (mutable default argument written)")
        elif op == "item":
            x, base = st[1], st[2]
            for r in srt(self.ptsl(base)):
                for q in srt(self.members(r, None)):
                    self.ins(("alias", x, self.cv(q)), note)
        elif op == "attr":
            x, base, name = st[1], st[2], st[3]
            rs = self.ptsl(base)
            for side in sorted(self.sides(rs)):
                getters = [f for f in self.pkg.getters_by_name.get(name, []) if f.cls.side == side]
                if getters:
                    for f in getters:
                        if depth < self.INLINE_DEPTH:
                            self.inline(("get", id(st), f.qual), f, {0: base}, x, depth, note)
                        else:
                            self.apply(f, {0: base}, x, False, ("get", x, f.qual), note + f" (property {f.cls.name}.{name})")
                else:
                    for r in srt(r for r in rs if self.sides({r}) == {side}):
                        for q in srt(self.members(r, name)):
                            self.ins(("alias", x, self.cv(q)), note)
        elif op == "setattr":
            base, name, vals = st[1], st[2], st[3]
            rs = self.ptsl(base)
            for side in sorted(self.sides(rs)):
                setters = [f for f in self.pkg.setters_by_name.get(name, []) if f.cls.side == side]
                if setters:
                    for f in setters:
                        if depth < self.INLINE_DEPTH:
                            self.inline(("set", id(st), f.qual), f, {0: base, 1: vals}, None, depth, note)
                        else:
                            self.apply(f, {0: base, 1: vals}, None, False, ("set", tuple(base), f.qual, note), note + f" (setter {f.cls.name}.{name})")
                else:
                    for b in base:
                        if vals:
                            for v in vals:
                                self.ins(("store", b, v, name), note)
                        else:
                            self.ins(("write", b), note)
        elif op == "call":
            x, targets, key, deref = st[1], st[2], st[3], st[4]
            for qual, am in targets:
                f = BYQUAL[qual]
                self.apply(f, am, x, deref, key + (qual, depth), note + f" (call {f.qual})")

    def apply(self, f, argmap, x, deref, key, note):
        S = f.summary
        if S is None:
            return
        sig = {}
        shallow0 = f.pyname == "__init__" and f.cls is not None
        for j, r in enumerate(f.pregions):
            if r[0] == "inp":
                ps = self.ptsl(argmap.get(j, []))
                sig[r] = set(ps) if (shallow0 and j == 0) else self.reach_nonmesh(ps)
        for r in (MESHOBJ, MESHDATA, GLOB):
            sig[r] = {r}

        def inst(r):
            if r in sig:
                return sig[r]
            if is_fresh(r):
                skey = (f.qual, r[1])
                k = self.inst_sites.get(skey)
                if k is None:
                    k = self.nsites
                    self.nsites += 1
                    if self.nsites > 600:
                        raise RuntimeError(f"site explosion in {self.fn.qual}")
                    self.inst_sites[skey] = k
                    info = S["site_info"].get(r[1], {"line": "?", "kind": "array"})
                    self.site_info[k] = {"line": info["line"], "kind": info["kind"], "via": note}
                return {("fresh", k)}
            return set()
        def is_tup(r):
            return is_fresh(r) and S["site_info"].get(r[1], {}).get("kind") in ("tuple", "list")
        skip = set()
        if deref and x is not None:
            inner = set()
            for (r, fld), ms in S["cont"].items():
                inner |= ms
            skip = {r for r in S["ret"] if is_tup(r) and r not in inner}     # tuples that are unpacked at once
        cont_items = sorted(S["cont"].items(), key=lambda kv: (rkey(kv[0][0]), kv[0][1]))
        for r in srt(S["writes"]):
            for q in srt(inst(r)):
                self.ins(("write", self.cv(q)), note)
        for (r, fld), ms in cont_items:
            if r in skip:
                continue
            tgt = inst(r)
            if (r, fld) in S.get("root_stores", ()):
                tgt = {q for q in self.ptsl(argmap.get(r[1], [])) if not is_mesh(q)}
            for p in srt(ms):
                for p2 in srt(inst(p)):
                    for q in srt(tgt):
                        self.ins(("store", self.cv(q), self.cv(p2), fld), note)
        if x is not None:
            for r in srt(S["ret"]):
                if r in skip:
                    for (r2, fld), ms in cont_items:
                        if r2 == r:
                            for p in srt(ms):
                                for p2 in srt(inst(p)):
                                    self._ret_into(x, p2, note)
                    continue
                for q in srt(inst(r)):
                    if deref:
                        if not is_tup(r):
                            self._ret_into(x, q, note)       # x[i] of an array / input object
                        for q2 in srt(self.members(q, None)):
                            self.ins(("alias", x, self.cv(q2)), note)
                    else:
                        self._ret_into(x, q, note)

    def _ret_into(self, x, q, note):
        if is_fresh(q) and q not in self.canon:
            self.ins(("fresh", x, q[1]), note)
        else:
            self.ins(("alias", x, self.cv(q)), note)

    # ---------------------------------------------------------------- solving
    def step(self, ins):
        op = ins[0]
        if op == "alias":
            self.addp(ins[1], set(self.P(ins[2])))
        elif op == "fresh":
            self.addp(ins[1], {("fresh", ins[2])})
        elif op == "load":
            for r in list(self.P(ins[2])):
                self.addp(ins[1], set(self.C(r)))
        elif op == "store":
            for r in list(self.P(ins[1])):
                self.addc(r, ins[3], set(self.P(ins[2])))
                self.addw({r})
        elif op == "write":
            self.addw(set(self.P(ins[1])))

    def run(self):
        for i, r in enumerate(self.params):
            self.addp(i, {r})
        while True:
            self.changed = False
            for st in self.b.mir:
                self.lower(st, 0)
            i = 0
            while i < len(self.extra_mir):
                d, st = self.extra_mir[i]
                self.lower(st, d)
                i += 1
            for ins in list(self.instrs):
                self.step(ins)
            if not self.changed:
                break
        return self

    # ---------------------------------------------------------------- results
    def ret_regions(self):
        out = set()
        for ins in self.instrs:
            if ins[0] == "ret":
                out |= self.P(ins[1])
        return out

    def summary(self):
        """summary in terms of the function's own regions; fresh sites of equal kind are merged"""
        ret = self.ret_regions()
        cont = {}
        roots = set(ret)
        for r in list(self.cont):
            if r[0] == "inp":
                for fld, ms in self.cont[r].items():
                    extra = set(ms) - ({r, MESHOBJ} if fld == "*" else set())
                    if extra:
                        cont[(r, fld)] = extra
                        roots |= extra
        todo = [r for r in roots if is_fresh(r)]
        seen = set()
        while todo:
            r = todo.pop()
            if r in seen:
                continue
            seen.add(r)
            for fld, ms in self.Cd(r).items():
                if ms:
                    cont[(r, fld)] = set(ms)
            todo += [q for q in self.C(r) if is_fresh(q)]
        rep, bykind = {}, {}
        for r in sorted(seen, key=rkey):
            kind = self.site_info[r[1]]["kind"]
            rep[r] = bykind.setdefault(kind, r)
        m = lambda r: rep.get(r, r)
        cont2 = {}
        for (r, fld), ms in cont.items():
            cont2.setdefault((m(r), fld), set()).update(m(q) for q in ms)
        # stores that only ever hit the parameter object itself (`self.f = v`): applied shallowly by callers
        deep = set()
        for ins in self.instrs:
            if ins[0] == "store":
                for r in self.P(ins[1]):
                    if r[0] == "inp" and not (ins[1] == r[1] and ins[1] < len(self.params) and self.P(ins[1]) == {r}):
                        deep.add((r, ins[3]))
        roots_only = {(r, fld) for (r, fld) in cont2 if r[0] == "inp" and (r, fld) not in deep}
        return {"writes": {r for r in self.writes if not is_fresh(r)}, "ret": {m(r) for r in ret},
                "cont": cont2, "root_stores": roots_only, "site_info": {k: v for k, v in self.site_info.items()}}


BYQUAL = {}
VALUE_FIELDS = set()


def summary_key(S):
    if S is None:
        return None
    return (tuple(sorted(S["writes"], key=rkey)), tuple(sorted(S["ret"], key=rkey)),
            tuple(sorted(((rkey(r), f), tuple(sorted(v, key=rkey))) for (r, f), v in S["cont"].items())),
            tuple(sorted((rkey(r), f) for r, f in S.get("root_stores", ()))))


# ====================================================================== selection of emitted functions

def selected(pkg):
    out = []

    def add(f, name, mutable, allowed):
        out.append((f, name, mutable, allowed))
    for mod in ("diffusion", "advection", "calculus"):
        for f in pkg.funcs.get(mod, {}).values():
            add(f, f.pyname, [], [])
    for nm in ("linearMean", "arithmeticMean", "geometricMean", "harmonicMean", "_harmonic_face", "upwindMean", "cell_size_array"):
        if nm in pkg.funcs.get("averaging", {}):
            add(pkg.funcs["averaging"][nm], nm, [], [])
    for f in pkg.funcs.get("source", {}).values():
        add(f, f.pyname, [], [])
    for f in pkg.funcs.get("boundary", {}).values():
        add(f, f.pyname, [], [])
    for cn in ("BoundaryFace", "BoundaryConditionsBase", "BoundaryConditions1D", "BoundaryConditions2D", "BoundaryConditions3D"):
        c = pkg.classes.get(cn)
        if c and "__init__" in c.methods:
            add(c.methods["__init__"], f"{cn}_init", [("inp", 0)], [])
    for cn, fnames in (("CellVariable", ("cellLocations", "funceval", "celleval")), ("FaceVariable", ("faceLocations", "faceeval"))):
        c = pkg.classes.get(cn)
        if not c:
            continue
        for mn, m in c.methods.items():
            if mn == "__init__":
                add(m, f"{cn}_init", [("inp", 0)], [])
            elif mn in ("apply_BCs", "update_value"):
                add(m, f"{cn}_{mn}", [("inp", 0)], [])
            elif mn in ("copy", "domainIntegral") or (mn.startswith("__") and mn.endswith("__") and mn not in ("__array__", "__str__", "__repr__")):
                add(m, f"{cn}_{mn.strip('_')}", [], [])
        if cn == "CellVariable" and "value" in c.getters:
            add(c.getters["value"], "CellVariable_value_getter", [], [("inp", 0)])
        for fnm in fnames:
            f = pkg.funcs.get(c.module, {}).get(fnm)
            if f:
                add(f, fnm, [], [])
    for c in pkg.classes.values():
        if c.side == "meshObj":
            if "_getCellVolumes" in c.methods and c.name != "MeshStructure":
                add(c.methods["_getCellVolumes"], f"{c.name}_getCellVolumes", [], [])
            if "cell_numbers" in c.methods:
                add(c.methods["cell_numbers"], f"{c.name}_cell_numbers", [], [])
    ps = pkg.funcs.get("pdesolver", {})
    if "solvePDE" in ps:
        add(ps["solvePDE"], "solvePDE", [("inp", 0)], [("inp", 0)])
    if "solveMatrixPDE" in ps:
        add(ps["solveMatrixPDE"], "solveMatrixPDE", [], [])
    if "solveExplicitPDE" in ps:
        add(ps["solveExplicitPDE"], "solveExplicitPDE", [("inp", 0)], [("inp", 0)])
    return out


# ====================================================================== emission

def finalize(an):
    """compact the analysed function: merge aliases, drop temporaries, renumber; returns a dict"""
    fn = an.fn
    instrs = dict(an.instrs)
    # peephole: temporary t with the single definition `fresh t k` used only as alias source -> allocate into the target
    nparams = len(an.params)
    named = set(range(len(an.b.names))) - set(an.b.tmps.values())
    changed = True
    while changed:
        changed = False
        defs, uses = {}, {}
        for ins in instrs:
            if ins[0] in ("alias", "load"):
                defs.setdefault(ins[1], []).append(ins); uses.setdefault(ins[2], []).append(ins)
            elif ins[0] == "fresh":
                defs.setdefault(ins[1], []).append(ins)
            elif ins[0] == "store":
                uses.setdefault(ins[1], []).append(ins); uses.setdefault(ins[2], []).append(ins)
            else:
                uses.setdefault(ins[1], []).append(ins)
        for t in list(defs):
            if t in named or t < nparams or any(t == v for v, _ in an.extra_params):
                continue
            d = defs[t]
            if len(d) == 1 and d[0][0] == "fresh" and all(u[0] == "alias" and u[2] == t for u in uses.get(t, [])) and uses.get(t):
                notes = instrs.pop(d[0])
                for u in uses[t]:
                    n2 = instrs.pop(u)
                    instrs.setdefault(("fresh", u[1], d[0][2]), [])
                    for n in notes + n2:
                        if n not in instrs[("fresh", u[1], d[0][2])]:
                            instrs[("fresh", u[1], d[0][2])].append(n)
                changed = True
                break
    # scalar replacement of aggregates that do not escape: a fresh site that is reachable neither from a
    # returned value nor from an input / the mesh / module state is local to the call; every read of its
    # fields has already been resolved to aliases of canonical variables, so the stores into it are dropped
    esc, todo = set(), list(an.ret_regions()) + [r for r in an.cont if not is_fresh(r)]
    while todo:
        r = todo.pop()
        if r in esc:
            continue
        esc.add(r)
        todo += list(an.C(r))
    for ins in list(instrs):
        if ins[0] == "store" and an.P(ins[1]) and all(is_fresh(r) and r not in esc for r in an.P(ins[1])):
            del instrs[ins]
    # dead reads: definitions of variables that never reach a write / store / return
    while True:
        src = set()
        for ins in instrs:
            if ins[0] in ("alias", "load"):
                src.add(ins[2])
            elif ins[0] == "store":
                src.add(ins[1]); src.add(ins[2])
            elif ins[0] in ("write", "ret"):
                src.add(ins[1])
        dead = [ins for ins in instrs if ins[0] in ("alias", "load", "fresh") and ins[1] not in src]
        if not dead:
            break
        for ins in dead:
            del instrs[ins]
    # variables in use
    used = set(range(nparams))
    for ins in instrs:
        if ins[0] == "fresh":
            used.add(ins[1])
        elif ins[0] in ("alias", "load", "store"):
            used.add(ins[1]); used.add(ins[2])
        else:
            used.add(ins[1])
    extra = [(v, r) for v, r in an.extra_params if v in used]
    order = list(range(nparams)) + [v for v, _ in extra] + sorted(x for x in used if x >= nparams and x not in {v for v, _ in extra})
    vmap = {x: i for i, x in enumerate(order)}
    # sites renumbered by first use
    smap = {}
    for ins in instrs:
        if ins[0] == "fresh" and ins[2] not in smap:
            smap[ins[2]] = len(smap)

    def mr(r):
        return ("fresh", smap[r[1]]) if is_fresh(r) else r
    # merged aliases
    body, notes = [], []
    alias_groups = {}
    for ins, nt in instrs.items():
        if ins[0] == "alias":
            key = vmap[ins[1]]
            if key not in alias_groups:
                alias_groups[key] = (len(body), [], [])
                body.append(None); notes.append(None)
            if vmap[ins[2]] not in alias_groups[key][1]:
                alias_groups[key][1].append(vmap[ins[2]])
            alias_groups[key][2].extend(n for n in nt if n not in alias_groups[key][2])
        elif ins[0] == "fresh":
            body.append(("fresh", vmap[ins[1]], smap[ins[2]])); notes.append(nt)
        elif ins[0] == "load":
            body.append(("load", vmap[ins[1]], vmap[ins[2]])); notes.append(nt)
        elif ins[0] == "store":
            si = ("store", vmap[ins[1]], vmap[ins[2]])
            if si in body:
                notes[body.index(si)].extend(n for n in nt if n not in notes[body.index(si)])
            else:
                body.append(si); notes.append(list(nt))
        else:
            body.append((ins[0], vmap[ins[1]])); notes.append(nt)
    for key, (idx, ys, nt) in alias_groups.items():
        body[idx] = ("alias", key, tuple(sorted(ys))); notes[idx] = nt
    params = list(an.params) + [r for _, r in extra]
    pts = {vmap[x]: sorted({mr(r) for r in an.P(x)}, key=rkey) for x in order}
    regions = set()
    for rs in pts.values():
        regions |= set(rs)
    writes = sorted({mr(r) for r in an.writes if not is_fresh(r) or r[1] in smap}, key=rkey)
    regions |= set(writes)
    # contents: the least solution for the emitted stores (input regions carry their initial closure)
    cont = {}

    def cget(r):
        if r not in cont:
            cont[r] = set()
            if r[0] == "inp":
                cont[r] |= {r, MESHOBJ}; cget(MESHOBJ)
            elif r == MESHOBJ:
                cont[r].add(MESHDATA); cget(MESHDATA)
            elif r in (MESHDATA, GLOB):
                cont[r].add(r)
        return cont[r]
    for r in regions:
        cget(r)
    for ins in body:
        if ins[0] == "store":
            for r in pts[ins[1]]:
                cget(r).update(pts[ins[2]])
    for r in list(cont):
        for q in list(cont[r]):
            cget(q)
    cont = {r: sorted(v, key=rkey) for r, v in cont.items()}
    regions = sorted(cont, key=rkey)
    inv = {v: k for k, v in smap.items()}
    sites = {k: an.site_info[inv[k]] for k in inv}
    return {"params": params, "body": body, "notes": notes, "pts": pts, "cont": cont, "writes": writes, "nvars": len(order),
            "regions": regions, "varnames": [an.names[x] for x in order], "sites": sites}


_LOC = __import__("re").compile(r"src/pyfvtool/(\w+)\.py:(\d+)")


def loc_key(a):
    """sort key of a source note: file, line AS A NUMBER, rest"""
    m = _LOC.search(a)
    return (m.group(1), int(m.group(2)), a) if m else ("", 0, a)


def where(at):
    """the notes with the line numbers removed (what the pinned lists of harness/props/C15.py compare): a reason must
    not change because a comment / docstring / blank line moved the code"""
    return sorted(set(_LOC.sub(lambda m: m.group(1) + ".py", a) for a in at))


def check(F, mutable, allowed):
    """Python replica of `PyFV.Eff.safe` (returns ok, closed, reasons)"""
    pts = lambda x: F["pts"].get(x, [])
    cont = lambda r: F["cont"].get(r, [])
    W = F["writes"]
    closed = True
    why = []
    for r in F["regions"]:
        if r[0] == "inp":
            closed &= r in cont(r) and MESHOBJ in cont(r)
        elif r == MESHOBJ:
            closed &= MESHDATA in cont(r)
        elif r == MESHDATA:
            closed &= MESHDATA in cont(r)
        elif r == GLOB:
            closed &= GLOB in cont(r)
    for i, r in enumerate(F["params"]):
        closed &= r in pts(i)
    for x in range(F["nvars"]):
        closed &= set(pts(x)) <= set(F["regions"])
    for r in F["regions"]:
        closed &= set(cont(r)) <= set(F["regions"])
    closed &= set(W) <= set(F["regions"])
    for ins in F["body"]:
        if ins[0] == "alias":
            ok = all(set(pts(y)) <= set(pts(ins[1])) for y in ins[2])
        elif ins[0] == "fresh":
            ok = ("fresh", ins[2]) in pts(ins[1])
        elif ins[0] == "load":
            ok = all(set(cont(r)) <= set(pts(ins[1])) for r in pts(ins[2]))
        elif ins[0] == "store":
            ok = all(set(pts(ins[2])) <= set(cont(r)) and r in W for r in pts(ins[1]))
        elif ins[0] == "write":
            ok = set(pts(ins[1])) <= set(W)
        else:
            ok = True
        if not ok:
            closed = False
            why.append({"kind": "not-closed", "instr": list(ins)})
    bad_w = [r for r in W if not is_fresh(r) and r not in mutable]
    for r in bad_w:
        at = []
        for ins, nt in zip(F["body"], F["notes"]):
            if ins[0] in ("write", "store") and r in pts(ins[1]):
                at += nt
        why.append({"kind": "writes", "region": rstr(r), "at": sorted(set(at), key=loc_key)[:8], "where": where(at)})
    rets = set()
    for ins in F["body"]:
        if ins[0] == "ret":
            rets |= set(pts(ins[1]))
    bad_r = [r for r in sorted(rets, key=rkey) if not is_fresh(r) and r not in allowed]
    for r in bad_r:
        at = []
        for ins, nt in zip(F["body"], F["notes"]):
            if ins[0] == "ret" and r in pts(ins[1]):
                at += nt
        why.append({"kind": "returns", "region": rstr(r), "at": sorted(set(at), key=loc_key)[:8], "where": where(at)})
    bad_c = False
    for r in F["regions"]:
        if is_fresh(r):
            for q in cont(r):
                if not (is_fresh(q) or q == MESHOBJ or q in allowed):
                    bad_c = True
                    at = []
                    for ins, nt in zip(F["body"], F["notes"]):
                        if ins[0] == "store" and r in pts(ins[1]) and q in pts(ins[2]):
                            at += nt
                    why.append({"kind": "fresh-contains", "site": rstr(r), "site_at": F["sites"].get(r[1], {}).get("line"),
                                "region": rstr(q), "at": sorted(set(at), key=loc_key)[:8], "where": where(at)})
    ok = closed and not bad_w and not bad_r and not bad_c
    return ok, closed, why


def creach(F, rs, through_mesh=True):
    """regions reachable from rs in the emitted certificate; through_mesh=False: mesh objects are not entered
    (what can be reached without going through `.domain`)"""
    out, todo = set(), list(rs)
    while todo:
        r = todo.pop()
        if r in out:
            continue
        out.add(r)
        if through_mesh or r != MESHOBJ:
            todo += F["cont"].get(r, [])
    return out


def lean_list(xs):
    return "[" + ", ".join(xs) + "]"


def lean_instr(ins):
    if ins[0] == "alias":
        return f".alias {ins[1]} {lean_list(map(str, ins[2]))}"
    if ins[0] == "fresh":
        return f".fresh {ins[1]} {ins[2]}"
    if ins[0] == "load":
        return f".load {ins[1]} {ins[2]}"
    if ins[0] == "store":
        return f".storeRef {ins[1]} {ins[2]}"
    return f".{ins[0]} {ins[1]}"


def wrap(items, indent, width=110):
    lines, cur = [], ""
    for it in items:
        piece = it + ", "
        if cur and len(cur) + len(piece) > width:
            lines.append(cur.rstrip()); cur = ""
        cur += piece
    if cur:
        lines.append(cur.rstrip().rstrip(","))
    return ("\n" + " " * indent).join(lines)


def lean_def(name, F, mutable, allowed, fn):
    out = [f"/-- `{fn.qual}` ({fn.loc()}); variables: " + ", ".join(f"{i}={n}" for i, n in enumerate(F["varnames"]) if not n.startswith("<site")).replace("-/", "- /") + " -/"]
    out.append(f"def prog_{name} : Prog where\n  params := {lean_list(map(rlean, F['params']))}\n  body := [" + wrap([lean_instr(i) for i in F["body"]], 4) + "]")
    parms = "".join(f" | {x} => {lean_list(map(rlean, rs))}" for x, rs in sorted(F["pts"].items()) if rs)
    conts = "".join(f" | {rlean(r)} => {lean_list(map(rlean, rs))}" for r, rs in sorted(F["cont"].items(), key=lambda kv: rkey(kv[0])) if rs)
    out.append(f"def cert_{name} : Cert where\n  pts := fun x => match x with{parms} | _ => []\n  cont := fun r => match r with{conts} | _ => []\n"
               f"  writes := {lean_list(map(rlean, F['writes']))}\n  nvars := {F['nvars']}\n  regions := {lean_list(map(rlean, F['regions']))}")
    out.append(f"def mutable_{name} : List Region := {lean_list(map(rlean, mutable))}")
    out.append(f"def allowedRet_{name} : List Region := {lean_list(map(rlean, allowed))}")
    return "\n".join(out) + "\n"


HEADER = """/- GENERATED by harness/translate/teff.py from /repo/src/pyfvtool — do not edit.
   One effect program + certificate per public builder / operator / solver (properties C14, C15).
   An extra trailing parameter of region `.meshObj` is the implicit mesh of the inputs (`x.domain`). -/
import PyFV.Model.Effects

set_option maxRecDepth 4096

namespace PyFV.Gen.Eff
open PyFV.Eff

"""

HEADER_SAFE = """/- GENERATED by harness/translate/teff.py — do not edit.
   `safe_f`: the certificate of `f` passes the decidable purity check; `unsafe_f`: it does not
   (the offending statements are listed in effects_status.json). -/
import PyFV.Gen.Effects

set_option maxRecDepth 8192

namespace PyFV.Gen.Eff
open PyFV.Eff

"""


def write_if_changed(path, text):
    old = open(path).read() if os.path.exists(path) else None
    if old != text:
        os.makedirs(os.path.dirname(path), exist_ok=True)
        with open(path, "w") as f:
            f.write(text)


def main():
    repo = os.environ.get("VERIF_REPO", "/repo")
    dst = sys.argv[1]
    gdir = os.path.dirname(os.path.abspath(dst))
    pkg = Package(repo)
    log = {"conservative": [], "callbacks": []}
    for f in pkg.all:
        BYQUAL[f.qual] = f
    def solve_all():
        builders = {}
        for f in pkg.all:
            f.summary = None
            lg = {"conservative": [], "callbacks": []}
            builders[f.qual] = (Builder(pkg, f, lg), lg)
        for rnd in range(40):
            changed = False
            for f in pkg.all:
                an = Analysis(pkg, f, builders[f.qual][0], {'conservative': [], 'callbacks': []}).run()
                S = an.summary()
                if summary_key(S) != summary_key(f.summary):
                    changed = True
                f.summary = S
                f.an = an
            if not changed:
                return builders, rnd + 1
        raise RuntimeError("summaries did not stabilise")
    builders, rnd = solve_all()
    # value fields: attributes that only ever hold immutable values (constants, tuples of scalars, copies of the same field)
    assigns = {}
    for f in pkg.all:
        for n in ast.walk(f.node):
            if isinstance(n, ast.Assign):
                for tg in n.targets:
                    if isinstance(tg, ast.Attribute):
                        assigns.setdefault(tg.attr, []).append((f, n.value))

    def immutable_call(f, v):
        if not (isinstance(v, ast.Call) and isinstance(v.func, ast.Attribute)):
            return False
        fns = pkg.methods_by_name.get(v.func.attr, [])
        if not fns:
            return False
        for g in fns:
            S = g.summary
            if S is None or not S["ret"]:
                return False
            todo, seen = list(S["ret"]), set()
            while todo:
                r = todo.pop()
                if r in seen:
                    continue
                seen.add(r)
                if not (is_fresh(r) and S["site_info"].get(r[1], {}).get("kind") in ("tuple", "gen")):
                    return False
                for (r2, fld), ms in S["cont"].items():
                    if r2 == r:
                        todo += list(ms)
        return True
    for name, lst in assigns.items():
        if all((isinstance(v, ast.Attribute) and v.attr == name) or immutable_call(f, v) for f, v in lst) and any(immutable_call(f, v) for f, v in lst):
            VALUE_FIELDS.add(name)
    if VALUE_FIELDS:
        builders, rnd2 = solve_all()
        rnd += rnd2
    sel = selected(pkg)
    needed = set()
    for f, *_ in sel:
        needed.add(f.qual)
    out = [HEADER]
    safe_out = [HEADER_SAFE]
    status = {"functions": {}, "conservative": [], "callbacks": [], "rounds": rnd, "value_fields": sorted(VALUE_FIELDS),
              "assumptions": ["user-supplied callables (funceval/celleval/faceeval `f`, flux limiter `FL`, `externalsolver`) do not modify their arguments; their result may alias any argument",
                              "numpy / scipy functions behave as classified in NP_ALIAS / NP_FRESH / METH_* (views vs copies)",
                              "attribute access is resolved per region: `.domain` yields the mesh, every other attribute the non-mesh contents"]}
    names, safes, unsafes = [], [], []
    # transitive callees of the selected functions (for the conservative / callback logs)
    reach_q = set()
    todo = [f.qual for f, *_ in sel]
    while todo:
        q = todo.pop()
        if q in reach_q:
            continue
        reach_q.add(q)
        for st in builders[q][0].mir:
            if st[0] == "call":
                todo += [t for t, _ in st[2]]
            elif st[0] in ("attr", "setattr"):
                nm = st[3] if st[0] == "attr" else st[2]
                todo += [g.qual for g in pkg.getters_by_name.get(nm, []) + pkg.setters_by_name.get(nm, [])]
    for q in sorted(reach_q):
        status["conservative"] += builders[q][1]["conservative"]
        status["callbacks"] += builders[q][1]["callbacks"]
    for f, name, mutable, allowed in sel:
        F = finalize(f.an)
        ok, closed, why = check(F, mutable, allowed)
        if not closed:
            raise RuntimeError(f"certificate of {f.qual} is not closed: {why[:3]}")
        names.append(name)
        (safes if ok else unsafes).append(name)
        out.append(lean_def(name, F, mutable, allowed, f))
        if ok:
            safe_out.append(f"theorem safe_{name} : safe prog_{name} cert_{name} mutable_{name} allowedRet_{name} = true := by decide +kernel\n")
        else:
            safe_out.append(f"theorem unsafe_{name} : safe prog_{name} cert_{name} mutable_{name} allowedRet_{name} = false := by decide +kernel\n")
        rets = set()
        for ins in F["body"]:
            if ins[0] == "ret":
                rets |= set(F["pts"].get(ins[1], []))
        reach, todo = set(), list(rets)
        while todo:
            r = todo.pop()
            if r in reach:
                continue
            reach.add(r); todo += F["cont"].get(r, [])
        status["functions"][name] = {
            "qual": f.qual, "at": f.loc(), "params": [{"name": p, "region": rstr(r)} for p, r in zip(f.params, f.pregions)],
            "npos": f.npos, "vararg": f.vararg, "kwonly": f.kwonly,
            "ret_data_reach": [rstr(q) for q in sorted(creach(F, rets, False), key=rkey)],
            "param_data_reach": {rstr(r): [rstr(q) for q in sorted(creach(F, {r}, False), key=rkey)] for r in F["params"] if r[0] == "inp"},
            "param_reach": {rstr(r): [rstr(q) for q in sorted(creach(F, {r}), key=rkey)] for r in F["params"] if r[0] == "inp"},
            "safe": ok, "mutable": [rstr(r) for r in mutable], "allowedRet": [rstr(r) for r in allowed],
            "writes": [rstr(r) for r in F["writes"]], "ret_regions": [rstr(r) for r in sorted(rets, key=rkey)],
            "ret_reach": [rstr(r) for r in sorted(reach, key=rkey)],
            "fresh_contains": {rstr(r): [rstr(q) for q in F["cont"][r]] for r in F["regions"] if is_fresh(r) and F["cont"][r]},
            "sites": {f"fresh{k}": v for k, v in F["sites"].items()},
            "n_instr": len(F["body"]), "n_vars": F["nvars"], "reasons": why}
    out.append("def allNames : List String :=\n  [" + wrap([f'"{n}"' for n in names], 3) + "]\n")
    out.append("def safeNames : List String :=\n  [" + wrap([f'"{n}"' for n in safes], 3) + "]\n")
    out.append("def unsafeNames : List String :=\n  [" + wrap([f'"{n}"' for n in unsafes], 3) + "]\n")
    out.append("\nend PyFV.Gen.Eff\n")
    safe_out.append("\nend PyFV.Gen.Eff\n")
    write_if_changed(dst, "\n".join(out))
    write_if_changed(os.path.join(gdir, "EffectsSafe.lean"), "\n".join(safe_out))
    write_if_changed(os.path.join(gdir, "effects_status.json"), json.dumps(status, indent=1, sort_keys=True))
    print(json.dumps({"functions": len(names), "safe": len(safes),
                      "unsafe": {n: [f"{w['kind']}:{w.get('region', '')}@{','.join(w.get('at', [])[:2])}" for w in status['functions'][n]['reasons']][:4] for n in unsafes},
                      "conservative": len(status["conservative"]), "callbacks": len(status["callbacks"])}))


if __name__ == "__main__":
    main()
