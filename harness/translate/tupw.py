#!/usr/bin/env python3
"""T-upw: regenerate the UPWIND coefficient formulas and the TVD right-hand sides of advection.py from the source.

  python3 harness/translate/tupw.py lean/PyFV/Gen/StencilsUpw.lean

writes  <out>                            Lean definitions (namespace PyFV.Gen.StencilsUpw) of
                                           convectionUpwindTerm*_<d>, *_<d>_noarg, *_dirs     (nine builders)
                                           fn_fsign_eps1, fn_fsign                            (`_fsign`)
                                           convectionTvdRHS*, *_<d>, *_noarg                  (nine RHS builders)
                                           dispatch_convectionUpwindTerm, dispatch_convectionTVDupwindRHSTerm
                                           untranslated
        <dir>/stencilsupw_status.json    {function: "ok" | "untranslated: reason"}
and prints the status as one JSON line.  The source root is $VERIF_REPO (default /repo).  PyFV/Props/GenEqUpw.lean
proves every generated formula equal to the hand-written model (upwindSt, fsign, tvdRHS of PyFV/Model/Terms.lean).

The interpreter is tnum.Interp (abstract interpretation over symbolic arrays, see tnum.py) EXTENDED by
  parameters       `def f(u, *args)` / `def f(u, phi, FL, *args)`; `if len(args) > 0: X = args[0] else: X = <expr>` is
                   executed twice: with an extra argument (args[0] is a second face field `uUp`) and without (the
                   `_noarg` definitions; emitted as `f M u u ..` when the two runs agree up to renaming uUp := u).
                   The test may be any of `len(args) <cmp> c`, `c <cmp> len(args)`, `args`, `bool(args)`, `not ...` that is
                   equivalent to `len(args) > 0` (or to its negation) for EVERY number of extra arguments (evaluated)
  leaves           <phi>._value[p,q,r] = φ (p, q, r) (shape (X+2, Y+2, Z+2));   FL(a) = FL applied elementwise
                   (uninterpreted `FL : α → α`, TRUSTED to be elementwise)
  helpers          a call of a module-level function (`_upwind_min_max(u, u_upwind)`, or any helper an extract-function
                   refactoring introduces, also one imported from another module of the package) is interpreted INLINE
                   by the mechanism of tnum.py (PURE LOCAL HELPERS: same interpreter, fresh environment, Python's argument
                   binding, undecorated plain `def` whose name is bound once, no recursion, depth ≤ 4) with the BUFFER
                   DISCIPLINE below: the argument arrays and every view of them are FROZEN buffers inside the helper (an
                   in-place assignment to them is `untranslated`), and what the helper returns keeps its buffer identity,
                   so a returned view of a mesh / argument array is still a view for the caller's aliasing checks;
                   the limiter parameter `FL` may be handed on to a helper.  `if issubclass(type(u.domain), C)` is decided
                   with the class hierarchy of mesh.py.  `_fsign(a)` (SCALAR_HELPERS) is translated ONCE as a scalar function
                   (`fn_fsign`, default arguments become constants `fn_fsign_<arg>` holding the exact value of the float
                   literal) and applied elementwise (sound because the body only uses elementwise operations); any OTHER
                   one-array helper is inlined first and only translated as a scalar function when inlining fails.
  comparisons      elementwise `> < >= <= == !=` give boolean arrays; a boolean array used as a number is
                   `if b then 1 else 0`;  `np.sign(x)` = `if 0 < x then 1 else if x < 0 then -1 else 0`;
                   `np.maximum / np.minimum` = `max / min`
  integer indices  `X[0]`, `X[-1]`, `X[:, -2, :]`, `X[Nx]` fix the position along an axis (negative: length + index) and
                   drop the dimension (validity 0 <= p < length is CHECKED assuming every axis has >= 1 cell); on a
                   broadcast dimension only 0 / -1.  Fixed positions are rendered with the model's cell counts
                   (`M.ax.n`, `M.ax.n - 1`, ...).
  np.zeros((a, b)) / np.zeros(N+c)    arrays of zeros with the dimensions read off the symbolic lengths
  IN-PLACE ASSIGNMENT  `X[sel] = e`, `X[sel] op= e`, `X[mask] = c`  make the symbolic array PIECEWISE:
                   value at p = `if p ∈ sel then e(p - start) else old(p)`; sel = integer indices and slices per
                   dimension; the conditions are emitted as `i = 0`, `i + 1 = M.ax.n`, `1 ≤ i`, `i < M.ax.n`, and are
                   decided at translation time when the offsets decide them.  Later assignments wrap earlier ones, so
                   the statement order is kept.  ALIASING is tracked: every array has a buffer identity; slices,
                   integer-indexed views and `.ravel()` share the buffer of their base, arithmetic / np.copy / np.zeros
                   create fresh buffers, mesh and variable arrays are INPUT buffers.  An in-place assignment is only
                   accepted on a non-input buffer that no other live name (or tuple element) shares; anything else is
                   `untranslated` (so dropping `np.copy` in `_upwind_min_max` is flagged, not silently accepted).
  a 1-D RHS        `RHS = np.zeros(Nx+2); RHS[1:Nx+1] = e; return RHS` is read at the interior position i+1; the two
                   ghost entries are checked to be 0.
Trusted (not derived), in addition to tnum's list: every axis has at least one cell (used to validate integer indices
  and to decide `1 ≤ Nx`-like guards); `<phi>._value` has the ghosted shape; the limiter `FL` acts elementwise;
  numpy assignment semantics (right-hand side evaluated before the store, as-if-copied on overlap); `np.sign`, and
  `bool * float` = 0/1 cast.  A differential test (formulas evaluated numerically against the real package on
  uniform / non-uniform grids with 1, 2, 3 cells per axis) is described in the report of T-upw's author.
INERT statements (tinert.py: print / warnings.warn / logging calls and asserts on PURE expressions, `pass`, `if <pure>:`
  over such statements, validation guards `if <pure>: raise E(...)`, assignments to locals that only such statements
  read) are skipped in the builders, the helpers (`_upwind_min_max`, `_fsign`) and the dispatchers; a guard whose test
  the interpreter DOES understand (`len(args)`, the grid class) is still executed, so `if len(args) > 0: raise` keeps
  the function untranslated.  Keyword-only / trailing parameters with a default that only inert statements read are
  ignored in the signature checks.  The test is purely syntactic, so a skipped statement cannot write.
Everything else: as tnum (csr_array band check, ravel/hstack/tile, zeros + interior assignment, dispatcher parsing,
`untranslated` policy).  tnum.py is not edited; `tnum.shift` is monkey-patched (positions may carry symbolic offsets).
"""
import ast, sys, os, json, copy, re
from fractions import Fraction

sys.path.insert(0, os.path.dirname(os.path.abspath(__file__)))
import tnum
import tinert
from tnum import (Bad, Poly, ONE, Arr, Cat, Zeros, Vec, Mat, Tup, Ref, MeshInfo, AXES, VAR, KIND, SUFFIXES, scalar,
                  strip_outer, write_if_changed)


# ---------------------------------------------------------------------------------------------------------
# positions: (var, int offset) | (None, int | Poly)
# ---------------------------------------------------------------------------------------------------------
def shift(pos, n):
    v, o = pos
    if isinstance(o, Poly) or isinstance(n, Poly):
        o = o if isinstance(o, Poly) else Poly.const(o)
        n = n if isinstance(n, Poly) else Poly.const(n)
        return (v, o + n)
    return (v, o + n)


tnum.shift = shift          # the leaf lambdas of tnum.Interp look the name up in tnum's globals
tnum.QUIET_HELPERS |= {"_upwind_min_max", "_fsign"}      # not listed under `_helpers` in the status
SCALAR_HELPERS = {"_fsign"}     # one-argument helpers kept as scalar Lean functions `fn_<name>` (see helper_call)


def as_poly(x):
    return x if isinstance(x, Poly) else Poly.const(x)


def lin(P):
    """P = s*N_a + c  ->  (a, s, c);  constant -> (None, 0, c);  otherwise Bad"""
    a, s, c = None, 0, 0
    for m, k in P.t.items():
        if m == (0, 0, 0):
            c = k
        elif sum(m) == 1 and a is None:
            a, s = AXES[m.index(1)], k
        else:
            raise Bad(f"symbolic position / bound {P} is not of the form N + c")
    return a, s, c


def pmin(P):
    """minimum of P when every axis has at least one cell"""
    tot = 0
    for m, k in P.t.items():
        if m != (0, 0, 0) and k < 0:
            raise Bad(f"cannot bound {P} from below")
        tot += k
    return tot


def rnat(P):
    a, s, c = lin(as_poly(P))
    if a is None:
        if c < 0:
            raise Bad("negative index")
        return str(c)
    if s != 1:
        raise Bad(f"position {P}")
    n = f"M.a{a}.n"
    return n if c == 0 else f"{n} + {c}" if c > 0 else f"{n} - {-c}"


def rpos(pos):
    v, o = pos
    if v is None:
        return rnat(o)
    if isinstance(o, Poly):
        o = o.constval()
    return v if o == 0 else f"{v} + {o}" if o > 0 else f"{v} - {-o}"


def paren(s):
    return f"({s})" if " " in s else s


def sstrip(s):
    """strip_outer, but keep the parentheses of a type ascription `(0 : α)`"""
    return s if re.fullmatch(r"\(-?\d+ : α\)", s) else strip_outer(s)


# position conditions: True | False | ('nat', text)
def pos_eq(pos, B):
    v, o = pos
    D = as_poly(B) - as_poly(o)
    a, s, c = lin(D)
    if v is None:                                   # 0 = s*N + c
        if a is None:
            return c == 0
        if s == 1 and c <= 0:
            return ("nat", f"M.a{a}.n = {-c}")
        if s == -1 and c >= 0:
            return ("nat", f"M.a{a}.n = {c}")
        if abs(s) == 1:
            return False
        raise Bad(f"position equation {o} = {B}")
    if a is None:                                   # v = c
        return False if c < 0 else ("nat", f"{v} = {c}")
    if s != 1:
        raise Bad(f"position equation {v} + {o} = {B}")
    return ("nat", f"{v} = M.a{a}.n + {c}" if c > 0 else f"{v} = M.a{a}.n" if c == 0 else f"{v} + {-c} = M.a{a}.n")


def pos_ge(pos, lo):
    """lo <= pos  (lo an integer constant)"""
    v, o = pos
    if v is None:
        D = as_poly(o) - Poly.const(lo)
        a, s, c = lin(D)
        if a is None:
            return c >= 0
        if s == 1 and pmin(D) >= 0:
            return True
        if s == 1:
            return ("nat", f"{-c} ≤ M.a{a}.n")
        raise Bad(f"position bound {lo} <= {o}")
    o = as_poly(o).constval()
    return True if o >= lo else ("nat", f"{lo - o} ≤ {v}")


def pos_lt(pos, hi):
    v, o = pos
    D = as_poly(hi) - as_poly(o)
    a, s, c = lin(D)
    if v is None:                                   # 0 < D
        if a is None:
            return c > 0
        if s == 1 and pmin(D) >= 1:
            return True
        if s == 1:
            return ("nat", f"{-c} < M.a{a}.n")
        raise Bad(f"position bound {o} < {hi}")
    if a is None:
        return False if c <= 0 else ("nat", f"{v} < {c}")
    if s != 1:
        raise Bad(f"position bound {v} + {o} < {hi}")
    return ("nat", f"{v} < M.a{a}.n + {c}" if c > 0 else f"{v} < M.a{a}.n" if c == 0 else f"{v} + {-c} < M.a{a}.n")


# ---------------------------------------------------------------------------------------------------------
# rendering
# ---------------------------------------------------------------------------------------------------------
CMP = {"cmp>": ("<", True), "cmp<": ("<", False), "cmp>=": ("≤", True), "cmp<=": ("≤", False),
       "cmp==": ("=", False), "cmp!=": ("≠", False)}


def rcond(c, names):
    if c[0] == "nat":
        return c[1]
    if c[0] == "and":
        return " ∧ ".join(rcond(x, names) for x in c[1])
    if c[0] in CMP:
        sym, swap = CMP[c[0]]
        a, b = render(c[1], names), render(c[2], names)
        if swap:
            a, b = b, a
        return f"{a} {sym} {b}"
    raise Bad(f"condition {c[0]}")


def render(e, names):
    k = e[0]
    if k == "num":
        return tnum.rnum(e[1])
    if k == "pi":
        return "M.pi"
    if k == "var":
        return e[1]
    if k == "leaf":
        _, field, axis, pos = e
        if field in ("sinC", "sinF"):
            return f"M.{field} {paren(rpos(pos))}"
        return f"M.a{axis}.{field} {paren(rpos(pos))}"
    if k in ("face", "cell"):
        par = names.get(e[1], e[1])
        idx = e[3] if k == "face" else e[2]
        inner = ", ".join(rpos(p) for p in idx)
        return f"{par} .{e[2]} ({inner})" if k == "face" else f"{par} ({inner})"
    if k in ("add", "sub", "mul", "div"):
        sym = {"add": "+", "sub": "-", "mul": "*", "div": "/"}[k]
        return f"({render(e[1], names)} {sym} {render(e[2], names)})"
    if k == "neg":
        return f"(-{render(e[1], names)})"
    if k == "pow":
        return f"({render(e[1], names)} ^ {e[2]})"
    if k == "abs":
        return f"|{render(e[1], names)}|"
    if k in ("max", "min"):
        return f"({k} {paren(sstrip(render(e[1], names)))} {paren(sstrip(render(e[2], names)))})"
    if k == "sign":
        x = render(e[1], names)
        return f"(if (0 : α) < {x} then (1 : α) else if {x} < (0 : α) then (-1 : α) else (0 : α))"
    if k == "app":
        return f"{names.get(e[1], e[1])} ({sstrip(render(e[2], names))})"
    if k == "ite":
        return f"(if {rcond(e[1], names)} then {sstrip(render(e[2], names))} else {sstrip(render(e[3], names))})"
    if k in CMP:
        raise Bad("a boolean array where a number is required")
    raise Bad(f"render {k}")


# ---------------------------------------------------------------------------------------------------------
# buffers (aliasing)
# ---------------------------------------------------------------------------------------------------------
def bufof(a):
    b = getattr(a, "_buf", None)
    return a if b is None else b


def is_input(b):
    return isinstance(b, tuple) and b and b[0] == "input"


def arrs_in(v):
    if isinstance(v, Arr):
        yield v
    elif isinstance(v, Tup):
        for x in v.items:
            yield from arrs_in(x)


# ---------------------------------------------------------------------------------------------------------
# the extended interpreter
# ---------------------------------------------------------------------------------------------------------
class UInterp(tnum.Interp):
    """pars: {python name: (kind, lean name)} with kind in face | cell | fun; the first face parameter is the primary
    one (its `.domain` is the mesh); vararg: name of *args; has_arg: an extra positional argument is present"""

    def __init__(self, mesh, cls, pars, primary, vararg, has_arg, module, helpers, frozen=()):
        super().__init__(mesh, cls, primary)
        self.pars, self.primary, self.vararg, self.has_arg = pars, primary, vararg, has_arg
        self.module, self.helpers, self.frozen = module, helpers, list(frozen)
        self.primary_lean = pars[primary][1] if primary is not None else None     # its `.domain` is the mesh

    # ---- statements
    inert = tinert.analysis(None)

    def run(self, fn):
        self.enter(fn)
        self.inert = tinert.analysis(fn)
        self.exec_block(fn.body)
        if self.result is None:
            raise Bad("no return")
        return self.result

    def exec_block(self, body):
        for st in body:
            if self.result is not None:
                raise Bad("statement after return")
            if isinstance(st, ast.Expr) and isinstance(st.value, ast.Constant) and isinstance(st.value.value, str):
                continue
            if self.inert.skip(st):             # inert statement (tinert.py): no effect on the result
                continue
            st = tnum.plain_assign(st)
            if isinstance(st, ast.Assign):
                self.assign(st)
            elif isinstance(st, ast.AugAssign):
                self.augassign(st)
            elif isinstance(st, ast.If):
                try:
                    taken = self.test(st.test)
                except Bad:
                    if self.inert.skip_guard(st):       # a validation guard on a test that is not understood
                        continue
                    raise
                self.exec_block(st.body if taken else st.orelse)
            elif isinstance(st, ast.Return):
                if st.value is None:
                    raise Bad("bare return")
                self.result = self.ev(st.value)
            else:
                raise Bad(f"statement {type(st).__name__} (line {st.lineno})")

    def vararg_test(self, t):
        """True / False if `t` is a test on *args that is equivalent, FOR EVERY number n >= 0 of extra arguments, to
        `len(args) > 0` / to `len(args) == 0`; None otherwise.  Forms: `len(args) <cmp> c`, `c <cmp> len(args)`,
        `args`, `bool(args)`, `not <such a test>`; decided by evaluating the test for n = 0 .. |c| + 3."""
        va = self.vararg
        if va is None or va in self.env:
            return None

        def is_len(n):
            return (isinstance(n, ast.Call) and isinstance(n.func, ast.Name) and n.func.id == "len" and not n.keywords
                    and len(n.args) == 1 and isinstance(n.args[0], ast.Name) and n.args[0].id == va)

        def is_int(n):
            return isinstance(n, ast.Constant) and type(n.value) is int

        consts = []

        def shape_ok(n):
            if isinstance(n, ast.UnaryOp) and isinstance(n.op, ast.Not):
                return shape_ok(n.operand)
            if isinstance(n, ast.Name) and n.id == va:
                return True
            if isinstance(n, ast.Call) and isinstance(n.func, ast.Name) and n.func.id == "bool" and not n.keywords \
                    and len(n.args) == 1 and isinstance(n.args[0], ast.Name) and n.args[0].id == va:
                return True
            if isinstance(n, ast.Compare) and len(n.ops) == 1 and isinstance(n.ops[0], (ast.Gt, ast.GtE, ast.Lt, ast.LtE,
                                                                                       ast.Eq, ast.NotEq)):
                l, r = n.left, n.comparators[0]
                if (is_len(l) and is_int(r)) or (is_int(l) and is_len(r)):
                    consts.append(r.value if is_int(r) else l.value)
                    return True
            return False

        if "len" in self.env or "bool" in self.env or "len" in tnum.SHADOWED or "bool" in tnum.SHADOWED \
                or not shape_ok(t):
            return None

        def val(n, k):
            if isinstance(n, ast.UnaryOp):
                return not val(n.operand, k)
            if isinstance(n, (ast.Name, ast.Call)) and not is_len(n):
                return k > 0
            l, r = n.left, n.comparators[0]
            a = k if is_len(l) else l.value
            b = k if is_len(r) else r.value
            op = type(n.ops[0])
            return {ast.Gt: a > b, ast.GtE: a >= b, ast.Lt: a < b, ast.LtE: a <= b, ast.Eq: a == b, ast.NotEq: a != b}[op]

        ks = range(0, max([abs(c) for c in consts] + [0]) + 4)
        if all(val(t, k) == (k > 0) for k in ks):
            return True
        if all(val(t, k) == (k == 0) for k in ks):
            return False
        return None

    def test(self, t):
        txt = ast.unparse(t)
        vt = self.vararg_test(t)
        if vt is not None:
            return self.has_arg if vt else not self.has_arg
        if (isinstance(t, ast.Call) and isinstance(t.func, ast.Name) and t.func.id == "issubclass" and len(t.args) == 2
                and not t.keywords and isinstance(t.args[1], ast.Name) and isinstance(t.args[0], ast.Call)
                and isinstance(t.args[0].func, ast.Name) and t.args[0].func.id == "type" and len(t.args[0].args) == 1
                and not t.args[0].keywords):
            m = self.ev(t.args[0].args[0])
            if isinstance(m, Ref) and m.what[0] == "mesh":
                if t.args[1].id not in self.mesh.classes:
                    raise Bad(f"if {txt}: unknown class")
                return t.args[1].id in self.mesh.mro(self.cls)
        raise Bad(f"if {txt[:60]}")

    def bind(self, name, v):
        if isinstance(v, Ref) and v.what[0] not in ("dims", "par"):
            raise Bad(f"assignment of a {v.what[0]} reference to {name}")
        self.env[name] = v

    def assign(self, st):
        if all(isinstance(t, ast.Name) for t in st.targets):
            v = self.ev(st.value)
            for t in st.targets:
                self.bind(t.id, v)
            return
        if len(st.targets) != 1:
            raise Bad(f"assignment targets (line {st.lineno})")
        t = st.targets[0]
        if isinstance(t, ast.Tuple) and all(isinstance(e, ast.Name) for e in t.elts):
            v = self.ev(st.value)
            if isinstance(v, Tup):
                if len(v.items) != len(t.elts):
                    raise Bad(f"unpacking {len(v.items)} values into {len(t.elts)} names (line {st.lineno})")
                for e, x in zip(t.elts, v.items):
                    self.bind(e.id, x)
                return
            return super().assign(st)
        if isinstance(t, ast.Subscript) and isinstance(t.value, ast.Name):
            x = self.env.get(t.value.id)
            if isinstance(x, Zeros):
                return super().assign(st)
            if not isinstance(x, Arr):
                raise Bad(f"item assignment to {t.value.id}, which is not an array")
            self.item_assign(t.value.id, t.slice, self.ev(st.value), ast.unparse(t))
            return
        raise Bad(f"assignment target {ast.unparse(t)}")

    def augassign(self, st):
        if type(st.op) not in (ast.Add, ast.Sub, ast.Mult, ast.Div):
            raise Bad(f"augmented assignment {type(st.op).__name__}")
        t = st.target
        load = copy.deepcopy(t)
        load.ctx = ast.Load()
        val = ast.BinOp(left=load, op=st.op, right=st.value)
        ast.copy_location(val, st)
        ast.fix_missing_locations(val)
        if isinstance(t, ast.Subscript) and isinstance(t.value, ast.Name):
            x = self.env.get(t.value.id)
            if not isinstance(x, Arr):
                raise Bad(f"augmented item assignment to {t.value.id}, which is not an array")
            self.item_assign(t.value.id, t.slice, self.ev(val), ast.unparse(t))
            return
        if isinstance(t, ast.Name):
            x = self.env.get(t.id)
            v = self.ev(val)
            if isinstance(x, Arr):                 # in place: the whole buffer is rewritten
                self.check_mutable(t.id)
                full = [("sl", 0, L) for _, L in x.dims]
                self.env[t.id] = self.piecewise(x, full, v, ast.unparse(t))
            elif isinstance(x, Poly):
                self.env[t.id] = v
            else:
                raise Bad(f"augmented assignment to {t.id}")
            return
        raise Bad(f"augmented assignment target {ast.unparse(t)}")

    # ---- in-place assignment
    def check_mutable(self, name):
        b = bufof(self.env[name])
        if is_input(b):
            raise Bad(f"in-place assignment to {name}, a view of the input array {'.'.join(b[1:])}")
        if any(b is f for f in self.frozen):
            raise Bad(f"in-place assignment to {name}, an argument array of the helper")
        for n2, v in self.env.items():
            if n2 != name and any(bufof(a) is b for a in arrs_in(v)):
                raise Bad(f"in-place assignment to {name}, which shares its buffer with {n2}")

    def item_assign(self, name, sl, val, txt):
        x = self.env[name]
        if x.kind != "num" or x.raveled:
            raise Bad(f"{txt}: item assignment to a raveled / non-numeric array")
        if any(a is None for a, _ in x.dims):
            raise Bad(f"{txt}: item assignment to an array with a broadcast dimension")
        self.check_mutable(name)
        items = sl.elts if isinstance(sl, ast.Tuple) else [sl]
        mask = None
        if len(items) == 1 and not isinstance(items[0], ast.Slice):
            m = self.ev(items[0])
            if isinstance(m, Arr) and m.kind == "bool":
                mask = m
        if mask is not None:
            if mask.raveled or mask.dims != x.dims:
                raise Bad(f"{txt}: the mask has shape {mask.shape()}, the array {x.shape()}")
            v = self.as_num(val)
            if v.dims:
                raise Bad(f"{txt}: masked assignment of a non-scalar")
            new = Arr(x.dims, lambda pos: ("ite", mask.fn(pos), v.fn([]), x.fn(pos)))
        else:
            new = self.piecewise(x, self.selection(x, items, txt), val, txt)
        new._buf = bufof(x)
        self.env[name] = new

    def selection(self, x, items, txt):
        """per dimension of x: ('idx', Poly) | ('sl', int lo, Poly hi)"""
        spec = self.parse_index(items, txt)
        if any(s is None for s in spec):
            raise Bad(f"{txt}: np.newaxis in an assignment target")
        if len(spec) > len(x.dims):
            raise Bad(f"{txt}: too many indices for shape {x.shape()}")
        sel = []
        for n, (axis, L) in enumerate(x.dims):
            s = spec[n] if n < len(spec) else ("sl", None, None)
            if s[0] == "idx":
                sel.append(("idx", self.fixed(s[1], L, txt)))
            else:
                lo, hi = self.slice_bounds(s[1], s[2], L, txt)
                sel.append(("sl", lo, hi))
        return sel

    def piecewise(self, x, sel, val, txt):
        val = self.as_num(val)
        if val.raveled:
            raise Bad(f"{txt}: assignment of a raveled array")
        seldims = [(x.dims[n][0], s[2] - Poly.const(s[1])) for n, s in enumerate(sel) if s[0] == "sl"]
        lv, ns = len(val.dims), len(seldims)
        if lv > ns:
            raise Bad(f"{txt}: value of shape {val.shape()} assigned to a selection of {ns} dimensions")
        for d, s in zip(val.dims, seldims[ns - lv:]):
            if d[0] is not None and d != s:
                raise Bad(f"{txt}: value of shape {val.shape()} does not fit the selection "
                          f"({', '.join(str(L) for _, L in seldims)})")
        dims = x.dims

        def fn(pos):
            conds, vpos = [], []
            for n, s in enumerate(sel):
                if s[0] == "idx":
                    cs = [pos_eq(pos[n], s[1])]
                else:
                    cs = []
                    if s[1] != 0:
                        cs.append(pos_ge(pos[n], s[1]))
                    if s[2] != dims[n][1]:
                        cs.append(pos_lt(pos[n], s[2]))
                    vpos.append(shift(pos[n], -s[1]))
                for c in cs:
                    if c is False:
                        return x.fn(pos)
                    if c is not True:
                        conds.append(c)
            new = val.fn(vpos[ns - lv:])
            if not conds:
                return new
            return ("ite", conds[0] if len(conds) == 1 else ("and", conds), new, x.fn(pos))
        return Arr(dims, fn)

    # ---- names, attributes
    def ev_Name(self, node):
        if node.id in self.env:
            return self.env[node.id]
        if node.id in self.pars:
            kind, lean = self.pars[node.id]
            return Ref("par", lean, kind)
        raise Bad(f"name {node.id}")

    def ev_Attribute(self, node):
        if not (isinstance(node.value, ast.Name) and node.value.id == "np"):
            base = self.ev(node.value)
            if isinstance(base, Ref) and base.what[0] == "par":
                _, lean, kind = base.what
                if node.attr == "domain" and lean == self.primary_lean:
                    return Ref("mesh")
                if kind == "face" and node.attr in ("_xvalue", "_yvalue", "_zvalue"):
                    return self.face_leaf2(node.attr, lean)
                if kind == "cell" and node.attr == "_value":
                    return self.cell_leaf(lean)
                raise Bad(f"attribute .{node.attr} of the parameter {lean}")
        return super().ev_Attribute(node)

    def leaf(self, which, name):
        a = super().leaf(which, name)
        a._buf = ("input", which, name)
        return a

    def face_leaf2(self, name, par):
        d = {"_xvalue": "x", "_yvalue": "y", "_zvalue": "z"}[name]
        nd = self.need_ndim()
        if AXES.index(d) >= nd:
            raise Bad(f"{name} of a {nd}-D grid")
        dims = [(a, Poly.var(a) + (ONE if a == d else Poly())) for a in AXES[:nd]]

        def fn(pos):
            idx = []
            for n, a in enumerate(AXES):
                idx.append((None, 1) if n >= nd else pos[n] if a == d else shift(pos[n], 1))
            return ("face", par, d, tuple(idx))
        a = Arr(dims, fn)
        a._buf = ("input", par, name)
        return a

    def cell_leaf(self, par):
        nd = self.need_ndim()
        dims = [(a, Poly.var(a) + Poly.const(2)) for a in AXES[:nd]]

        def fn(pos):
            return ("cell", par, tuple(pos[n] if n < nd else (None, 1) for n in range(3)))
        a = Arr(dims, fn)
        a._buf = ("input", par, "_value")
        return a

    def as_num(self, v):
        if isinstance(v, Arr) and v.kind == "bool":
            one, zero = ("num", Fraction(1)), ("num", Fraction(0))
            return Arr(v.dims, lambda pos: ("ite", v.fn(pos), one, zero), raveled=v.raveled)
        return super().as_num(v)

    def ev_Compare(self, node):
        if len(node.ops) != 1:
            raise Bad("chained comparison")
        tag = {ast.Gt: "cmp>", ast.Lt: "cmp<", ast.GtE: "cmp>=", ast.LtE: "cmp<=", ast.Eq: "cmp==",
               ast.NotEq: "cmp!="}.get(type(node.ops[0]))
        if tag is None:
            raise Bad(f"comparison {type(node.ops[0]).__name__}")
        a, b = self.as_num(self.ev(node.left)), self.as_num(self.ev(node.comparators[0]))
        r = self.broadcast(tag, a, b)
        r.kind = "bool"
        return r

    # ---- indexing
    def fixed(self, c, L, txt):
        """position of the integer index c on a dimension of length L"""
        P = (L + c) if (c.is_const() and c.constval() < 0) else c
        if pmin(P) < 0 or pmin(L - P) < 1:
            raise Bad(f"{txt}: index {c} out of range for length {L}")
        return P

    def slice_bounds(self, lo, hi, L, txt):
        start = 0 if lo is None else lo.constval()
        if start < 0:
            raise Bad(f"{txt}: negative start")
        stop = L if hi is None else hi
        if hi is not None and hi.is_const() and hi.constval() < 0:
            stop = L + hi
        slack = L - stop
        if not (slack.is_const() and slack.constval() >= 0):
            raise Bad(f"{txt}: stop {stop} exceeds the length {L}")
        n = stop - Poly.const(start)
        if n.is_const() and n.constval() <= 0:
            raise Bad(f"{txt}: empty slice")
        return start, stop

    def parse_index(self, items, txt):
        spec = []
        for it in items:
            if tnum.is_newaxis(it):
                spec.append(None)
            elif isinstance(it, ast.Slice):
                if it.step is not None:
                    raise Bad(f"{txt}: slice step")
                spec.append(("sl", self.bound(it.lower), self.bound(it.upper)))
            elif isinstance(it, (ast.Constant, ast.UnaryOp, ast.Name, ast.BinOp)):
                v = self.ev(it)
                if not isinstance(v, Poly):
                    raise Bad(f"{txt}: index {ast.unparse(it)} is not an integer")
                spec.append(("idx", v))
            else:
                raise Bad(f"{txt}: index {ast.unparse(it)}")
        return spec

    def ev_Subscript(self, node):
        if isinstance(node.value, ast.Name) and node.value.id == self.vararg and self.vararg is not None \
                and node.value.id not in self.env:
            if not (self.has_arg and isinstance(node.slice, ast.Constant) and node.slice.value == 0):
                raise Bad(f"subscript {ast.unparse(node)}")
            return Ref("par", "uUp", "face")
        base = self.ev(node.value)
        if not isinstance(base, Arr):
            return super().ev_Subscript(node)
        if base.raveled:
            raise Bad("index of a raveled array")
        txt = ast.unparse(node)
        items = node.slice.elts if isinstance(node.slice, ast.Tuple) else [node.slice]
        return self.index2(base, self.parse_index(items, txt), txt)

    def index2(self, arr, spec, txt):
        dims, src = [], []          # src[s] = ('dim', result dim, offset) | ('fix', Poly) | ('none',)
        s = 0
        for it in spec:
            if it is None:
                dims.append((None, ONE))
                continue
            if s >= len(arr.dims):
                raise Bad(f"{txt}: too many indices for shape {arr.shape()}")
            axis, L = arr.dims[s]
            if it[0] == "idx":
                if axis is None:
                    if not (it[1].is_const() and it[1].constval() in (0, -1)):
                        raise Bad(f"{txt}: index {it[1]} on a dimension of length 1")
                    src.append(("none",))
                else:
                    src.append(("fix", self.fixed(it[1], L, txt)))
            elif axis is None:
                if it[1] is not None or it[2] is not None:
                    raise Bad(f"{txt}: proper slice of a broadcast dimension")
                dims.append((None, ONE))
                src.append(("none",))
            else:
                lo, hi = self.slice_bounds(it[1], it[2], L, txt)
                dims.append((axis, hi - Poly.const(lo)))
                src.append(("dim", len(dims) - 1, lo))
            s += 1
        for t in range(s, len(arr.dims)):
            dims.append(arr.dims[t])
            src.append(("dim", len(dims) - 1, 0) if arr.dims[t][0] is not None else ("none",))

        def fn(pos):
            return arr.fn([shift(pos[e[1]], e[2]) if e[0] == "dim" else (None, e[1]) if e[0] == "fix" else None
                           for e in src])
        r = Arr(dims, fn, kind=arr.kind)
        r._buf = bufof(arr)
        return r

    # ---- calls
    def ev_Call(self, node):
        f = node.func
        if isinstance(f, ast.Attribute) and f.attr == "ravel" and not node.args and not node.keywords:
            v = self.ev(f.value)
            r = super().ev_Call(node)
            r._buf = bufof(v)
            return r
        if isinstance(f, ast.Name) and f.id in self.env and isinstance(self.env[f.id], Ref) \
                and self.env[f.id].what[0] == "par" and self.env[f.id].what[2] == "fun":
            # the limiter handed on to a helper (`def h(FL, r): ... FL(r)`)
            if node.keywords or len(node.args) != 1:
                raise Bad(f"call of {f.id}")
            v = self.as_num(self.ev(node.args[0]))
            lean = self.env[f.id].what[1]
            return Arr(v.dims, lambda pos: ("app", lean, v.fn(pos)), raveled=v.raveled)
        if isinstance(f, ast.Name) and f.id not in self.env:
            if f.id in self.pars and self.pars[f.id][0] == "fun":
                if node.keywords or len(node.args) != 1:
                    raise Bad(f"call of {f.id}")
                v = self.as_num(self.ev(node.args[0]))
                lean = self.pars[f.id][1]
                return Arr(v.dims, lambda pos: ("app", lean, v.fn(pos)), raveled=v.raveled)
            if f.id in self.helpers.fns and f.id not in self.locals:
                return self.helper_call(f.id, node)
        return super().ev_Call(node)

    def helper_call(self, name, node):
        fn = self.helpers.fns[name]
        r = tnum.resolve_helper(self.modname, name) if self.modname is not None else (fn, None)
        if r is None or r[0] is not fn:
            raise Bad(f"call {name}: the name does not denote the module-level function {name}")
        tnum.check_helper_def(fn)
        if not node.keywords and len(node.args) == 1 and not isinstance(node.args[0], ast.Starred):
            arg = self.ev(node.args[0])
            if isinstance(arg, Poly) or (isinstance(arg, Arr) and arg.kind in ("num", "bool")):
                # one numeric array.  `_fsign` (SCALAR_HELPERS) is translated ONCE as a scalar Lean function and applied
                # elementwise (GenEqUpw states its theorems with `fn_fsign`); any other such helper is inlined like every
                # helper (the formula keeps the shape it had before the extraction) and only translated as a scalar
                # function when inlining fails
                first, second = ((self.scalar_app, self.inline_app) if name in SCALAR_HELPERS
                                 else (self.inline_app, self.scalar_app))
                try:
                    return first(fn, name, node, arg)
                except Bad as ex:
                    try:
                        return second(fn, name, node, arg)
                    except Bad as ex2:
                        raise Bad(f"{ex} (and: {ex2})")
        # everything else (`_upwind_min_max(u, u_upwind)`, array arguments, keywords, defaults): interpreted inline
        return self.call_helper(fn, self.modname, node)

    def scalar_app(self, fn, name, node, arg):
        lean = self.helpers.scalar(name)
        v = self.as_num(arg)
        return Arr(v.dims, lambda pos: ("app", lean, v.fn(pos)), raveled=v.raveled)

    def inline_app(self, fn, name, node, arg):
        return self.call_helper(fn, self.modname, node)

    # ---- pure local helpers (tnum.Interp.call_helper): same interpreter, fresh environment, arguments frozen
    def is_param_name(self, name):
        return name in self.pars or (self.vararg is not None and name == self.vararg)

    def spawn_helper(self, fn, modname):
        same = modname == self.modname
        sub = UInterp(self.mesh, self.cls, {}, None, None, self.has_arg, tnum.MODULES.get(modname, self.module),
                      self.helpers if same else NO_HELPERS, frozen=self.frozen)
        sub.primary_lean = self.primary_lean
        self.init_helper(sub, modname)
        return sub

    def arrays_in(self, v):
        return arrs_in(v)

    def freeze(self, sub, values):
        super().freeze(sub, values)
        # buffer discipline: the argument arrays (and the views of them) are frozen buffers inside the helper; what it
        # returns keeps its buffer identity, so the caller's aliasing checks see a returned view as a view
        sub.frozen = list(sub.frozen) + [bufof(x) for v in values for x in self.arrays_in(v)]

    def np_call(self, name, node):
        if node.keywords:
            raise Bad(f"np.{name} with keywords")
        args = node.args
        if name == "copy" and len(args) == 1:
            v = self.as_num(self.ev(args[0]))
            return Arr(v.dims, v.fn, raveled=v.raveled)          # a fresh buffer
        if name == "sign" and len(args) == 1:
            v = self.as_num(self.ev(args[0]))
            return Arr(v.dims, lambda pos: ("sign", v.fn(pos)), raveled=v.raveled)
        if name in ("maximum", "minimum") and len(args) == 2:
            a, b = self.as_num(self.ev(args[0])), self.as_num(self.ev(args[1]))
            return self.broadcast(name[:3], a, b)
        if name == "zeros" and len(args) == 1:
            n = self.ev(args[0])
            ls = n.items if isinstance(n, Tup) else [n]
            if not all(isinstance(L, Poly) for L in ls):
                raise Bad("np.zeros of a non-integer shape")
            try:
                axes = [lin(L) for L in ls]
            except Bad:
                axes = None
            if axes is None or any(a is None or s != 1 for a, s, _ in axes):
                if isinstance(n, Tup):
                    raise Bad(f"np.zeros(({', '.join(map(str, ls))})): lengths are not of the form N + c")
                return Zeros(n)                                   # ghosted vector of tnum
            if [a for a, _, _ in axes] != AXES[:len(axes)]:
                raise Bad(f"np.zeros(({', '.join(map(str, ls))})): axes out of order")
            if self.ndim is not None and len(axes) != self.ndim:
                raise Bad(f"np.zeros: {len(axes)}-D array on a {self.ndim}-D grid")
            zero = ("num", Fraction(0))
            return Arr([(a, L) for (a, _, _), L in zip(axes, ls)], lambda pos: zero)
        return super().np_call(name, node)


class NoHelpers:
    fns = {}


NO_HELPERS = NoHelpers()


class Helpers:
    """module-level helper functions; scalar translations are cached and emitted once"""

    def __init__(self, tree, mesh):
        self.fns = {n.name: n for n in tree.body if isinstance(n, ast.FunctionDef) and n.name.startswith("_")}
        self.mesh, self.tree = mesh, tree
        self.defs, self.done = [], {}

    def scalar(self, name):
        if name in self.done:
            if self.done[name] is None:
                raise Bad(f"helper {name} is recursive")
            return self.done[name]
        self.done[name] = None
        fn = self.fns[name]
        tnum.check_helper_def(fn)
        a = tinert.effective_args(fn)
        if a.vararg or a.kwarg or a.kwonlyargs or len(a.args) < 1 or len(a.defaults) != len(a.args) - 1:
            raise Bad(f"{name}: signature")
        lean = "fn_" + name.lstrip("_")
        it = UInterp(self.mesh, None, {}, None, None, False, self.tree, self)
        it.env[a.args[0].arg] = scalar(("var", a.args[0].arg))
        consts = []
        for p, d in zip(a.args[1:], a.defaults):
            if not (isinstance(d, ast.Constant) and isinstance(d.value, (int, float)) and not isinstance(d.value, bool)):
                raise Bad(f"{name}: default of {p.arg} is not a numeric literal")
            cname = f"{lean}_{p.arg}"
            consts.append(f"/-- default argument `{p.arg}={ast.unparse(d)}` of `{name}` (exact value of the float literal) -/\n"
                          f"def {cname} : α :=\n  {sstrip(tnum.rnum(Fraction(d.value)))}\n")
            it.env[p.arg] = scalar(("var", f"({cname} : α)"))
        try:
            res = it.run(fn)
            if not (isinstance(res, Arr) and not res.dims and res.kind == "num"):
                raise Bad("result is not a number")
            body = sstrip(render(res.fn([]), {}))
        except Bad as ex:
            del self.done[name]
            raise Bad(f"{name}: {ex}")
        self.defs.extend(consts)
        self.defs.append(f"/-- `{name}`, applied elementwise -/\ndef {lean} ({a.args[0].arg} : α) : α :=\n  {body}\n")
        self.done[name] = lean
        return lean


# ---------------------------------------------------------------------------------------------------------
# drivers
# ---------------------------------------------------------------------------------------------------------
def dispatcher(tree, name, prefix, nfixed):
    """{builder: (class, 'whole' | 'first')}: branches `return <builder>(p1, .., pn, *args)[0]?` of the if-chain"""
    fns = [n for n in tree.body if isinstance(n, ast.FunctionDef) and n.name == name]
    if len(fns) != 1:
        raise Bad(f"dispatcher {name} not found")
    fn = fns[0]
    a = tinert.effective_args(fn)
    if len(a.args) != nfixed or a.vararg is None or a.kwarg or a.kwonlyargs or a.defaults:
        raise Bad(f"dispatcher {name}: signature")
    pars = [p.arg for p in a.args]
    want = pars + ["*" + a.vararg.arg]
    body = [s for s in tinert.live_body(fn) if not (isinstance(s, ast.Expr) and isinstance(s.value, ast.Constant))]
    if len(body) != 1 or not isinstance(body[0], ast.If):
        raise Bad(f"dispatcher {name}: expected one if-chain")
    node, out = body[0], {}
    while True:
        t = node.test
        ok = (isinstance(t, ast.Compare) and len(t.ops) == 1 and isinstance(t.ops[0], ast.Is)
              and ast.unparse(t.left) == f"type({pars[0]}.domain)" and isinstance(t.comparators[0], ast.Name))
        if not ok:
            raise Bad(f"dispatcher {name}: test {ast.unparse(t)}")
        cls = t.comparators[0].id
        if len(node.body) != 1 or not isinstance(node.body[0], ast.Return):
            raise Bad(f"dispatcher {name}: branch {cls}")
        val, sel = node.body[0].value, "whole"
        if isinstance(val, ast.Subscript) and isinstance(val.slice, ast.Constant) and val.slice.value == 0:
            val, sel = val.value, "first"
        if not (isinstance(val, ast.Call) and isinstance(val.func, ast.Name) and val.func.id.startswith(prefix)
                and not val.keywords and [ast.unparse(x) for x in val.args] == want):
            raise Bad(f"dispatcher {name}: branch {cls}")
        if val.func.id in out or cls in [c for c, _ in out.values()]:
            raise Bad(f"dispatcher {name}: {val.func.id} / {cls} used twice")
        out[val.func.id] = (cls, sel)
        if len(node.orelse) == 1 and isinstance(node.orelse[0], ast.If):
            node = node.orelse[0]
        elif not node.orelse or (len(node.orelse) == 1 and isinstance(node.orelse[0], ast.Raise)):
            break
        else:
            raise Bad(f"dispatcher {name}: final else")
    return out


def setup(mesh, tree, helpers, name, disp, kinds, has_arg):
    fns = [n for n in tree.body if isinstance(n, ast.FunctionDef) and n.name == name]
    if len(fns) != 1:
        raise Bad("function not found")
    fn = fns[0]
    a = tinert.effective_args(fn)
    if len(a.args) != len(kinds) or a.vararg is None or a.kwarg or a.kwonlyargs or a.defaults:
        raise Bad("signature")
    if name not in disp:
        raise Bad("not called by the dispatcher")
    cls, sel = disp[name]
    if cls not in KIND:
        raise Bad(f"unknown grid class {cls}")
    pars = {p.arg: (k, lean) for p, (k, lean) in zip(a.args, kinds)}
    if len(pars) != len(kinds) or a.vararg.arg in pars:
        raise Bad("parameter names")
    it = UInterp(mesh, cls, pars, a.args[0].arg, a.vararg.arg, has_arg, tree, helpers)
    it.cell_numbers()
    return fn, it, cls, sel


def at_interior(it, arr, names):
    if not (isinstance(arr, Arr) and arr.kind == "num"):
        raise Bad("result is not a numeric array")
    if arr.dims != it.interior_dims():
        raise Bad(f"result shape {arr.shape()} is not the interior shape")
    return sstrip(render(arr.fn(it.ipos()), names))


def matrix_of(it, res, sel):
    nd = it.ndim
    if isinstance(res, Mat):
        if sel != "whole":
            raise Bad("the dispatcher takes [0] of a single matrix")
        M = res
    elif isinstance(res, Tup) and all(isinstance(m, Mat) for m in res.items):
        if sel != "first":
            raise Bad("the dispatcher does not take [0] of the returned tuple")
        if len(res.items) != nd + 1:
            raise Bad("returned tuple is not (M, Mx, ...)")
        M = res.items[0]
        for a, m in zip(AXES, res.items[1:]):
            if list(m.dirs) != [a] or a not in M.dirs or m.dirs[a] is not M.dirs[a]:
                raise Bad(f"component {a} of the returned tuple is not the {a}-matrix summed into M")
    else:
        raise Bad("result is not a matrix / tuple of matrices")
    dirs = sorted(M.dirs, key=AXES.index)
    if dirs != AXES[:nd]:
        raise Bad(f"the matrix has directions {dirs} on a {nd}-D grid")
    return M, dirs


UPW_KINDS = [("face", "u")]
TVD_KINDS = [("face", "u"), ("cell", "φ"), ("fun", "FL")]


def translate_upwind(mesh, tree, helpers, name, disp):
    out = {}
    for has_arg in (True, False):
        fn, it, cls, sel = setup(mesh, tree, helpers, name, disp, UPW_KINDS, has_arg)
        M, dirs = matrix_of(it, it.run(fn), sel)
        out[has_arg] = (it, M, dirs)
    it, M, dirs = out[True]
    it0, M0, dirs0 = out[False]
    if dirs != dirs0:
        raise Bad("directions differ with / without the extra argument")
    defs = []
    for d in dirs:
        w, p, e = (at_interior(it, b, {}) for b in M.dirs[d])
        defs.append(f"def {name}_{d} (M : Mesh α) (u uUp : FaceFld α) (i j k : ℕ) : St3 α :=\n"
                    f"  {{ w := {w},\n    p := {p},\n    e := {e} }}\n")
        same = [at_interior(it, b, {"uUp": "u"}) for b in M.dirs[d]] == [at_interior(it0, b, {}) for b in M0.dirs[d]]
        if same:
            body = f"{name}_{d} M u u i j k"
        else:
            w, p, e = (at_interior(it0, b, {}) for b in M0.dirs[d])
            body = f"{{ w := {w},\n    p := {p},\n    e := {e} }}"
        defs.append(f"/-- `{name}(u)`: no extra argument -/\n"
                    f"def {name}_{d}_noarg (M : Mesh α) (u : FaceFld α) (i j k : ℕ) : St3 α :=\n  {body}\n")
    defs.append(f"def {name}_dirs : List Dir := [" + ", ".join("." + d for d in dirs) + "]\n")
    return defs


def tvd_items(it, res, sel):
    """[total, x-part, ...] as arrays over the interior"""
    nd = it.ndim
    if isinstance(res, Arr):                       # 1-D: the ghosted array itself
        if sel != "whole" or nd != 1:
            raise Bad("a single array is returned on a grid of dimension > 1 / the dispatcher takes [0]")
        if res.kind != "num" or res.raveled or res.dims != [("x", Poly.var("x") + Poly.const(2))]:
            raise Bad(f"result shape {res.shape()} is not the ghosted shape")
        for p in (Poly(), Poly.var("x") + ONE):
            if res.fn([(None, p)]) != ("num", Fraction(0)):
                raise Bad(f"ghost entry {p} of the result is not 0")
        return [Arr(it.interior_dims(), lambda pos: res.fn([shift(pos[0], 1)]))]
    if isinstance(res, Tup) and all(isinstance(v, Vec) for v in res.items):
        if sel != "first":
            raise Bad("the dispatcher does not take [0] of the returned tuple")
        if len(res.items) != nd + 1:
            raise Bad("returned tuple is not (RHS, RHSx, ...)")
        return [v.arr for v in res.items]
    raise Bad("result is neither a ghosted 1-D array nor a tuple of vectors built as zeros + interior assignment")


def translate_tvd(mesh, tree, helpers, name, disp):
    out = {}
    for has_arg in (True, False):
        fn, it, cls, sel = setup(mesh, tree, helpers, name, disp, TVD_KINDS, has_arg)
        out[has_arg] = (it, tvd_items(it, it.run(fn), sel))
    (it, items), (it0, items0) = out[True], out[False]
    if len(items) != len(items0):
        raise Bad("results differ with / without the extra argument")
    defs = []
    for suffix, v, v0 in zip([""] + ["_" + a for a in AXES], items, items0):
        defs.append(f"def {name}{suffix} (M : Mesh α) (u uUp : FaceFld α) (FL : α → α) (φ : CellFld α) (i j k : ℕ) : α :=\n"
                    f"  {at_interior(it, v, {})}\n")
        if at_interior(it, v, {"uUp": "u"}) == at_interior(it0, v0, {}):
            body = f"{name}{suffix} M u u FL φ i j k"
        else:
            body = at_interior(it0, v0, {})
        defs.append(f"/-- `{name}(u, phi, FL)`: no extra argument -/\n"
                    f"def {name}{suffix}_noarg (M : Mesh α) (u : FaceFld α) (FL : α → α) (φ : CellFld α) (i j k : ℕ) : α :=\n"
                    f"  {body}\n")
    return defs


HEADER = """/- GENERATED by harness/translate/tupw.py from advection.py (and the class hierarchy of mesh.py) — do not edit.
   Upwind coefficient formulas and TVD right-hand sides at the 0-based interior position (i, j, k)
   (= model cell (i+1, j+1, k+1)); proved equal to the model in PyFV/Props/GenEqUpw.lean. -/
import PyFV.Model.Geom
import PyFV.Model.Terms

set_option linter.unusedVariables false

namespace PyFV.Gen.StencilsUpw

variable {α : Type} [Field α] [LinearOrder α] [IsStrictOrderedRing α]
"""


def generate(repo):
    src = os.path.join(repo, "src", "pyfvtool")
    tinert.set_repo(repo)

    def parse(f):
        return tnum.parse_module(src, f)
    status = {}
    mesh = MeshInfo(parse("mesh.py"))
    tree = parse("advection.py")
    helpers = Helpers(tree, mesh)
    sections = []
    for disp_name, prefix, nfixed, fun in (("convectionUpwindTerm", "convectionUpwindTerm", 1, translate_upwind),
                                           ("convectionTVDupwindRHSTerm", "convectionTvdRHS", 3, translate_tvd)):
        sec = [f"/-! ### advection.py: `{prefix}*` -/\n"]
        try:
            disp, derr = dispatcher(tree, disp_name, prefix, nfixed), None
        except Bad as ex:
            disp, derr = {}, str(ex)
        for suf in SUFFIXES:
            name = prefix + suf
            if derr:
                status[name] = f"untranslated: {derr}"
                continue
            try:
                sec.extend(fun(mesh, tree, helpers, name, disp))
                status[name] = "ok"
            except Bad as ex:
                status[name] = f"untranslated: {ex}"
            except RecursionError:
                status[name] = "untranslated: recursion"
        rows = [(KIND[c], b) for b, (c, _) in disp.items() if c in KIND and status.get(b) == "ok"]
        sec.append(f"/-- grid class ↦ builder called by `{disp_name}` (translated builders only) -/\n"
                   f"def dispatch_{disp_name} : List (Kind × String) :=\n  ["
                   + ",\n   ".join(f'(.{k}, "{b}")' for k, b in rows) + "]\n")
        sections.append(sec)
    out = [HEADER]
    if helpers.defs:
        out.append("/-! ### advection.py: scalar helpers -/\n")
        out.extend(helpers.defs)
    for sec in sections:
        out.extend(sec)
    bad = [k for k, v in status.items() if v != "ok"]
    out.append("def untranslated : List String := [" + ", ".join(f'"{k}"' for k in bad) + "]\n")
    out.append("end PyFV.Gen.StencilsUpw\n")
    return "\n".join(out), status


def main():
    repo = os.environ.get("VERIF_REPO", "/repo")
    dst = sys.argv[1]
    text, status = generate(repo)
    status = tnum.annotate_helpers(tinert.annotate(status))
    write_if_changed(dst, text)
    base = os.path.splitext(os.path.basename(dst))[0].lower()
    write_if_changed(os.path.join(os.path.dirname(os.path.abspath(dst)), f"{base}_status.json"),
                     json.dumps(status, indent=1, sort_keys=True) + "\n")
    print(json.dumps(status))


if __name__ == "__main__":
    main()
