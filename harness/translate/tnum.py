#!/usr/bin/env python3
"""T-num: regenerate the COEFFICIENT FORMULAS of the matrix builders of PyFVTool from the Python source.

  python3 harness/translate/tnum.py lean/PyFV/Gen/Stencils.lean

writes  <out>                         Lean definitions (namespace PyFV.Gen.Stencils) of
                                        cellVolume_<Class>            (the nine `_getCellVolumes` of mesh.py)
                                        diffusionTerm*_<d>, *_dirs    (diffusion.py)
                                        convectionTerm*_<d>, *_dirs   (advection.py, central scheme only)
                                        divergenceTerm*, *_<d>        (calculus.py)
                                        dispatch_<f>                  (grid class ↦ builder, from the dispatchers)
                                        untranslated                  (names for which nothing was emitted)
        <dir>/stencils_status.json    {function: "ok" | "untranslated: reason"}
and prints the status as one JSON line.  stdlib `ast` only; nothing is imported from the package; the source
root is $VERIF_REPO (default /repo).  PyFV/Props/GenEq.lean proves every generated formula equal to the
hand-written model (PyFV/Model/Geom.lean, Terms.lean).

Method: abstract interpretation of the function body over SYMBOLIC ARRAYS.
  symbolic integer   polynomial in the cell counts X, Y, Z of the three axes (`Nx`, `mn = Nx*Ny`, `3*mn`, ...)
  symbolic array     a list of dimensions (axis x|y|z or broadcast, symbolic length) and a function from the
                     positions along the dimensions (variable + constant offset) to an element:
                     an expression tree over the leaves below, or (cell numbers `G`) a tuple of positions
  leaves (0-based array position p; M : Mesh α; missing cross dimensions of 1-D / 2-D grids are the cell 1)
     <mesh>.cellsize._x[p]        M.ax.DX p            (length X+2; _y, _z alike)
     <mesh>.cellcenters._x[p]     M.ax.cen (p+1)       (length X)
     <mesh>.facecenters._x[p]     M.ax.fc p            (length X+1)
     <par>._xvalue[p,q,r]         <par> .x (p, q+1, r+1)   (shape (X+1, Y, Z)); _yvalue: (p+1, q, r+1); _zvalue
     np.sin(cellcenters._y)[q]    M.sinC (q+1)         np.sin(facecenters._y)[q]   M.sinF q
     np.pi                        M.pi
     public names x, y, z, r, theta, phi: the property bodies of `CellProp` are interpreted with the
     `coordlabels` dictionary the class passes to `_mesh_Nd_param` in its `__init__` (or that method's default)
     <mesh>.cell_numbers()        the method of the class is interpreted (`int_range(0, P-1).reshape(X+2, ...)`)
  supported statements: assignment to plain names (also chained; `name: T = e` is `name = e`), tuple-unpacking of
     `.dims`, `Z[rows] = e` for a `Z = np.zeros(n)` (see below), `return`; docstrings.
  supported expressions: names, integer / float constants, + - * / (elementwise, numpy broadcasting aligned from the
     right; two non-broadcast dimensions must agree in axis and symbolic length), `** <int const>`, unary minus,
     `np.abs`, `np.sin` (of a θ leaf only), `np.copy`, basic slicing with bounds `a`, `N+b`, `-a` or empty
     (result[p] = base[p+start]; 0 ≤ start ≤ stop ≤ length is CHECKED symbolically), `np.newaxis`, `.ravel()`
     (keeps the multi-index; raveled arrays only combine with raveled arrays of identical shape or scalars),
     `np.zeros(n)`, `np.tile(v, 3)`, `np.hstack([...])` (1-D / raveled blocks), `s[0:k]` on such a concatenation
     (k must be its full length), tuples, `csr_array((vals, (rows, cols)), shape=(S, S))`, sums of such matrices.
  harmless spellings accepted as the form they abbreviate: `None` in an index = `np.newaxis`; `x.copy()` =
     `np.copy(x)`; the builtin `abs(x)` = `np.abs(x)` (refused if any parsed module binds the name `abs`);
     `np.concatenate([...])` of 1-D blocks without keywords = `np.hstack([...])`; `v.reshape(-1, 1)`,
     `v.reshape(1, -1)`, `v.reshape(-1, 1, 1)`, ... of a 1-D array (exactly one -1, all other lengths 1) =
     `v[:, np.newaxis]`, ... (a view of v); `csr_array(arg, (S, S))` = `csr_array(arg, shape=(S, S))`.
  CHECKS on `csr_array`: three value blocks, three row blocks, three column blocks, each of the shape of the
     interior; every row block is the interior `G[1:X+1, ...]`; the column blocks are the interior shifted by
     -1, 0, +1 along exactly one axis d (paired by position with the value blocks: these are the w, p, e
     coefficients of direction d); S is the ghosted size (X+2)(Y+2)(Z+2).
  CHECKS on `Z[rows] = e`: `Z = np.zeros(ghosted size)`, assigned once, rows = interior cell numbers, e has the
     shape of the interior.
  INERT statements (tinert.py: `print` / `warnings.warn` / `logging` calls and `assert`s on PURE expressions, `pass`,
     `if <pure>:` over such statements, validation guards `if <pure>: raise E(...)`, assignments to locals that only
     such statements read) are SKIPPED wherever they stand (function bodies, dispatchers, the properties of `CellProp`);
     trailing / keyword-only parameters with a default that only inert statements read are ignored.  The test is
     purely syntactic (closed list of side-effect-free functions, no method call, no store), so a skipped statement
     cannot write; what was skipped is listed under `_inert` in the status.
  PURE LOCAL HELPERS (the extract-function refactoring).  A call `f(args...)` that nothing above explains is looked up
     at MODULE level of the module of the calling function: `f` must be bound there only by top-level `def`s (the LAST one
     is the one in force when the call runs) or only by `from .x import f [as g]` / `from pyfvtool.x import f` (followed
     into x.py, which is parsed on demand and must define f exactly once); `self.m(...)` in a method of mesh.py is the
     method `m` found along the MRO of the concrete grid class.  The callee's body is then INTERPRETED BY THE SAME
     INTERPRETER in a FRESH environment (it sees its parameters only: no name of the caller, no module-level variable)
     with its parameters bound by Python's rules (positional / keyword arguments, positional-only and keyword-only
     parameters; defaults are evaluated in an empty environment, i.e. at definition time in the callee's module, and
     must be numbers) and the value (or tuple: `a, b, c = f(...)`) it returns is used where the call stood.  Values are
     expression trees, so the generated text is byte-identical when the refactoring keeps the expression (the printer
     never sees the call).  REFUSED (⇒ untranslated): a decorated definition (`functools.lru_cache`: results would be
     shared), *args / **kwargs / starred arguments, `global` / `nonlocal`, generators, nested functions / lambdas, a
     name that is also assigned, imported, declared global, defined under an `if`, or assigned as an attribute anywhere
     in the package (`mod.f = ...`, `setattr`), recursion and nesting deeper than 4, any statement or expression of the
     callee the interpreter does not understand (every statement counts; inert statements are skipped as in a builder;
     a module-level constant or cache read by the helper is an unknown name), and any store into an argument: tnum has
     no in-place operations at all (`DX *= 0.5` is an unknown statement) and `Z[rows] = e` on a `np.zeros` received as
     an argument is refused (arguments are frozen).  What was inlined is listed under `_helpers` in the status.
  ANY other statement or expression form makes the function `untranslated: <reason>` (no definition is emitted,
  its name is listed in `untranslated`, and the theorem about it in GenEq.lean no longer compiles).
Trusted (not derived): the array lengths in the leaf table, C-order of `ravel` / `reshape`, `int_range(a, b)` =
  a..b inclusive, `csr_array` semantics (entry (rows[t], cols[t]) += vals[t]); nobody outside the package (and no
  `globals()` / `exec` trick inside it) replaces a module-level function at run time (the same trust the builders get).
"""
import ast, sys, os, json
from fractions import Fraction

sys.path.insert(0, os.path.dirname(os.path.abspath(__file__)))
import tinert                                                  # noqa: E402

AXES = ["x", "y", "z"]
VAR = {"x": "i", "y": "j", "z": "k"}
PRIV = {"_x": "x", "_y": "y", "_z": "z"}
KIND = {"Grid1D": "cart1", "CylindricalGrid1D": "cyl1", "SphericalGrid1D": "sph1",
        "Grid2D": "cart2", "CylindricalGrid2D": "cyl2", "PolarGrid2D": "pol2",
        "Grid3D": "cart3", "CylindricalGrid3D": "cyl3", "SphericalGrid3D": "sph3"}
SUFFIXES = ["1D", "Cylindrical1D", "Spherical1D", "2D", "Cylindrical2D", "Polar2D", "3D", "Cylindrical3D",
            "Spherical3D"]


class Bad(Exception):
    pass


# ---------------------------------------------------------------------------------------------------------
# symbolic integers: polynomials in X, Y, Z
# ---------------------------------------------------------------------------------------------------------
class Poly:
    def __init__(self, terms=None):
        self.t = {m: c for m, c in (terms or {}).items() if c != 0}

    @staticmethod
    def const(c):
        return Poly({(0, 0, 0): c})

    @staticmethod
    def var(axis):
        m = [0, 0, 0]
        m[AXES.index(axis)] = 1
        return Poly({tuple(m): 1})

    def __add__(self, o):
        t = dict(self.t)
        for m, c in o.t.items():
            t[m] = t.get(m, 0) + c
        return Poly(t)

    def __neg__(self):
        return Poly({m: -c for m, c in self.t.items()})

    def __sub__(self, o):
        return self + (-o)

    def __mul__(self, o):
        t = {}
        for m1, c1 in self.t.items():
            for m2, c2 in o.t.items():
                m = tuple(a + b for a, b in zip(m1, m2))
                t[m] = t.get(m, 0) + c1 * c2
        return Poly(t)

    def __eq__(self, o):
        return isinstance(o, Poly) and self.t == o.t

    def __hash__(self):
        return hash(tuple(sorted(self.t.items())))

    def is_const(self):
        return all(m == (0, 0, 0) for m in self.t)

    def constval(self):
        if not self.is_const():
            raise Bad(f"symbolic size {self} where a constant is required")
        return self.t.get((0, 0, 0), 0)

    def __repr__(self):
        if not self.t:
            return "0"
        parts = []
        for m, c in sorted(self.t.items(), reverse=True):
            mon = "*".join(("N" + a) + (f"^{e}" if e > 1 else "") for a, e in zip(AXES, m) if e)
            parts.append((f"{c}*" if c != 1 and mon else (str(c) if not mon else "")) + mon)
        return "+".join(parts).replace("+-", "-")


ONE = Poly.const(1)


# ---------------------------------------------------------------------------------------------------------
# positions, element expressions
# ---------------------------------------------------------------------------------------------------------
def shift(pos, n):
    return (pos[0], pos[1] + n)


def rpos(pos):
    v, o = pos
    if v is None:
        return str(o)
    if o == 0:
        return v
    if o < 0:
        raise Bad("negative index")
    return f"({v} + {o})"


def rnum(fr):
    if fr.denominator == 1:
        n = fr.numerator
        return f"({n} : α)" if n >= 0 else f"(-{-n} : α)"
    s = f"(({abs(fr.numerator)} : α) / {fr.denominator})"
    return s if fr >= 0 else f"(-{s})"


def render(e):
    k = e[0]
    if k == "num":
        return rnum(e[1])
    if k == "pi":
        return "M.pi"
    if k == "leaf":          # ('leaf', field, axis, pos)
        _, field, axis, pos = e
        if field in ("sinC", "sinF"):
            return f"M.{field} {rpos(pos)}"
        return f"M.a{axis}.{field} {rpos(pos)}"
    if k == "face":          # ('face', param, dir, (p, q, r))
        _, par, d, idx = e
        inner = ", ".join(rpos(p)[1:-1] if rpos(p).startswith("(") else rpos(p) for p in idx)
        return f"{par} .{d} ({inner})"
    if k in ("add", "sub", "mul", "div"):
        sym = {"add": "+", "sub": "-", "mul": "*", "div": "/"}[k]
        return f"({render(e[1])} {sym} {render(e[2])})"
    if k == "neg":
        return f"(-{render(e[1])})"
    if k == "pow":
        return f"({render(e[1])} ^ {e[2]})"
    if k == "abs":
        return f"|{render(e[1])}|"
    raise Bad(f"render {k}")


def strip_outer(s):
    """drop one pair of outer parentheses (cosmetic)"""
    if s.startswith("(") and s.endswith(")"):
        depth = 0
        for n, ch in enumerate(s):
            depth += ch == "("
            depth -= ch == ")"
            if depth == 0 and n < len(s) - 1:
                return s
        return s[1:-1]
    return s


# ---------------------------------------------------------------------------------------------------------
# values
# ---------------------------------------------------------------------------------------------------------
class Arr:
    """dims: list of (axis | None, Poly length); fn: list of positions -> element"""

    def __init__(self, dims, fn, kind="num", raveled=False):
        self.dims, self.fn, self.kind, self.raveled = list(dims), fn, kind, raveled

    def size(self):
        p = ONE
        for _, L in self.dims:
            p = p * L
        return p

    def is1d(self):
        return self.raveled or len(self.dims) == 1

    def shape(self):
        return "(" + ", ".join(str(L) for _, L in self.dims) + ")"


class Cat:
    def __init__(self, blocks):
        self.blocks = blocks

    def length(self):
        p = Poly()
        for b in self.blocks:
            p = p + b.size()
        return p


class Range:            # int_range(0, n-1)
    def __init__(self, n):
        self.n = n


class Zeros:
    def __init__(self, n):
        self.n = n
        self.written = False        # `Z[rows] = e` rebinds the NAME to a Vec: a second store through an alias is refused


class Vec:              # ghosted vector, zero on ghosts, `arr` on the interior
    def __init__(self, arr):
        self.arr = arr


class Mat:              # {dir: (w, p, e)} blocks
    def __init__(self, dirs):
        self.dirs = dirs


class Tup:
    def __init__(self, items):
        self.items = items


class Ref:              # intermediate attribute chains: ('par',), ('mesh',), ('prop', which), ('dims',)
    def __init__(self, *what):
        self.what = what


def scalar(e):
    return Arr([], lambda pos: e)


# ---------------------------------------------------------------------------------------------------------
# the mesh module: classes, coordinate labels, cell numbers
# ---------------------------------------------------------------------------------------------------------
class MeshInfo:
    def __init__(self, tree):
        self.classes = {n.name: n for n in tree.body if isinstance(n, ast.ClassDef)}

    def mro(self, cls):
        out = []
        while cls in self.classes:
            out.append(cls)
            bases = self.classes[cls].bases
            if len(bases) > 1:
                raise Bad(f"multiple inheritance in {cls}")
            cls = bases[0].id if bases and isinstance(bases[0], ast.Name) else None
        return out

    def method(self, cls, name, own=False):
        """the LAST definition of `name` in the first class of the MRO that has one"""
        for c in self.mro(cls):
            defs = [m for m in self.classes[c].body if isinstance(m, ast.FunctionDef) and m.name == name]
            if defs:
                return defs[-1]
            if own:
                break
        raise Bad(f"{cls} has no method {name}")

    def coordlabels(self, cls):
        init = self.method(cls, "__init__")
        calls = [n for n in ast.walk(init) if isinstance(n, ast.Call) and isinstance(n.func, ast.Attribute)
                 and isinstance(n.func.value, ast.Name) and n.func.value.id == "self"
                 and n.func.attr.startswith("_mesh_") and n.func.attr.endswith("d_param")]
        if len(calls) != 1:
            raise Bad(f"{cls}.__init__: expected one call of self._mesh_Nd_param")
        call = calls[0]
        node = None
        for kw in call.keywords:
            if kw.arg == "coordlabels":
                node = kw.value
            else:
                raise Bad(f"{cls}.__init__: keyword {kw.arg}")
        if node is None:
            fn = self.method(cls, call.func.attr)
            for a, d in zip(fn.args.kwonlyargs, fn.args.kw_defaults):
                if a.arg == "coordlabels":
                    node = d
        if not (isinstance(node, ast.Dict) and all(isinstance(k, ast.Constant) and isinstance(v, ast.Constant)
                                                    for k, v in zip(node.keys, node.values))):
            raise Bad(f"{cls}: coordlabels is not a literal dictionary")
        return {k.value: v.value for k, v in zip(node.keys, node.values)}

    def public_axis(self, cls, name):
        """interpret the property `name` of CellProp with the coordlabels of `cls`"""
        labels = self.coordlabels(cls)
        props = [m for m in self.classes["CellProp"].body if isinstance(m, ast.FunctionDef) and m.name == name
                 and any(isinstance(d, ast.Name) and d.id == "property" for d in m.decorator_list)]
        if len(props) != 1:
            raise Bad(f"CellProp has no (unique) property {name}")

        def is_labels(n):
            return (isinstance(n, ast.Attribute) and n.attr == "coordlabels" and isinstance(n.value, ast.Name)
                    and n.value.id == "self")

        def test(t):
            if isinstance(t, ast.Compare) and len(t.ops) == 1 and isinstance(t.left, ast.Constant):
                if isinstance(t.ops[0], ast.In) and is_labels(t.comparators[0]):
                    return t.left.value in labels
            if isinstance(t, ast.Compare) and len(t.ops) == 1 and isinstance(t.ops[0], ast.Eq) \
                    and isinstance(t.left, ast.Subscript) and is_labels(t.left.value) \
                    and isinstance(t.left.slice, ast.Constant) and isinstance(t.comparators[0], ast.Constant):
                if t.left.slice.value not in labels:
                    raise Bad(f"property {name}: key error")
                return labels[t.left.slice.value] == t.comparators[0].value
            raise Bad(f"property {name}: test {ast.unparse(t)}")

        inert = tinert.analysis(props[0])

        def run(body):
            for st in body:
                if isinstance(st, ast.Expr) and isinstance(st.value, ast.Constant):
                    continue
                if inert.skip(st):
                    continue
                if isinstance(st, ast.If):
                    try:
                        taken = test(st.test)
                    except Bad:
                        if inert.skip_guard(st):        # a validation guard on a test that is not understood
                            continue
                        raise
                    return run(st.body if taken else st.orelse)
                if isinstance(st, ast.Return) and isinstance(st.value, ast.Attribute) \
                        and isinstance(st.value.value, ast.Name) and st.value.value.id == "self" \
                        and st.value.attr in PRIV:
                    return PRIV[st.value.attr]
                if isinstance(st, ast.Raise):
                    raise Bad(f"{cls} has no coordinate labelled '{name}' (the property raises)")
                raise Bad(f"property {name}: statement {type(st).__name__}")
            raise Bad(f"property {name}: no return")

        return run(props[0].body)


# ---------------------------------------------------------------------------------------------------------
# harmless spellings (accepted as the form they abbreviate)
# ---------------------------------------------------------------------------------------------------------
def plain_assign(st):
    """`name: T = e` (annotated assignment to a plain local name; the annotation of a local is not evaluated) is
    the assignment `name = e`"""
    if isinstance(st, ast.AnnAssign) and isinstance(st.target, ast.Name) and st.value is not None and st.simple:
        new = ast.Assign(targets=[st.target], value=st.value)
        ast.copy_location(new, st)
        return ast.fix_missing_locations(new)
    return st


def is_newaxis(it):
    """`np.newaxis` or its value, the literal `None`"""
    if isinstance(it, ast.Attribute) and isinstance(it.value, ast.Name) and it.value.id == "np" and it.attr == "newaxis":
        return True
    return isinstance(it, ast.Constant) and it.value is None


def module_bound_names(tree):
    """names bound at module level (a module that rebinds `abs` does not get the builtin)"""
    out = set()
    for n in ast.walk(tree):
        if isinstance(n, (ast.FunctionDef, ast.ClassDef, ast.AsyncFunctionDef)):
            out.add(n.name)
        elif isinstance(n, ast.alias):
            out.add((n.asname or n.name).split(".")[0])
        elif isinstance(n, ast.Name) and isinstance(n.ctx, (ast.Store, ast.Del)):
            out.add(n.id)
        elif isinstance(n, ast.arg):
            out.add(n.arg)
        elif isinstance(n, (ast.Global, ast.Nonlocal)):
            out.update(n.names)
    return out


SHADOWED = set()        # every name bound anywhere in the modules parsed so far (conservative)
MODULES = {}            # module name ('diffusion') -> parsed tree; modules reached through `from .x import f` are loaded on demand
FN_MODULE = {}          # id(FunctionDef) -> module name (module-level functions, methods of module-level classes)
SRC_DIR = [None]        # <repo>/src/pyfvtool


def set_source(src):
    if SRC_DIR[0] != src:
        SRC_DIR[0] = src
        MODULES.clear()
        FN_MODULE.clear()
        _ATTR_STORES.clear()
        INLINED.clear()


def note_module(tree, name=None):
    SHADOWED.update(module_bound_names(tree))
    tinert.register(tree)
    if name is not None:
        MODULES[name] = tree
        for n in tree.body:
            if isinstance(n, ast.FunctionDef):
                FN_MODULE[id(n)] = name
            elif isinstance(n, ast.ClassDef):
                for m in n.body:
                    if isinstance(m, ast.FunctionDef):
                        FN_MODULE[id(m)] = name
    return tree


def parse_module(src, f):
    """parse <src>/<f> (f = 'mesh.py') once and register it under its module name"""
    set_source(src)
    name = f[:-3] if f.endswith(".py") else f
    if name in MODULES:
        return MODULES[name]
    return note_module(ast.parse(open(os.path.join(src, name + ".py")).read()), name)


def load_module(name):
    if name in MODULES:
        return MODULES[name]
    path = os.path.join(SRC_DIR[0] or "", name + ".py")
    if SRC_DIR[0] is None or not os.path.isfile(path):
        raise Bad(f"module {name} of the package not found")
    try:
        tree = ast.parse(open(path).read())
    except SyntaxError:
        raise Bad(f"module {name} does not parse")
    return note_module(tree, name)


# ---------------------------------------------------------------------------------------------------------
# PURE LOCAL HELPERS (the extract-function refactoring): name resolution, checks on the definition, argument binding.
# Shared by tnum / tupw / tavg (class Interp below and its subclasses) and tbc (its own interpreter).
# ---------------------------------------------------------------------------------------------------------
HELPER_DEPTH = 4        # helper calls nested deeper than this are refused (recursion is refused outright)
INLINED = {}            # {translated function: [module.helper, ...]}: what was inlined (status key `_helpers`)
_ATTR_STORES = {}


def _scope_defs(body, name):
    """number of `def` / `class` statements binding `name` in the scope of `body` (compound statements are entered,
    function and class bodies are not)"""
    n = 0
    for st in body:
        if isinstance(st, (ast.FunctionDef, ast.AsyncFunctionDef, ast.ClassDef)):
            n += st.name == name
            continue
        for b in tinert._sub_blocks(st):
            n += _scope_defs(b, name)
    return n


def resolve_helper(modname, name, hops=0):
    """what the module-level name `name` of module `modname` denotes when a function of that module calls it:
    (FunctionDef, module name), or None when the name is not bound at module level by a `def` / a `from .x import` of
    the package; Bad when it is bound in a way that is not understood.  The LAST top-level `def` wins (the call runs
    after the module body); a name that is also assigned / imported / declared `global` / defined under an `if` is
    refused; an imported helper must have exactly one definition in its module."""
    tree = MODULES.get(modname)
    if tree is None:
        return None
    bound = tinert._bindings(tree.body, deep=False)
    kinds = bound.get(name)
    if not kinds:
        return None
    if not any(k[0] in ("def", "from") for k in kinds):
        return None
    if "*" in bound:
        raise Bad(f"call {name}: the module {modname} has a star import")
    if kinds == {("def",)}:
        defs = [n for n in tree.body if isinstance(n, (ast.FunctionDef, ast.AsyncFunctionDef, ast.ClassDef))
                and n.name == name]
        if not defs or _scope_defs(tree.body, name) != len(defs):
            raise Bad(f"call {name}: defined conditionally in {modname}.py")
        if not isinstance(defs[-1], ast.FunctionDef):
            raise Bad(f"call {name}: not a plain function")
        if hops and len(defs) != 1:
            raise Bad(f"call {name}: imported from {modname}.py, which defines it {len(defs)} times")
        return defs[-1], modname
    if len(kinds) == 1:
        k = next(iter(kinds))
        if k[0] == "from":
            _, module, orig, level = k
            target = None
            if level == 1 and module and "." not in module:
                target = module
            elif level == 0 and module.startswith("pyfvtool.") and module.count(".") == 1:
                target = module.split(".")[1]
            if target is None:
                return None                                 # numpy, scipy, ...: not a helper of the package
            if hops >= 3:
                raise Bad(f"call {name}: chain of re-exports too long")
            load_module(target)
            r = resolve_helper(target, orig, hops + 1)
            if r is None:
                raise Bad(f"call {name}: `{orig}` is not a function defined in {target}.py")
            return r
    raise Bad(f"call {name}: the name is bound in several ways at module level of {modname}.py "
              f"({', '.join(sorted(k[0] for k in kinds))})")


def package_attr_stores():
    """attribute names that are assigned / deleted somewhere in the package (`x.f = ...`, `del x.f`,
    `setattr(x, 'f', ...)`): a helper of that name could be replaced at run time"""
    src = SRC_DIR[0]
    if src in _ATTR_STORES:
        return _ATTR_STORES[src]
    out = set()
    if src is not None:
        for d, _, fs in os.walk(src):
            for f in sorted(fs):
                if not f.endswith(".py"):
                    continue
                try:
                    tree = ast.parse(open(os.path.join(d, f)).read())
                except (OSError, SyntaxError):
                    continue
                for n in ast.walk(tree):
                    if isinstance(n, ast.Attribute) and isinstance(n.ctx, (ast.Store, ast.Del)):
                        out.add(n.attr)
                    elif isinstance(n, ast.Call) and isinstance(n.func, ast.Name) and n.func.id in ("setattr", "delattr") \
                            and len(n.args) >= 2 and isinstance(n.args[1], ast.Constant):
                        out.add(n.args[1].value)
    _ATTR_STORES[src] = out
    return out


def check_helper_def(fn):
    """the definition must be a plain function: no decorator (a cached helper, e.g. `functools.lru_cache`, shares its
    results), no *args / **kwargs, no global / nonlocal, no generator, no nested scope, never re-assigned as an attribute"""
    nm = getattr(fn, "name", "?")
    if not isinstance(fn, ast.FunctionDef):
        raise Bad(f"helper {nm} is not a plain function")
    if fn.decorator_list:
        raise Bad(f"helper {nm} is decorated (@{ast.unparse(fn.decorator_list[0])[:40]}): its results could be cached / shared")
    if fn.args.vararg or fn.args.kwarg:
        raise Bad(f"helper {nm} takes *args / **kwargs")
    for x in ast.walk(fn):
        if x is fn:
            continue
        if isinstance(x, (ast.Global, ast.Nonlocal)):
            raise Bad(f"helper {nm} declares global / nonlocal names")
        if isinstance(x, (ast.Yield, ast.YieldFrom, ast.Await)):
            raise Bad(f"helper {nm} is a generator / coroutine")
        if isinstance(x, (ast.FunctionDef, ast.AsyncFunctionDef, ast.ClassDef, ast.Lambda)):
            raise Bad(f"helper {nm} contains a nested function / class / lambda")
    if nm in package_attr_stores():
        raise Bad(f"helper {nm}: an attribute of that name is assigned somewhere in the package")


def is_immutable_scalar(v):
    return isinstance(v, Poly) or (hasattr(v, "dims") and hasattr(v, "fn") and not v.dims
                                   and getattr(v, "kind", None) == "num")


def bind_call(fn, node, ev_arg, ev_default, first=()):
    """{parameter name: value}: Python's binding of the call `node` to the signature of `fn` (positional and keyword
    arguments, positional-only / keyword-only parameters, defaults).  Arguments are evaluated with `ev_arg` (the
    caller), defaults with `ev_default` (the callee's module, at definition time: only immutable numbers are accepted).
    Extra parameters that only inert statements read (tinert) are left unbound when they get a constant / their default."""
    nm = fn.name
    a = fn.args
    if any(isinstance(x, ast.Starred) for x in node.args) or any(k.arg is None for k in node.keywords):
        raise Bad(f"call of {nm} with starred arguments")
    inert = set(tinert.extra_inert_params(fn))
    posonly = [p.arg for p in a.posonlyargs]
    pos = posonly + [p.arg for p in a.args]
    kwonly = [p.arg for p in a.kwonlyargs]
    given = {}
    supplied = [("val", v) for v in first] + [("node", x) for x in node.args]
    if len(supplied) > len(pos):
        raise Bad(f"call of {nm}: {len(supplied)} positional arguments for {len(pos)} parameters")
    for p, x in zip(pos, supplied):
        given[p] = x
    for k in node.keywords:
        if k.arg in given:
            raise Bad(f"call of {nm}: multiple values for {k.arg}")
        if k.arg in posonly or k.arg not in pos + kwonly:
            raise Bad(f"call of {nm}: unexpected keyword {k.arg}")
        given[k.arg] = ("node", k.value)
    defaults = dict(zip(pos[len(pos) - len(a.defaults):], a.defaults))
    defaults.update({p: d for p, d in zip(kwonly, a.kw_defaults) if d is not None})
    bound = {}
    for p in pos + kwonly:
        if p in given:
            kind, x = given[p]
            if kind == "val":
                bound[p] = x
            elif p in inert and isinstance(x, ast.Constant):
                continue
            else:
                bound[p] = ev_arg(x)
        elif p in defaults:
            if p in inert:
                continue
            try:
                v = ev_default(defaults[p])
            except Bad as ex:
                raise Bad(f"call of {nm}: default of {p}: {ex}")
            if not is_immutable_scalar(v):
                raise Bad(f"call of {nm}: the default of {p} is not a number")
            bound[p] = v
        else:
            raise Bad(f"call of {nm}: missing argument {p}")
    return bound


QUIET_HELPERS = set()   # helpers the unmodified package already has (tupw / tavg inline them since their first version)


def note_inlined(top, modname, fn):
    if fn.name in QUIET_HELPERS:
        return
    lst = INLINED.setdefault(top, [])
    q = f"{modname}.{fn.name}"
    if q not in lst:
        lst.append(q)


def annotate_helpers(status):
    """add the record of the inlined helpers (nothing is added when there is none)"""
    if INLINED:
        status = dict(status)
        status["_helpers"] = {k: list(v) for k, v in sorted(INLINED.items())}
    return status


# ---------------------------------------------------------------------------------------------------------
# the interpreter
# ---------------------------------------------------------------------------------------------------------
class Interp:
    def __init__(self, mesh, cls, par, ndim=None):
        """mesh: MeshInfo; cls: grid class; par: name of the face-variable parameter (or None: `self` is the mesh)"""
        self.mesh, self.cls, self.par, self.ndim = mesh, cls, par, ndim
        self.env = {}
        self.result = None
        self.fn, self.modname, self.locals = None, None, set()     # the function being interpreted, its module
        self.is_helper, self.hstack, self.frozen_objs = False, [], []

    # ---- statements
    def enter(self, fn):
        """remember the function being interpreted (its module resolves the helpers it calls)"""
        self.fn = fn
        if self.modname is None:
            self.modname = FN_MODULE.get(id(fn))
        self.locals = set(tinert._bindings([fn.args] + list(fn.body), deep=False))

    def run(self, fn):
        self.enter(fn)
        inert = tinert.analysis(fn)
        for st in fn.body:
            if self.result is not None:
                raise Bad("statement after return")
            if isinstance(st, ast.Expr) and isinstance(st.value, ast.Constant) and isinstance(st.value.value, str):
                continue
            if inert.skip_guard(st):            # inert statement (tinert.py): no effect on the result
                continue
            st = plain_assign(st)
            if isinstance(st, ast.Assign):
                self.assign(st)
            elif isinstance(st, ast.Return):
                if st.value is None:
                    raise Bad("bare return")
                self.result = self.ev(st.value)
            else:
                raise Bad(f"statement {type(st).__name__} (line {st.lineno})")
        if self.result is None:
            raise Bad("no return")
        return self.result

    def assign(self, st):
        if all(isinstance(t, ast.Name) for t in st.targets):
            v = self.ev(st.value)
            if isinstance(v, Ref) and v.what[0] != "dims":
                raise Bad(f"assignment of {ast.unparse(st.value)}")
            for t in st.targets:
                self.env[t.id] = v
            return
        if len(st.targets) != 1:
            raise Bad(f"assignment targets (line {st.lineno})")
        t = st.targets[0]
        if isinstance(t, ast.Tuple) and all(isinstance(e, ast.Name) for e in t.elts):
            v = self.ev(st.value)
            if isinstance(v, Tup):                  # `a, b, c = <tuple>` (e.g. the tuple a helper returns)
                if len(v.items) != len(t.elts):
                    raise Bad(f"unpacking {len(v.items)} values into {len(t.elts)} names (line {st.lineno})")
                if any(isinstance(x, Ref) and x.what[0] != "dims" for x in v.items):
                    raise Bad(f"tuple assignment of {ast.unparse(st.value)[:40]}")
                for e, x in zip(t.elts, v.items):
                    self.env[e.id] = x
                return
            if not (isinstance(v, Ref) and v.what[0] == "dims"):
                raise Bad(f"tuple assignment from {ast.unparse(st.value)}")
            if self.ndim is None:
                self.ndim = len(t.elts)
            if len(t.elts) != self.ndim:
                raise Bad(f"unpacking .dims of a {self.ndim}-D grid into {len(t.elts)} names")
            for e, a in zip(t.elts, AXES):
                self.env[e.id] = Poly.var(a)
            return
        if isinstance(t, ast.Subscript) and isinstance(t.value, ast.Name):
            z = self.env.get(t.value.id)
            if not isinstance(z, Zeros):
                raise Bad(f"item assignment to {t.value.id}, which is not a fresh np.zeros(n)")
            if any(z is o for o in self.frozen_objs):
                raise Bad(f"item assignment to {t.value.id}, an argument of the helper")
            if z.written:
                raise Bad(f"item assignment to {t.value.id}: that np.zeros(n) was already assigned under another name")
            z.written = True
            rows = self.ev(t.slice)
            val = self.ev(st.value)
            self.need_ndim()
            if z.n != self.ghosted_size():
                raise Bad(f"np.zeros({z.n}) is not the ghosted size {self.ghosted_size()}")
            self.check_interior_rows(rows, "row index")
            self.check_interior_block(val, "assigned values")
            self.env[t.value.id] = Vec(val)
            return
        raise Bad(f"assignment target {ast.unparse(t)}")

    # ---- geometry helpers
    def need_ndim(self):
        if self.ndim is None:
            raise Bad("grid dimension unknown")
        return self.ndim

    def interior_dims(self):
        return [(a, Poly.var(a)) for a in AXES[:self.need_ndim()]]

    def ghosted_size(self):
        p = ONE
        for a in AXES[:self.need_ndim()]:
            p = p * (Poly.var(a) + Poly.const(2))
        return p

    def ipos(self):
        return [(VAR[a], 0) for a in AXES[:self.need_ndim()]]

    def check_interior_block(self, v, what):
        if not (isinstance(v, Arr) and v.kind == "num"):
            raise Bad(f"{what}: not a numeric array")
        if not v.is1d():
            raise Bad(f"{what}: a {len(v.dims)}-D array where a 1-D (raveled) one is required")
        if v.dims != self.interior_dims():
            raise Bad(f"{what}: shape {v.shape()} is not the interior shape")

    def g_offsets(self, v, what):
        if not (isinstance(v, Arr) and v.kind == "G"):
            raise Bad(f"{what}: not a block of cell numbers")
        if not v.is1d():
            raise Bad(f"{what}: a {len(v.dims)}-D array where a 1-D (raveled) one is required")
        if v.dims != self.interior_dims():
            raise Bad(f"{what}: shape {v.shape()} is not the interior shape")
        cell = v.fn(self.ipos())
        offs = []
        for a, (var, off) in zip(AXES, cell):
            if var != VAR[a]:
                raise Bad(f"{what}: axes permuted")
            offs.append(off)
        return tuple(offs)

    def check_interior_rows(self, v, what):
        if self.g_offsets(v, what) != (1,) * self.ndim:
            raise Bad(f"{what}: not the interior cells G[1:N+1, ...]")

    # ---- leaves
    def leaf_axis(self, which, name):
        if name in PRIV:
            axis = PRIV[name]
        elif name in ("x", "y", "z", "r", "theta", "phi"):
            axis = self.mesh.public_axis(self.cls, name)
        else:
            raise Bad(f"attribute {which}.{name}")
        if AXES.index(axis) >= self.need_ndim():
            raise Bad(f"{which}.{name}: a {self.ndim}-D grid has no {axis} axis")
        return axis

    def leaf(self, which, name):
        axis = self.leaf_axis(which, name)
        N = Poly.var(axis)
        if which == "cellsize":
            return Arr([(axis, N + Poly.const(2))], lambda pos: ("leaf", "DX", axis, pos[0]))
        if which == "cellcenters":
            return Arr([(axis, N)], lambda pos: ("leaf", "cen", axis, shift(pos[0], 1)))
        if which == "facecenters":
            return Arr([(axis, N + ONE)], lambda pos: ("leaf", "fc", axis, pos[0]))
        raise Bad(f"mesh attribute {which}")

    def face_leaf(self, name):
        d = {"_xvalue": "x", "_yvalue": "y", "_zvalue": "z"}[name]
        nd = self.need_ndim()
        if AXES.index(d) >= nd:
            raise Bad(f"{name} of a {nd}-D grid")
        dims = [(a, Poly.var(a) + (ONE if a == d else Poly())) for a in AXES[:nd]]
        par = self.par

        def fn(pos):
            idx = []
            for n, a in enumerate(AXES):
                if n >= nd:
                    idx.append((None, 1))
                elif a == d:
                    idx.append(pos[n])
                else:
                    idx.append(shift(pos[n], 1))
            return ("face", par, d, tuple(idx))
        return Arr(dims, fn)

    def cell_numbers(self):
        fn = self.mesh.method(self.cls, "cell_numbers")
        sub = Interp(self.mesh, self.cls, None)
        g = sub.run(fn)
        if isinstance(g, Range):           # 1-D
            if g.n != Poly.var("x") + Poly.const(2):
                raise Bad("cell_numbers: 1-D range is not 0..Nx+1")
            g = Arr([("x", g.n)], lambda pos: (pos[0],), kind="G")
        if not (isinstance(g, Arr) and g.kind == "G"):
            raise Bad("cell_numbers: unexpected result")
        if self.ndim is None:
            self.ndim = len(g.dims)
        if len(g.dims) != self.ndim:
            raise Bad("cell_numbers: dimension mismatch")
        return g

    # ---- expressions
    def ev(self, node):
        m = getattr(self, "ev_" + type(node).__name__, None)
        if m is None:
            raise Bad(f"expression {type(node).__name__}: {ast.unparse(node)[:50]}")
        return m(node)

    def ev_Constant(self, node):
        v = node.value
        if isinstance(v, bool) or not isinstance(v, (int, float)):
            raise Bad(f"constant {v!r}")
        if isinstance(v, int):
            return Poly.const(v)
        return scalar(("num", Fraction(v)))

    def ev_Name(self, node):
        if node.id in self.env:
            return self.env[node.id]
        if self.is_helper:                  # a helper sees its own parameters (bound in env) only
            raise Bad(f"name {node.id}")
        if node.id == self.par:
            return Ref("par")
        if node.id == "self" and self.par is None:
            return Ref("mesh")
        raise Bad(f"name {node.id}")

    def ev_Tuple(self, node):
        return Tup([self.ev(e) for e in node.elts])

    def ev_Attribute(self, node):
        if isinstance(node.value, ast.Name) and node.value.id == "np":
            if node.attr == "pi":
                return scalar(("pi",))
            raise Bad(f"np.{node.attr}")
        base = self.ev(node.value)
        if not isinstance(base, Ref):
            raise Bad(f"attribute .{node.attr} of a computed value")
        w = base.what
        if w[0] == "par":
            if node.attr == "domain":
                return Ref("mesh")
            if node.attr in ("_xvalue", "_yvalue", "_zvalue"):
                return self.face_leaf(node.attr)
            raise Bad(f"attribute {self.par}.{node.attr}")
        if w[0] == "mesh":
            if node.attr in ("cellsize", "cellcenters", "facecenters"):
                return Ref("prop", node.attr)
            if node.attr == "dims":
                return Ref("dims")
            raise Bad(f"mesh attribute .{node.attr}")
        if w[0] == "prop":
            return self.leaf(w[1], node.attr)
        raise Bad(f"attribute .{node.attr}")

    def as_num(self, v):
        if isinstance(v, Poly):
            return scalar(("num", Fraction(v.constval())))
        if isinstance(v, Arr) and v.kind == "num":
            return v
        raise Bad("operand is not numeric")

    def ev_UnaryOp(self, node):
        if not isinstance(node.op, ast.USub):
            raise Bad(f"unary {type(node.op).__name__}")
        v = self.ev(node.operand)
        if isinstance(v, Poly):
            return -v
        v = self.as_num(v)
        return Arr(v.dims, lambda pos: ("neg", v.fn(pos)), raveled=v.raveled)

    def ev_BinOp(self, node):
        a, b = self.ev(node.left), self.ev(node.right)
        op = type(node.op)
        if isinstance(a, Mat) and isinstance(b, Mat) and op is ast.Add:
            if set(a.dirs) & set(b.dirs):
                raise Bad("sum of two matrices of the same direction")
            return Mat({**a.dirs, **b.dirs})
        if isinstance(a, Poly) and isinstance(b, Poly) and op in (ast.Add, ast.Sub, ast.Mult):
            return a + b if op is ast.Add else a - b if op is ast.Sub else a * b
        if op is ast.Pow:
            if not isinstance(b, Poly):
                raise Bad("exponent is not an integer constant")
            n = b.constval()
            if n < 0:
                raise Bad("negative exponent")
            a = self.as_num(a)
            return Arr(a.dims, lambda pos: ("pow", a.fn(pos), n), raveled=a.raveled)
        tag = {ast.Add: "add", ast.Sub: "sub", ast.Mult: "mul", ast.Div: "div"}.get(op)
        if tag is None:
            raise Bad(f"operator {op.__name__}")
        a, b = self.as_num(a), self.as_num(b)
        return self.broadcast(tag, a, b)

    def broadcast(self, tag, a, b):
        if a.raveled or b.raveled:
            if not a.dims:
                return Arr(b.dims, lambda pos: (tag, a.fn([]), b.fn(pos)), raveled=True)
            if not b.dims:
                return Arr(a.dims, lambda pos: (tag, a.fn(pos), b.fn([])), raveled=True)
            if not (a.raveled and b.raveled):
                raise Bad("elementwise operation between a raveled and an unraveled array")
            if a.dims != b.dims:
                raise Bad(f"raveled operands of different shapes {a.shape()} and {b.shape()}")
            return Arr(a.dims, lambda pos: (tag, a.fn(pos), b.fn(pos)), raveled=True)
        n = max(len(a.dims), len(b.dims))
        da = [None] * (n - len(a.dims)) + a.dims
        db = [None] * (n - len(b.dims)) + b.dims
        dims = []
        for x, y in zip(da, db):
            if x is None:
                dims.append(y)
            elif y is None:
                dims.append(x)
            elif x[0] is None:
                dims.append(y)
            elif y[0] is None:
                dims.append(x)
            else:
                if x != y:
                    raise Bad(f"broadcast of shapes {a.shape()} and {b.shape()}: {x[0]}:{x[1]} against {y[0]}:{y[1]}")
                dims.append(x)
        la, lb = len(a.dims), len(b.dims)
        return Arr(dims, lambda pos: (tag, a.fn(pos[n - la:]), b.fn(pos[n - lb:])))

    # ---- indexing
    def bound(self, node):
        if node is None:
            return None
        v = self.ev(node)
        if not isinstance(v, Poly):
            raise Bad(f"slice bound {ast.unparse(node)}")
        return v

    def ev_Subscript(self, node):
        base = self.ev(node.value)
        sl = node.slice
        if isinstance(base, Ref):
            if base.what[0] == "dims" and isinstance(sl, ast.Constant) and isinstance(sl.value, int) \
                    and 0 <= sl.value < 3:
                if self.ndim is not None and sl.value >= self.ndim:
                    raise Bad(f".dims[{sl.value}] of a {self.ndim}-D grid")
                return Poly.var(AXES[sl.value])
            raise Bad(f"subscript {ast.unparse(node)}")
        if isinstance(base, Cat):
            if not isinstance(sl, ast.Slice) or sl.step is not None:
                raise Bad(f"index of a concatenation: {ast.unparse(node)}")
            lo, hi = self.bound(sl.lower), self.bound(sl.upper)
            if lo is not None and lo != Poly():
                raise Bad(f"{ast.unparse(node)}: start is not 0")
            if hi is not None and hi != base.length():
                raise Bad(f"{ast.unparse(node)}: stop {hi} is not the full length {base.length()}")
            return base
        if not isinstance(base, Arr):
            raise Bad(f"subscript of {ast.unparse(node.value)[:40]}")
        if base.raveled:
            raise Bad("index of a raveled array")
        items = sl.elts if isinstance(sl, ast.Tuple) else [sl]
        spec = []
        for it in items:
            if is_newaxis(it):
                spec.append(None)
            elif isinstance(it, ast.Slice):
                if it.step is not None:
                    raise Bad("slice step")
                spec.append((self.bound(it.lower), self.bound(it.upper)))
            else:
                raise Bad(f"index {ast.unparse(it)}")
        return self.index(base, spec, ast.unparse(node))

    def index(self, arr, spec, txt):
        dims, src = [], []          # src[s] = (result dim, offset) for source dim s
        s = 0
        for it in spec:
            if it is None:
                dims.append((None, ONE))
                continue
            if s >= len(arr.dims):
                raise Bad(f"{txt}: too many indices for shape {arr.shape()}")
            axis, L = arr.dims[s]
            lo, hi = it
            if axis is None:
                if lo is not None or hi is not None:
                    raise Bad(f"{txt}: proper slice of a broadcast dimension")
                dims.append((None, ONE))
                src.append((len(dims) - 1, 0))
            else:
                start = 0 if lo is None else lo.constval()
                if start < 0:
                    raise Bad(f"{txt}: negative start")
                stop = L if hi is None else hi
                if hi is not None and hi.is_const() and hi.constval() < 0:
                    stop = L + hi
                slack = L - stop
                if not (slack.is_const() and slack.constval() >= 0):
                    raise Bad(f"{txt}: stop {stop} exceeds the length {L}")
                newL = stop - Poly.const(start)
                if newL.is_const() and newL.constval() <= 0:
                    raise Bad(f"{txt}: empty slice")
                dims.append((axis, newL))
                src.append((len(dims) - 1, start))
            s += 1
        for t in range(s, len(arr.dims)):
            dims.append(arr.dims[t])
            src.append((len(dims) - 1, 0))
        sdims = arr.dims

        def fn(pos):
            return arr.fn([shift(pos[r], off) if sdims[n][0] is not None else None
                           for n, (r, off) in enumerate(src)])
        return Arr(dims, fn, kind=arr.kind)

    # ---- calls
    def ev_Call(self, node):
        f = node.func
        if isinstance(f, ast.Attribute) and isinstance(f.value, ast.Name) and f.value.id == "np":
            return self.np_call(f.attr, node)
        if isinstance(f, ast.Name) and f.id == "csr_array":
            return self.csr(node)
        if isinstance(f, ast.Name) and f.id == "int_range":
            if node.keywords or len(node.args) != 2:
                raise Bad("int_range arguments")
            a, b = self.ev(node.args[0]), self.ev(node.args[1])
            if not (isinstance(a, Poly) and isinstance(b, Poly)) or a != Poly():
                raise Bad("int_range(a, b) with a ≠ 0")
            return Range(b + ONE)
        if isinstance(f, ast.Attribute) and f.attr == "ravel" and not node.args and not node.keywords:
            v = self.ev(f.value)
            if not isinstance(v, Arr):
                raise Bad(".ravel() of a non-array")
            if any(a is None for a, _ in v.dims):
                raise Bad(f".ravel() of an array with a broadcast dimension {v.shape()}")
            return Arr(v.dims, v.fn, kind=v.kind, raveled=v.raveled or len(v.dims) > 1)
        if isinstance(f, ast.Attribute) and f.attr == "copy" and not node.args and not node.keywords \
                and not (isinstance(f.value, ast.Name) and f.value.id == "np"):
            # `x.copy()` on an array is `np.copy(x)` (a new array with the same elements)
            if not isinstance(self.ev(f.value), Arr):
                raise Bad(".copy() of a non-array")
            return self.np_call("copy", ast.copy_location(ast.Call(func=f, args=[f.value], keywords=[]), node))
        if isinstance(f, ast.Name) and f.id == "abs" and f.id not in self.env and f.id not in SHADOWED \
                and len(node.args) == 1 and not node.keywords:
            # the builtin `abs` of an array / a number is `np.abs` (ndarray.__abs__ is np.absolute)
            v = self.ev(node.args[0])
            if not (isinstance(v, Arr) and v.kind == "num"):
                raise Bad("abs of a non-array")
            return self.np_call("abs", ast.copy_location(ast.Call(func=f, args=node.args, keywords=[]), node))
        if isinstance(f, ast.Attribute) and f.attr == "reshape" and not node.keywords:
            v = self.ev(f.value)
            if isinstance(v, Arr) and v.kind == "num" and not v.raveled and len(v.dims) == 1 and v.dims[0][0] is not None:
                # a 1-D array reshaped to (-1, 1) / (1, -1) / (-1, 1, 1) ...: exactly one -1, all other lengths 1:
                # the same as indexing with np.newaxis in the positions of the 1s
                shp = node.args[0].elts if len(node.args) == 1 and isinstance(node.args[0], ast.Tuple) else node.args
                ls = [self.ev(a) for a in shp]
                if not (len(ls) >= 2 and all(isinstance(L, Poly) and L.is_const() for L in ls)
                        and sorted(L.constval() for L in ls) == [-1] + [1] * (len(ls) - 1)):
                    raise Bad(f"{ast.unparse(node)[:60]}: reshape of a 1-D array to something else than (-1, 1, ...)")
                r = self.index(v, [(None, None) if L.constval() == -1 else None for L in ls], ast.unparse(node))
                b = getattr(v, "_buf", None)
                r._buf = v if b is None else b          # a VIEW of v (buffer identities are used by T-upw / T-avg)
                return r
            if not isinstance(v, Range):
                raise Bad(".reshape of something else than int_range")
            ls = [self.ev(a) for a in node.args]
            want = [Poly.var(a) + Poly.const(2) for a in AXES[:len(ls)]]
            if ls != want or not 2 <= len(ls) <= 3:
                raise Bad("reshape: not (Nx+2, Ny+2[, Nz+2])")
            p = ONE
            for L in ls:
                p = p * L
            if p != v.n:
                raise Bad("reshape: size mismatch")
            return Arr(list(zip(AXES, ls)), lambda pos: tuple(pos), kind="G")
        if isinstance(f, ast.Attribute) and f.attr == "cell_numbers" and not node.args and not node.keywords:
            b = self.ev(f.value)
            if isinstance(b, Ref) and b.what[0] == "mesh":
                return self.cell_numbers()
        r = self.local_helper(node)
        if r is not None:
            return r[0]
        raise Bad(f"call {ast.unparse(f)[:40]}")

    # ---- pure local helpers (extract-function): see the section PURE LOCAL HELPERS above
    def is_param_name(self, name):
        return not self.is_helper and (name == self.par or (name == "self" and self.par is None))

    def local_helper(self, node):
        """(value,) of a call `f(...)` of a module-level function of the same module / imported from another module of
        the package, or `self.m(...)` of a method of the grid class, interpreted inline; None when the call is neither"""
        f = node.func
        if isinstance(f, ast.Name):
            if f.id in self.env or f.id in self.locals or self.is_param_name(f.id) or self.modname is None:
                return None
            r = resolve_helper(self.modname, f.id)
            if r is None:
                return None
            return (self.call_helper(r[0], r[1], node),)
        if isinstance(f, ast.Attribute) and isinstance(f.value, ast.Name) and f.value.id != "np":
            try:
                base = self.ev(f.value)
            except Bad:
                return None
            if isinstance(base, Ref) and base.what[0] == "mesh" and self.cls is not None:
                m = self.mesh.method(self.cls, f.attr)            # MRO of the concrete class, last definition
                return (self.call_helper(m, FN_MODULE.get(id(m), "mesh"), node, first=(base,)),)
        return None

    def spawn_helper(self, fn, modname):
        """a fresh interpreter of the same kind for the body of a helper: empty environment, same grid"""
        sub = Interp(self.mesh, self.cls, self.par, self.ndim)
        self.init_helper(sub, modname)
        return sub

    def init_helper(self, sub, modname):
        sub.is_helper, sub.modname = True, modname
        sub.hstack = self.hstack + [self.fn]
        sub.frozen_objs = list(self.frozen_objs)
        if sub.ndim is None:
            sub.ndim = self.ndim

    def check_helper_arg(self, name, v):
        pass

    def freeze(self, sub, values):
        """the arguments are FROZEN inside the helper (no store into them: the caller's view would not see it)"""
        def walk(v):
            sub.frozen_objs.append(v)
            if isinstance(v, Tup):
                for x in v.items:
                    walk(x)
        for v in values:
            walk(v)

    def call_helper(self, fn, modname, node, first=()):
        nm = getattr(fn, "name", "?")
        check_helper_def(fn)
        chain = [f.name for f in self.hstack + [self.fn] if f is not None]
        if fn is self.fn or any(f is fn for f in self.hstack):
            raise Bad(f"helper {nm} is recursive ({' > '.join(chain + [nm])})")
        if len(self.hstack) >= HELPER_DEPTH:
            raise Bad(f"helper calls nested deeper than {HELPER_DEPTH} ({' > '.join(chain + [nm])})")
        bound = bind_call(fn, node, self.ev, lambda e: self.spawn_helper(fn, modname).ev(e), first)
        for v in bound.values():
            self.check_helper_arg(nm, v)
        sub = self.spawn_helper(fn, modname)
        sub.env.update(bound)
        self.freeze(sub, list(bound.values()))
        try:
            res = sub.run(fn)
        except Bad as ex:
            raise Bad(f"{nm}: {ex}")
        top = (self.hstack + [self.fn])[0]
        note_inlined(top.name if top is not None else "?", modname, fn)
        return res

    def np_call(self, name, node):
        if node.keywords:
            raise Bad(f"np.{name} with keywords")
        args = node.args
        if name in ("abs", "copy", "sin") and len(args) == 1:
            v = self.as_num(self.ev(args[0]))
            if name == "copy":
                return v
            if name == "abs":
                return Arr(v.dims, lambda pos: ("abs", v.fn(pos)), raveled=v.raveled)

            def sin(pos):
                e = v.fn(pos)
                if e[0] == "leaf" and e[2] == "y" and e[1] in ("cen", "fc"):
                    return ("leaf", "sinC" if e[1] == "cen" else "sinF", "y", e[3])
                raise Bad("np.sin of something else than the θ centres / faces (cellcenters._y, facecenters._y)")
            sin([(VAR[a] if a else None, 0) if a else None for a, _ in v.dims])      # validate now
            return Arr(v.dims, sin, raveled=v.raveled)
        if name == "zeros" and len(args) == 1:
            n = self.ev(args[0])
            if not isinstance(n, Poly):
                raise Bad("np.zeros of a non-integer")
            return Zeros(n)
        if name == "tile" and len(args) == 2:
            v, n = self.ev(args[0]), self.ev(args[1])
            if not (isinstance(v, Arr) and v.is1d() and isinstance(n, Poly)):
                raise Bad("np.tile arguments")
            return Cat([v] * n.constval())
        if name in ("hstack", "concatenate") and len(args) == 1 and isinstance(args[0], (ast.List, ast.Tuple)):
            # np.concatenate of 1-D blocks (default axis 0, no keywords) is np.hstack of them
            blocks = [self.ev(e) for e in args[0].elts]
            for b in blocks:
                if not isinstance(b, Arr):
                    raise Bad(f"np.{name} of a non-array")
                if not b.is1d():
                    raise Bad(f"np.{name} of an unraveled {len(b.dims)}-D block {b.shape()}")
            return Cat(blocks)
        raise Bad(f"call np.{name}")

    def csr(self, node):
        # csr_array(arg1, shape=None, ...): the shape is the keyword `shape` or the second positional argument
        if len(node.args) == 2 and not node.keywords:
            shp_node = node.args[1]
        elif len(node.args) == 1 and [k.arg for k in node.keywords] == ["shape"]:
            shp_node = node.keywords[0].value
        else:
            raise Bad("csr_array: expected csr_array((vals, (rows, cols)), shape=...)")
        a = self.ev(node.args[0])
        shp = self.ev(shp_node)
        if not (isinstance(a, Tup) and len(a.items) == 2 and isinstance(a.items[1], Tup) and len(a.items[1].items) == 2):
            raise Bad("csr_array: argument structure")
        vals, (rows, cols) = a.items[0], a.items[1].items
        for nm, v in (("values", vals), ("rows", rows), ("columns", cols)):
            if not (isinstance(v, Cat) and len(v.blocks) == 3):
                raise Bad(f"csr_array: {nm} are not three stacked blocks")
        self.need_ndim()
        g = self.ghosted_size()
        if not (isinstance(shp, Tup) and len(shp.items) == 2 and all(isinstance(s, Poly) for s in shp.items)):
            raise Bad("csr_array: shape")
        if shp.items[0] != g or shp.items[1] != g:
            raise Bad(f"csr_array: shape ({shp.items[0]}, {shp.items[1]}) is not the ghosted size {g}")
        for b in vals.blocks:
            self.check_interior_block(b, "value block")
        for b in rows.blocks:
            self.check_interior_rows(b, "row block")
        offs = [self.g_offsets(b, "column block") for b in cols.blocks]
        varying = [n for n in range(self.ndim) if {o[n] for o in offs} != {1}]
        if len(varying) != 1:
            raise Bad(f"csr_array: column blocks {offs} do not shift along exactly one axis")
        d = varying[0]
        if sorted(o[d] for o in offs) != [0, 1, 2]:
            raise Bad(f"csr_array: column shifts along {AXES[d]} are not -1, 0, +1")
        by = {o[d]: b for o, b in zip(offs, vals.blocks)}
        return Mat({AXES[d]: (by[0], by[1], by[2])})


# ---------------------------------------------------------------------------------------------------------
# per-function drivers
# ---------------------------------------------------------------------------------------------------------
def at_interior(it, arr):
    if not (isinstance(arr, Arr) and arr.kind == "num"):
        raise Bad("result is not a numeric array")
    if arr.dims != it.interior_dims():
        raise Bad(f"result shape {arr.shape()} is not the interior shape")
    return strip_outer(render(arr.fn(it.ipos())))


def dispatcher(tree, name, prefix):
    """{builder: (class, 'whole' | 'first')} from the if-chain of the dispatcher"""
    fns = [n for n in tree.body if isinstance(n, ast.FunctionDef) and n.name == name]
    if len(fns) != 1:
        raise Bad(f"dispatcher {name} not found")
    fn = fns[0]
    par = fn.args.args[0].arg
    out = {}
    chain = [s for s in tinert.live_body(fn) if isinstance(s, ast.If)]
    if len(chain) != 1:
        raise Bad(f"dispatcher {name}: expected one if-chain")
    node = chain[0]
    while True:
        t = node.test
        ok = (isinstance(t, ast.Compare) and len(t.ops) == 1 and isinstance(t.ops[0], ast.Is)
              and isinstance(t.left, ast.Call) and isinstance(t.left.func, ast.Name) and t.left.func.id == "type"
              and len(t.left.args) == 1 and ast.unparse(t.left.args[0]) == f"{par}.domain"
              and isinstance(t.comparators[0], ast.Name))
        if not ok:
            raise Bad(f"dispatcher {name}: test {ast.unparse(t)}")
        cls = t.comparators[0].id
        if len(node.body) != 1:
            raise Bad(f"dispatcher {name}: branch {cls}")
        st = node.body[0]
        val, sel = None, None
        if isinstance(st, ast.Return):
            val = st.value
            sel = "whole"
            if isinstance(val, ast.Subscript) and isinstance(val.slice, ast.Constant) and val.slice.value == 0:
                val, sel = val.value, "first"
        elif isinstance(st, ast.Assign) and len(st.targets) == 1:
            val = st.value
            if isinstance(st.targets[0], ast.Name):
                sel = "whole"
            elif isinstance(st.targets[0], ast.Tuple) and all(isinstance(e, ast.Name) for e in st.targets[0].elts):
                sel = "first"
            first = st.targets[0] if sel == "whole" else st.targets[0].elts[0]
            rets = [s for s in fn.body if isinstance(s, ast.Return)]
            if not (len(rets) == 1 and isinstance(rets[0].value, ast.Name) and rets[0].value.id == first.id):
                raise Bad(f"dispatcher {name}: branch {cls} does not return the first component")
        if not (sel and isinstance(val, ast.Call) and isinstance(val.func, ast.Name) and val.func.id.startswith(prefix)
                and len(val.args) == 1 and isinstance(val.args[0], ast.Name) and val.args[0].id == par
                and not val.keywords):
            raise Bad(f"dispatcher {name}: branch {cls}")
        if val.func.id in out:
            raise Bad(f"dispatcher {name}: {val.func.id} used twice")
        out[val.func.id] = (cls, sel)
        if len(node.orelse) == 1 and isinstance(node.orelse[0], ast.If):
            node = node.orelse[0]
        else:
            break
    return out


def translate_volume(mesh, cls):
    fn = mesh.method(cls, "_getCellVolumes", own=True)
    if [a.arg for a in tinert.effective_args(fn).args] != ["self"]:
        raise Bad("signature")
    it = Interp(mesh, cls, None)
    it.cell_numbers()                      # fixes the dimension of the grid
    v = it.run(fn)
    body = at_interior(it, v)
    return [f"def cellVolume_{cls} (M : Mesh α) (i j k : ℕ) : α :=\n  {body}\n"]


def builder_setup(mesh, tree, name, disp):
    fns = [n for n in tree.body if isinstance(n, ast.FunctionDef) and n.name == name]
    if len(fns) != 1:
        raise Bad("function not found")
    fn = fns[0]
    a = tinert.effective_args(fn)           # without the extra parameters that only inert statements read
    if len(a.args) != 1 or a.vararg or a.kwarg or a.kwonlyargs or a.defaults:
        raise Bad("signature")
    if name not in disp:
        raise Bad("not called by the dispatcher")
    cls, sel = disp[name]
    if cls not in KIND:
        raise Bad(f"unknown grid class {cls}")
    it = Interp(mesh, cls, a.args[0].arg)
    it.cell_numbers()
    return fn, it, cls, sel


def translate_matrix(mesh, tree, name, disp):
    fn, it, cls, sel = builder_setup(mesh, tree, name, disp)
    res = it.run(fn)
    nd = it.ndim
    if isinstance(res, Mat):
        if sel != "whole":
            raise Bad("the dispatcher takes [0] of a single matrix")
        M = res
    elif isinstance(res, Tup) and all(isinstance(m, Mat) for m in res.items):
        if sel != "first":
            raise Bad("the dispatcher does not take [0] of the returned tuple")
        if len(res.items) != nd + 1:
            raise Bad("returned tuple is not (M, Mx, ...)")
        M = res.items[0]
        for a, m in zip(AXES, res.items[1:]):
            if list(m.dirs) != [a] or a not in M.dirs or m.dirs[a] is not M.dirs[a]:
                raise Bad(f"component {a} of the returned tuple is not the {a}-matrix summed into M")
    else:
        raise Bad("result is not a matrix / tuple of matrices")
    dirs = sorted(M.dirs, key=AXES.index)
    if dirs != AXES[:nd]:
        raise Bad(f"the matrix has directions {dirs} on a {nd}-D grid")
    par = it.par
    out = []
    for d in dirs:
        w, p, e = (at_interior(it, b) for b in M.dirs[d])
        out.append(f"def {name}_{d} (M : Mesh α) ({par} : FaceFld α) (i j k : ℕ) : St3 α :=\n"
                   f"  {{ w := {w},\n    p := {p},\n    e := {e} }}\n")
    out.append(f"def {name}_dirs : List Dir := [" + ", ".join("." + d for d in dirs) + "]\n")
    return out


def translate_divergence(mesh, tree, name, disp):
    fn, it, cls, sel = builder_setup(mesh, tree, name, disp)
    res = it.run(fn)
    nd = it.ndim
    par = it.par
    if isinstance(res, Vec):
        if sel != "whole":
            raise Bad("the dispatcher unpacks a single vector")
        if nd != 1:
            raise Bad("a single vector is returned on a grid of dimension > 1")
        items = [res]
    elif isinstance(res, Tup) and all(isinstance(v, Vec) for v in res.items):
        if sel != "first":
            raise Bad("the dispatcher does not unpack the returned tuple")
        if len(res.items) != nd + 1:
            raise Bad("returned tuple is not (RHSdiv, RHSdivx, ...)")
        items = res.items
    else:
        raise Bad("result is not a vector built as zeros + interior assignment")
    out = [f"def {name} (M : Mesh α) ({par} : FaceFld α) (i j k : ℕ) : α :=\n  {at_interior(it, items[0].arr)}\n"]
    for a, v in zip(AXES, items[1:]):
        out.append(f"def {name}_{a} (M : Mesh α) ({par} : FaceFld α) (i j k : ℕ) : α :=\n  {at_interior(it, v.arr)}\n")
    return out


HEADER = """/- GENERATED by harness/translate/tnum.py from mesh.py, diffusion.py, advection.py, calculus.py — do not edit.
   Coefficient formulas of the matrix builders at the 0-based interior position (i, j, k)
   (= model cell (i+1, j+1, k+1)); proved equal to the model in PyFV/Props/GenEq.lean. -/
import PyFV.Model.Geom
import PyFV.Model.Terms

set_option linter.unusedVariables false

namespace PyFV.Gen.Stencils

variable {α : Type} [Field α] [LinearOrder α] [IsStrictOrderedRing α]
"""


def generate(repo):
    src = os.path.join(repo, "src", "pyfvtool")
    tinert.set_repo(repo)

    def parse(f):
        return parse_module(src, f)
    status, out = {}, [HEADER]
    mesh_tree = parse("mesh.py")
    mesh = MeshInfo(mesh_tree)

    def attempt(key, thunk):
        try:
            defs = thunk()
            out.extend(defs)
            status[key] = "ok"
        except Bad as ex:
            status[key] = f"untranslated: {ex}"
        except RecursionError:
            status[key] = "untranslated: recursion"

    out.append("/-! ### mesh.py: `_getCellVolumes` -/\n")
    for cls in KIND:
        attempt(f"{cls}._getCellVolumes", lambda: translate_volume(mesh, cls))
    for mod, disp_name, fun in (("diffusion.py", "diffusionTerm", translate_matrix),
                                ("advection.py", "convectionTerm", translate_matrix),
                                ("calculus.py", "divergenceTerm", translate_divergence)):
        out.append(f"/-! ### {mod}: `{disp_name}*` -/\n")
        tree = parse(mod)
        try:
            disp = dispatcher(tree, disp_name, disp_name)
            derr = None
        except Bad as ex:
            disp, derr = {}, str(ex)
        for suf in SUFFIXES:
            name = disp_name + suf
            if derr:
                status[name] = f"untranslated: {derr}"
            else:
                attempt(name, lambda: fun(mesh, tree, name, disp))
        rows = [(KIND[c], b) for b, (c, _) in disp.items() if c in KIND and status.get(b) == "ok"]
        out.append(f"/-- grid class ↦ builder called by `{disp_name}` (translated builders only) -/\n"
                   f"def dispatch_{disp_name} : List (Kind × String) :=\n  ["
                   + ",\n   ".join(f'(.{k}, "{b}")' for k, b in rows) + "]\n")
    bad = [k for k, v in status.items() if v != "ok"]
    out.append("def untranslated : List String := [" + ", ".join(f'"{k}"' for k in bad) + "]\n")
    out.append("end PyFV.Gen.Stencils\n")
    return "\n".join(out), status


def write_if_changed(path, text):
    old = open(path).read() if os.path.exists(path) else None
    if old != text:
        os.makedirs(os.path.dirname(os.path.abspath(path)), exist_ok=True)
        with open(path, "w") as f:
            f.write(text)


def main():
    repo = os.environ.get("VERIF_REPO", "/repo")
    dst = sys.argv[1]
    text, status = generate(repo)
    status = annotate_helpers(tinert.annotate(status))
    write_if_changed(dst, text)
    base = os.path.splitext(os.path.basename(dst))[0].lower()
    write_if_changed(os.path.join(os.path.dirname(os.path.abspath(dst)), f"{base}_status.json"),
                     json.dumps(status, indent=1, sort_keys=True) + "\n")
    print(json.dumps(status))


if __name__ == "__main__":
    main()
