#!/usr/bin/env python3
"""T-bcu: the VALUE-level meaning of the boundary-condition convenience API of boundary.py.

  python3 harness/translate/tbcu.py lean/PyFV/Gen/BCUtilGen.lean          (run from /verif)

writes  <out>                          Lean definitions (namespace PyFV.Gen.BCUtilGen)
        <dir>/bcutilgen_status.json    {function: "ok" | "untranslated: reason", "_notes": {...}}
(both only when their text changes) and prints the status as one JSON line.  stdlib `ast` only; nothing is imported
from the package; the source root is $VERIF_REPO (default /repo).  PyFV/Props/GenEqBCUtil.lean proves every generated
definition equal to the hand-written specification PyFV/Model/BCUtil.lean (written from the docstrings) and derives
the property-level consequences (fixedValue: the face average IS the value; fixedGradient: the normal difference
quotient IS the gradient whatever `scale_coeffs`; newtonCooling: the Robin relation; defaults: zero normal gradient).

WHAT IS READ
 (a) class BoundaryFace
     * the property getters `a`, `b`, `c`      exactly `return self._x`          -> getter_table  (must be a bijection)
     * the property setters `a`, `b`, `c`      exactly `self._x[:] = val` (or `[...]`), `_x` one of `_a _b _c`: a
       BROADCAST STORE into the existing array (scalars and arrays accepted, the TrackedArray object is kept).  The
       private array written is READ, not assumed: a setter `b` that stores into `self._a` gives setter_table
       [("b", "_a")] and every method is executed with that meaning.  Any other body (`self._c = val`: rebinding, which
       drops the TrackedArray; two statements; a call) => `BoundaryFace.accessors` is untranslated and with it every
       method and constructor.
     * `__init__(self, a, b, c, periodic=False)`  `self._x = TrackedArray(<param>)`, `self._periodic = <param>` (or
       `bool(<param>)`), the type guard in front is an inert validation guard (tinert.py)  -> init_table + the default
       of `periodic`.
     * defaultNoFlux, fixedValue, fixedGradient, newtonCooling: SYMBOLIC EXECUTION of straight-line code
           self.<k> = E          the setter of <k>: private array setter_table[k] := E      (pointwise, broadcast)
           self.<k>[:] = E       the same through the getter;  self._x[:] = E  directly
           t = E                 local name (parameters are never rebound)
           if B: ... else: ...   both branches are executed; afterwards every array / local that differs is
                                 `if B then .. else ..` (pointwise).  `E1 if B else E2` gives the same term, so the
                                 statement form and the expression form of `h_eff` generate the same text.
           return                (bare, last statement)
       E: numeric literals (exact rationals: `0.5` is 1/2), value parameters, locals, unary -, + - *, division by a
       non-zero literal, conditional expressions, `self.<k>` (current content; only inside arithmetic or as the whole
       right-hand side of a store: binding the ARRAY OBJECT to a local name is refused, it would alias).
       B: boolean parameters (those with a True / False default or used in a test), not / and / or, True / False.
       The result is the FINAL content of the three arrays as seen through the getters: order of assignments, repeated
       assignments and temporaries do not matter unless the final content differs.  The `periodic` flag is unchanged
       (an assignment to any other attribute of self is refused).  Value parameters are fields `Idx → α` (a Python
       scalar is the constant field); defaults are emitted as `<method>_default_<param>`.
 (b) the default boundary conditions
     * `BoundaryConditionsBase.__init__`       `self.<side> = <param>` for the six sides (+ `self.domain = mesh`)
                                               -> which POSITIONAL parameter feeds which attribute (base_wiring)
     * `BoundaryConditions{1,2,3}D.__init__`   `Nx, Ny[, Nz] = mesh.dims` (positional: the k-th name is dims[k]),
       `<name> = BoundaryFace(<array>, <array>, <array>[, periodic=..])`, `super().__init__(mesh, n1, .., n6)`.
       <array>: np.ones(S) | np.zeros(S) | np.full(S, lit) | np.array([lit, ..]) with S a name of a dimension, an
       integer literal or a tuple of those.  Per side attribute: the constant content of a, b, c, the flag, the SHAPES
       as written (symbolic in Nx Ny Nz; `np.zeros(Ny)` and `np.zeros((Ny,))` are the same shape), and the name of the
       local variable that reaches the attribute (wiring: top and bottom have equal defaults, a swap is invisible in
       the values).  An array of shape (0,) has no entries: its content is `noEntries`.
       A shape that differs from the cross-section shape of its side only by leading 1-axes is reported in the status
       under `_notes.shapes` (not an error; it is what `left.c = np.zeros((1, Ny))` of the 2-D constructor is).
     * the factory `BoundaryConditions(mesh)`  an if / elif cascade of `return <Ctor>(mesh)` over
       `issubclass(type(mesh), C)` / `isinstance(mesh, C)` / `type(mesh) is C`, evaluated for the nine grid classes with
       the class hierarchy READ from mesh.py -> factory_table, `BoundaryConditions (k : Kind) : BCs α`.  A class for
       which the cascade falls through (returns None), or a constructor that unpacks another number of dimensions
       than the class has, makes the factory untranslated.
INERT statements (tinert.py) are skipped everywhere; parameters only inert statements read are ignored.
ANY other form => `untranslated: reason` for that function: no definition, the name is listed in
`def untranslated : List String`, and the theorems about it in GenEqBCUtil.lean no longer compile.
Trusted: numpy semantics of `x[:] = v` (broadcast store), of `np.ones / np.zeros / np.full / np.array`, `TrackedArray(x)` is
a view of `x` (utilities.py is checked by T-state), pointwise arithmetic of arrays.
"""
import ast, sys, os, json
from fractions import Fraction

sys.path.insert(0, os.path.dirname(os.path.abspath(__file__)))
import tinert                                                  # noqa: E402

KIND = {"Grid1D": "cart1", "CylindricalGrid1D": "cyl1", "SphericalGrid1D": "sph1",
        "Grid2D": "cart2", "CylindricalGrid2D": "cyl2", "PolarGrid2D": "pol2",
        "Grid3D": "cart3", "CylindricalGrid3D": "cyl3", "SphericalGrid3D": "sph3"}
NDIM = {c: (1 if "1D" in c else 2 if "2D" in c else 3) for c in KIND}
SIDES = ["left", "right", "bottom", "top", "back", "front"]
SIDE_DIR = {"left": ("x", "lo"), "right": ("x", "hi"), "bottom": ("y", "lo"), "top": ("y", "hi"),
            "back": ("z", "lo"), "front": ("z", "hi")}
COEFS = ["a", "b", "c"]
PRIV = ["_a", "_b", "_c"]
DIMS = ["nx", "ny", "nz"]
METHODS = ["defaultNoFlux", "fixedValue", "fixedGradient", "newtonCooling"]
CTORS = ["BoundaryConditions1D", "BoundaryConditions2D", "BoundaryConditions3D"]
LEAN_RESERVED = {"f", "i", "at", "from", "fun", "end", "in", "let", "have", "show", "then", "else", "if", "do", "by",
                 "match", "with", "def", "theorem", "open", "namespace", "section", "variable", "where", "instance",
                 "structure", "class", "Type", "Prop", "Sort", "true", "false", "α"}


class Bad(Exception):
    pass


def write_if_changed(path, text):
    old = open(path).read() if os.path.exists(path) else None
    if old != text:
        os.makedirs(os.path.dirname(os.path.abspath(path)), exist_ok=True)
        with open(path, "w") as f:
            f.write(text)


def U(n):
    return ast.unparse(n)


def short(n, k=50):
    s = " ".join(U(n).split())
    return s if len(s) <= k else s[:k - 3] + "..."


def is_doc(st):
    return isinstance(st, ast.Expr) and isinstance(st.value, ast.Constant) and isinstance(st.value.value, str)


def live(fn, body=None):
    """the statements of a block of `fn` without docstrings and inert statements"""
    return [s for s in tinert.live_body(fn, body) if not is_doc(s) and not isinstance(s, ast.Pass)]


def lname(n):
    return f"«{n}»" if (n in LEAN_RESERVED or not n.isidentifier()) else n


# ---------------------------------------------------------------------------------------------------------
# module access
# ---------------------------------------------------------------------------------------------------------
class Module:
    def __init__(self, path):
        self.tree = tinert.register(ast.parse(open(path).read()))

    def func(self, name):
        found = [n for n in self.tree.body if isinstance(n, ast.FunctionDef) and n.name == name]
        if len(found) != 1:
            raise Bad(f"function {name}: {len(found)} definitions")
        if found[0].decorator_list:
            raise Bad(f"function {name} is decorated")
        return found[0]

    def cls(self, name):
        found = [n for n in self.tree.body if isinstance(n, ast.ClassDef) and n.name == name]
        if len(found) != 1:
            raise Bad(f"class {name}: {len(found)} definitions")
        if found[0].decorator_list or found[0].keywords:
            raise Bad(f"class {name} is decorated / has a metaclass")
        return found[0]

    def method(self, cname, name, kind=None):
        """kind: None (plain def), 'getter' (@property), 'setter' (@name.setter); exactly one definition of that kind,
        and (for plain methods) no other definition of the name in the class"""
        found, others = [], 0
        for n in self.cls(cname).body:
            if isinstance(n, ast.FunctionDef) and n.name == name:
                decs = [U(d) for d in n.decorator_list]
                k = "getter" if decs == ["property"] else "setter" if decs == [f"{name}.setter"] else \
                    None if not decs else "other"
                if k == kind:
                    found.append(n)
                else:
                    others += 1
            elif isinstance(n, (ast.Assign, ast.AnnAssign)):
                for x in ast.walk(n):
                    if isinstance(x, ast.Name) and isinstance(x.ctx, ast.Store) and x.id == name:
                        others += 1
        if len(found) != 1 or (kind is None and others):
            raise Bad(f"{cname}.{name} ({kind or 'method'}): {len(found)} definitions, {others} other bindings")
        return found[0]

    def imported_from(self, name, module):
        """`name` is bound at module level ONLY by `from .<module> import name`"""
        hits = 0
        for n in ast.walk(self.tree):
            if isinstance(n, ast.ImportFrom):
                for al in n.names:
                    if (al.asname or al.name) == name:
                        if not (n.module == module and n.level == 1 and al.name == name and n in self.tree.body):
                            return False
                        hits += 1
            elif isinstance(n, ast.Import):
                for al in n.names:
                    if (al.asname or al.name).split(".")[0] == name:
                        return False
            elif isinstance(n, (ast.FunctionDef, ast.ClassDef)) and n.name == name:
                return False
            elif isinstance(n, ast.Name) and n.id == name and isinstance(n.ctx, (ast.Store, ast.Del)):
                return False
            elif isinstance(n, ast.arg) and n.arg == name:
                return False
        return hits >= 1


def plain_params(fn, what):
    """names of the positional parameters (after tinert removed the inert-only ones) and their defaults"""
    a = tinert.effective_args(fn)
    if a.vararg or a.kwarg or a.kwonlyargs or a.posonlyargs:
        raise Bad(f"{what}: signature with * / ** / keyword-only / positional-only parameters")
    names = [x.arg for x in a.args]
    if len(set(names)) != len(names):
        raise Bad(f"{what}: duplicate parameter names")
    defaults = [None] * (len(names) - len(a.defaults)) + list(a.defaults)
    return names, defaults


# ---------------------------------------------------------------------------------------------------------
# numbers
# ---------------------------------------------------------------------------------------------------------
def number(n):
    """Fraction for a numeric literal (also -literal), else None"""
    if isinstance(n, ast.UnaryOp) and isinstance(n.op, (ast.USub, ast.UAdd)):
        v = number(n.operand)
        return None if v is None else (-v if isinstance(n.op, ast.USub) else v)
    if isinstance(n, ast.Constant) and isinstance(n.value, (int, float)) and not isinstance(n.value, bool):
        v = n.value
        if isinstance(v, float) and (v != v or v in (float("inf"), float("-inf"))):
            return None
        return Fraction(repr(v)) if isinstance(v, float) else Fraction(v)
    return None


def lean_num(q):
    if q.denominator == 1:
        return str(q.numerator) if q >= 0 else f"(-{-q.numerator})"
    s = f"({abs(q.numerator)} / {q.denominator})"
    return s if q > 0 else f"(-{s})"


# ---------------------------------------------------------------------------------------------------------
# (a) accessors and BoundaryFace.__init__
# ---------------------------------------------------------------------------------------------------------
def full_slice(sl):
    if isinstance(sl, ast.Slice) and sl.lower is None and sl.upper is None and sl.step is None:
        return True
    return isinstance(sl, ast.Constant) and sl.value is Ellipsis


def accessors(bnd):
    getters, setters = {}, {}
    for k in COEFS:
        g = bnd.method("BoundaryFace", k, "getter")
        names, _ = plain_params(g, f"BoundaryFace.{k} getter")
        gb = live(g)
        if not (len(names) == 1 and len(gb) == 1 and isinstance(gb[0], ast.Return)
                and isinstance(gb[0].value, ast.Attribute) and isinstance(gb[0].value.value, ast.Name)
                and gb[0].value.value.id == names[0] and gb[0].value.attr in PRIV):
            raise Bad(f"BoundaryFace.{k} getter is `{short(gb[0]) if gb else ''}`, not `return self._x`")
        getters[k] = gb[0].value.attr
        s = bnd.method("BoundaryFace", k, "setter")
        names, defaults = plain_params(s, f"BoundaryFace.{k} setter")
        sb = live(s)
        ok = len(names) == 2 and defaults == [None, None] and len(sb) == 1 and isinstance(sb[0], ast.Assign) \
            and len(sb[0].targets) == 1
        if ok:
            t, v = sb[0].targets[0], sb[0].value
            ok = isinstance(t, ast.Subscript) and full_slice(t.slice) and isinstance(t.value, ast.Attribute) \
                and isinstance(t.value.value, ast.Name) and t.value.value.id == names[0] and t.value.attr in PRIV \
                and isinstance(v, ast.Name) and v.id == names[1]
        if not ok:
            txt = "; ".join(short(x) for x in sb)
            raise Bad(f"BoundaryFace.{k} setter is `{txt}`, not the broadcast store `self._x[:] = val` into one of "
                      f"_a, _b, _c (the array object must be kept)")
        setters[k] = sb[0].targets[0].value.attr
    if sorted(getters.values()) != PRIV:
        raise Bad(f"the getters a, b, c return {[getters[k] for k in COEFS]}: not the three arrays _a, _b, _c")
    return getters, setters


def face_init(bnd):
    fn = bnd.method("BoundaryFace", "__init__")
    names, defaults = plain_params(fn, "BoundaryFace.__init__")
    if len(names) < 2:
        raise Bad("BoundaryFace.__init__: signature")
    me, params = names[0], names[1:]
    init = {}
    for st in live(fn):
        if not (isinstance(st, ast.Assign) and len(st.targets) == 1 and isinstance(st.targets[0], ast.Attribute)
                and isinstance(st.targets[0].value, ast.Name) and st.targets[0].value.id == me):
            raise Bad(f"BoundaryFace.__init__: statement `{short(st)}`")
        attr, v = st.targets[0].attr, st.value
        if attr in init:
            raise Bad(f"BoundaryFace.__init__: self.{attr} is assigned twice")
        if attr in PRIV:
            if not (isinstance(v, ast.Call) and U(v.func) == "TrackedArray" and len(v.args) == 1 and not v.keywords
                    and isinstance(v.args[0], ast.Name) and v.args[0].id in params):
                raise Bad(f"BoundaryFace.__init__: `{short(st)}` is not `self.{attr} = TrackedArray(<parameter>)`")
            init[attr] = v.args[0].id
        elif attr == "_periodic":
            if isinstance(v, ast.Call) and U(v.func) == "bool" and len(v.args) == 1 and not v.keywords:
                v = v.args[0]
            if not (isinstance(v, ast.Name) and v.id in params):
                raise Bad(f"BoundaryFace.__init__: `{short(st)}` is not `self._periodic = <parameter>`")
            init[attr] = v.id
        else:
            raise Bad(f"BoundaryFace.__init__: assignment to self.{attr}")
    if sorted(init) != sorted(PRIV + ["_periodic"]):
        raise Bad(f"BoundaryFace.__init__ sets {sorted(init)}")
    if not bnd.imported_from("TrackedArray", "utilities"):
        raise Bad("`TrackedArray` is not (only) `from .utilities import TrackedArray`")
    dflt = {}
    for p, d in zip(names, defaults):
        if d is None:
            continue
        if isinstance(d, ast.Constant) and isinstance(d.value, bool):
            dflt[p] = d.value
        else:
            raise Bad(f"BoundaryFace.__init__: default of `{p}` is `{short(d)}`")
    for pr in PRIV:
        if init[pr] in dflt:
            raise Bad(f"BoundaryFace.__init__: the array parameter `{init[pr]}` has a boolean default")
    return {"params": params, "init": init, "defaults": dflt}


# ---------------------------------------------------------------------------------------------------------
# (a) symbolic execution of the utility methods
# ---------------------------------------------------------------------------------------------------------
# value terms: ("c", Fraction) ("p", name) ("old", coef) ("neg", e) ("add"|"sub"|"mul", l, r) ("divc", e, Fraction)
#              ("ite", B, e1, e2);  ("alias", priv): the array object self._x itself (not yet read)
# boolean terms: ("bp", name) ("bc", bool) ("not", B) ("and"|"or", B1, B2)
def mk_ite(b, x, y):
    if b[0] == "bc":
        return x if b[1] else y
    return x if x == y else ("ite", b, x, y)


def mk_neg(e):
    if e[0] == "c":
        return ("c", -e[1])
    return ("neg", e)


def mk_bin(op, l, r):
    if l[0] == "c" and r[0] == "c":
        return ("c", {"add": l[1] + r[1], "sub": l[1] - r[1], "mul": l[1] * r[1]}[op])
    return (op, l, r)


class Exec:
    def __init__(self, fn, what, getters, setters):
        self.fn, self.what, self.getters, self.setters = fn, what, getters, setters
        names, defaults = plain_params(fn, what)
        if not names:
            raise Bad(f"{what}: no self parameter")
        self.me, self.params = names[0], names[1:]
        self.defaults = dict(zip(names, defaults))
        # boolean parameters: True / False default, or used in a test
        tests = []
        for x in ast.walk(fn):
            if isinstance(x, (ast.If, ast.IfExp, ast.While, ast.Assert)):
                tests.append(x.test)
        in_test = {n.id for t in tests for n in ast.walk(t) if isinstance(n, ast.Name)}
        self.bools = []
        for p in self.params:
            d = self.defaults[p]
            isb = isinstance(d, ast.Constant) and isinstance(d.value, bool)
            if p in in_test or isb:
                if d is not None and not isb:
                    raise Bad(f"{what}: `{p}` is used as a truth value but its default is `{short(d)}`")
                self.bools.append(p)
        self.inv_get = {v: k for k, v in getters.items()}
        self.state = {pr: ("old", self.inv_get[pr]) for pr in PRIV}
        self.env = {}
        self.done = False

    # ---- expressions
    def bexp(self, t):
        if isinstance(t, ast.Constant) and isinstance(t.value, bool):
            return ("bc", t.value)
        if isinstance(t, ast.Name) and t.id in self.bools:
            return ("bp", t.id)
        if isinstance(t, ast.UnaryOp) and isinstance(t.op, ast.Not):
            b = self.bexp(t.operand)
            return ("bc", not b[1]) if b[0] == "bc" else ("not", b)
        if isinstance(t, ast.BoolOp):
            vs = [self.bexp(v) for v in t.values]
            op = "and" if isinstance(t.op, ast.And) else "or"
            acc = vs[0]
            for v in vs[1:]:
                acc = (op, acc, v)
            return acc
        raise Bad(f"{self.what}: test `{short(t)}` is not a boolean parameter / not / and / or")

    def read(self, v):
        """the CONTENT of a value (an alias is read now)"""
        return self.state[v[1]] if v[0] == "alias" else v

    def ev(self, n):
        q = number(n)
        if q is not None:
            return ("c", q)
        if isinstance(n, ast.Constant):
            raise Bad(f"{self.what}: constant `{short(n)}` in an arithmetic position")
        if isinstance(n, ast.Name):
            if n.id in self.env:
                return self.env[n.id]
            if n.id in self.bools:
                raise Bad(f"{self.what}: the boolean parameter `{n.id}` is used as a value")
            if n.id in self.params:
                return ("p", n.id)
            raise Bad(f"{self.what}: name `{n.id}` is not a parameter or a local bound on every path")
        if isinstance(n, ast.UnaryOp) and isinstance(n.op, (ast.USub, ast.UAdd)):
            e = self.read(self.ev(n.operand))
            return mk_neg(e) if isinstance(n.op, ast.USub) else e
        if isinstance(n, ast.BinOp):
            l, r = self.read(self.ev(n.left)), self.read(self.ev(n.right))
            if isinstance(n.op, ast.Add):
                return mk_bin("add", l, r)
            if isinstance(n.op, ast.Sub):
                return mk_bin("sub", l, r)
            if isinstance(n.op, ast.Mult):
                return mk_bin("mul", l, r)
            if isinstance(n.op, ast.Div):
                if r[0] != "c" or r[1] == 0:
                    raise Bad(f"{self.what}: division `{short(n)}` by something that is not a non-zero literal")
                return ("c", l[1] / r[1]) if l[0] == "c" else ("divc", l, r[1])
            raise Bad(f"{self.what}: operator in `{short(n)}`")
        if isinstance(n, ast.IfExp):
            b = self.bexp(n.test)
            return mk_ite(b, self.read(self.ev(n.body)), self.read(self.ev(n.orelse)))
        if isinstance(n, ast.Attribute) and isinstance(n.value, ast.Name) and n.value.id == self.me:
            if n.attr in self.getters:
                return ("alias", self.getters[n.attr])
            if n.attr in PRIV:
                return ("alias", n.attr)
        raise Bad(f"{self.what}: expression `{short(n)}`")

    # ---- statements
    def store(self, priv, v):
        self.state[priv] = self.read(v)

    def block(self, stmts):
        for st in stmts:
            if self.done:
                raise Bad(f"{self.what}: statement after return (line {st.lineno})")
            self.stmt(st)

    def stmt(self, st):
        if is_doc(st) or isinstance(st, ast.Pass):
            return
        if isinstance(st, ast.Return):
            if st.value is not None and not (isinstance(st.value, ast.Constant) and st.value.value is None):
                raise Bad(f"{self.what}: returns `{short(st.value)}`")
            self.done = True
            return
        if isinstance(st, ast.If):
            b = self.bexp(st.test)
            s0, e0 = dict(self.state), dict(self.env)
            self.block(live(self.fn, st.body))
            d1, s1, e1 = self.done, self.state, self.env
            self.state, self.env, self.done = dict(s0), dict(e0), False
            self.block(live(self.fn, st.orelse))
            d2, s2, e2 = self.done, self.state, self.env
            if d1 or d2:
                raise Bad(f"{self.what}: return inside an `if` (line {st.lineno})")
            self.state = {pr: mk_ite(b, s1[pr], s2[pr]) for pr in PRIV}
            self.env = {}
            for k in e1:
                if k in e2:
                    x, y = e1[k], e2[k]
                    if x[0] == "alias" or y[0] == "alias":
                        raise Bad(f"{self.what}: local `{k}` holds an array object")
                    self.env[k] = mk_ite(b, x, y)
            return
        if isinstance(st, ast.AnnAssign) and st.value is not None and st.simple and isinstance(st.target, ast.Name):
            st = ast.copy_location(ast.Assign(targets=[st.target], value=st.value), st)
        if isinstance(st, ast.Assign) and len(st.targets) == 1:
            t = st.targets[0]
            if isinstance(t, ast.Name):
                if t.id == self.me or t.id in self.params:
                    raise Bad(f"{self.what}: parameter `{t.id}` is rebound (line {st.lineno})")
                v = self.ev(st.value)
                if v[0] == "alias":
                    raise Bad(f"{self.what}: `{short(st)}` binds the array object itself to a local name")
                self.env[t.id] = v
                return
            if isinstance(t, ast.Attribute) and isinstance(t.value, ast.Name) and t.value.id == self.me:
                if t.attr in self.setters:
                    self.store(self.setters[t.attr], self.ev(st.value))
                    return
                raise Bad(f"{self.what}: assignment to self.{t.attr} (only the properties a, b, c are understood"
                          + ("; rebinding a private array drops the TrackedArray" if t.attr in PRIV else "") + ")")
            if isinstance(t, ast.Subscript) and full_slice(t.slice) and isinstance(t.value, ast.Attribute) \
                    and isinstance(t.value.value, ast.Name) and t.value.value.id == self.me:
                a = t.value.attr
                priv = self.getters.get(a, a if a in PRIV else None)
                if priv is not None:
                    self.store(priv, self.ev(st.value))
                    return
        raise Bad(f"{self.what}: statement `{short(st)}` (line {st.lineno})")

    def run(self):
        self.block(live(self.fn))
        face = {k: self.state[self.getters[k]] for k in COEFS}
        dfl = {}
        for p in self.params:
            d = self.defaults[p]
            if d is None:
                continue
            if p in self.bools:
                dfl[p] = ("bc", d.value)
            else:
                q = number(d)
                if q is None:
                    raise Bad(f"{self.what}: default of `{p}` is `{short(d)}`, not a numeric literal")
                dfl[p] = ("c", q)
        return face, dfl


def lean_b(b):
    if b[0] == "bp":
        return lname(b[1])
    if b[0] == "bc":
        return "true" if b[1] else "false"
    if b[0] == "not":
        return f"(!{lean_b(b[1])})"
    return f"({lean_b(b[1])} {'&&' if b[0] == 'and' else '||'} {lean_b(b[2])})"


def lean_e(e, top=True):
    k = e[0]
    if k == "c":
        return lean_num(e[1])
    if k == "p":
        return f"{lname(e[1])} i"
    if k == "old":
        return f"f.{e[1]} i"
    if k == "neg":
        return f"-({lean_e(e[1])})"
    if k in ("add", "sub", "mul"):
        s = f"{lean_e(e[1], False)} {'+-*'['add sub mul'.split().index(k)]} {lean_e(e[2], False)}"
        return s if top else f"({s})"
    if k == "divc":
        s = f"{lean_e(e[1], False)} / {lean_num(e[2])}"
        return s if top else f"({s})"
    if k == "ite":
        return f"(if {lean_b(e[1])} then {lean_e(e[2])} else {lean_e(e[3])})"
    raise Bad(f"internal: term {e!r}")


def uses_index(e):
    if e[0] in ("p", "old"):
        return True
    if e[0] == "c":
        return False
    if e[0] == "ite":
        return uses_index(e[2]) or uses_index(e[3])
    if e[0] == "divc":
        return uses_index(e[1])
    return any(uses_index(x) for x in e[1:])


def lean_field(e):
    return f"fun {'i' if uses_index(e) else '_'} => {lean_e(e)}"


# ---------------------------------------------------------------------------------------------------------
# (b) constructors
# ---------------------------------------------------------------------------------------------------------
def base_init(bnd):
    fn = bnd.method("BoundaryConditionsBase", "__init__")
    names, defaults = plain_params(fn, "BoundaryConditionsBase.__init__")
    if any(d is not None for d in defaults) or len(names) < 2:
        raise Bad("BoundaryConditionsBase.__init__: signature")
    me, params = names[0], names[1:]
    wiring = {}
    mesh_param = None
    for st in live(fn):
        if not (isinstance(st, ast.Assign) and len(st.targets) == 1 and isinstance(st.targets[0], ast.Attribute)
                and isinstance(st.targets[0].value, ast.Name) and st.targets[0].value.id == me
                and isinstance(st.value, ast.Name) and st.value.id in params):
            raise Bad(f"BoundaryConditionsBase.__init__: statement `{short(st)}`")
        attr = st.targets[0].attr
        if attr in wiring or (attr == "domain" and mesh_param is not None):
            raise Bad(f"BoundaryConditionsBase.__init__: self.{attr} is assigned twice")
        if attr == "domain":
            mesh_param = st.value.id
        elif attr in SIDES:
            wiring[attr] = st.value.id
        else:
            raise Bad(f"BoundaryConditionsBase.__init__: assignment to self.{attr}")
    if sorted(wiring) != sorted(SIDES) or mesh_param is None:
        raise Bad(f"BoundaryConditionsBase.__init__ sets {sorted(wiring)}")
    return {"params": params, "wiring": wiring, "mesh": mesh_param}


def shape_str(sh):
    names = {"nx": "Nx", "ny": "Ny", "nz": "Nz"}
    items = [names.get(d, str(d)) for d in sh]
    return "(" + ", ".join(items) + ("," if len(items) == 1 else "") + ")"


class Ctor:
    def __init__(self, bnd, cname, facts):
        self.cname, self.facts = cname, facts
        c = bnd.cls(cname)
        if [U(b) for b in c.bases] != ["BoundaryConditionsBase"]:
            raise Bad(f"{cname}: bases {[U(b) for b in c.bases]}")
        for n in c.body:
            if isinstance(n, ast.FunctionDef) and n.name != "__init__" and n.name in ("__new__", "__init_subclass__",
                                                                                      "__setattr__", "__getattribute__",
                                                                                      "__getattr__"):
                raise Bad(f"{cname} defines {n.name}")
        self.fn = bnd.method(cname, "__init__")
        names, defaults = plain_params(self.fn, f"{cname}.__init__")
        if len(names) != 2 or any(d is not None for d in defaults):
            raise Bad(f"{cname}.__init__: signature")
        self.me, self.mesh = names
        self.env = {}
        self.ndims = None
        self.result = None

    def shape(self, n):
        v = self.val(n)
        if v[0] == "dim":
            return [v[1]]
        if v[0] == "tuple" and all(x[0] == "dim" for x in v[1]):
            return [x[1] for x in v[1]]
        raise Bad(f"{self.cname}: shape `{short(n)}`")

    def val(self, n):
        if isinstance(n, ast.Name):
            if n.id in self.env:
                return self.env[n.id]
            raise Bad(f"{self.cname}: name `{n.id}`")
        if isinstance(n, ast.Constant) and isinstance(n.value, int) and not isinstance(n.value, bool) and n.value >= 0:
            return ("dim", n.value)
        if isinstance(n, ast.Constant) and isinstance(n.value, bool):
            return ("bool", n.value)
        if isinstance(n, ast.Tuple):
            return ("tuple", [self.val(e) for e in n.elts])
        if isinstance(n, ast.Call):
            f = U(n.func)
            if f in ("np.ones", "np.zeros", "np.full"):
                nargs = 2 if f == "np.full" else 1
                if len(n.args) != nargs or n.keywords:
                    raise Bad(f"{self.cname}: call `{short(n)}`")
                sh = self.shape(n.args[0])
                fill = Fraction(1) if f == "np.ones" else Fraction(0) if f == "np.zeros" else number(n.args[1])
                if fill is None:
                    raise Bad(f"{self.cname}: fill value in `{short(n)}`")
                return ("arr", sh, fill)
            if f == "np.array":
                if len(n.args) != 1 or n.keywords or not isinstance(n.args[0], ast.List):
                    raise Bad(f"{self.cname}: call `{short(n)}`")
                vals = [number(e) for e in n.args[0].elts]
                if any(v is None for v in vals) or len(set(vals)) > 1:
                    raise Bad(f"{self.cname}: `{short(n)}` is not a list of equal numeric literals")
                return ("arr", [len(vals)], vals[0] if vals else None)
            if f == "BoundaryFace":
                return self.face(n)
        raise Bad(f"{self.cname}: expression `{short(n)}`")

    def face(self, call):
        fi = self.facts["face_init"]
        params = fi["params"]
        if len(call.args) > len(params) or any(isinstance(a, ast.Starred) for a in call.args):
            raise Bad(f"{self.cname}: `{short(call)}`")
        bound = {}
        for p, a in zip(params, call.args):
            bound[p] = self.val(a)
        for kw in call.keywords:
            if kw.arg is None or kw.arg not in params or kw.arg in bound:
                raise Bad(f"{self.cname}: keyword in `{short(call)}`")
            bound[kw.arg] = self.val(kw.value)
        for p in params:
            if p not in bound:
                if p not in fi["defaults"]:
                    raise Bad(f"{self.cname}: `{short(call)}` does not give `{p}`")
                bound[p] = ("bool", fi["defaults"][p])
        priv = {}
        for pr in PRIV:
            v = bound[fi["init"][pr]]
            if v[0] != "arr":
                raise Bad(f"{self.cname}: `{short(call)}`: `{fi['init'][pr]}` is not an array expression")
            priv[pr] = v
        per = bound[fi["init"]["_periodic"]]
        if per[0] != "bool":
            raise Bad(f"{self.cname}: `{short(call)}`: periodic flag")
        g = self.facts["getters"]
        return ("face", {k: priv[g[k]] for k in COEFS}, per[1])

    def run(self):
        base = self.facts["base_init"]
        for st in live(self.fn):
            if self.result is not None:
                raise Bad(f"{self.cname}.__init__: statement after super().__init__ (line {st.lineno})")
            if isinstance(st, ast.Assign) and len(st.targets) == 1:
                t, v = st.targets[0], st.value
                if isinstance(t, ast.Tuple) and all(isinstance(e, ast.Name) for e in t.elts) \
                        and U(v) == f"{self.mesh}.dims":
                    if self.ndims is not None or len(t.elts) > 3:
                        raise Bad(f"{self.cname}.__init__: `{short(st)}`")
                    self.ndims = len(t.elts)
                    for k, e in enumerate(t.elts):
                        if e.id in (self.me, self.mesh) or e.id in self.env:
                            raise Bad(f"{self.cname}.__init__: `{e.id}` is rebound")
                        self.env[e.id] = ("dim", DIMS[k])
                    continue
                if isinstance(t, ast.Name):
                    if t.id in (self.me, self.mesh) or t.id in self.env:
                        raise Bad(f"{self.cname}.__init__: `{t.id}` is rebound")
                    if isinstance(v, ast.Subscript) and U(v.value) == f"{self.mesh}.dims" \
                            and isinstance(v.slice, ast.Constant) and v.slice.value in (0, 1, 2) \
                            and not isinstance(v.slice.value, bool):
                        self.env[t.id] = ("dim", DIMS[v.slice.value])
                        self.ndims = max(self.ndims or 0, v.slice.value + 1)
                        continue
                    self.env[t.id] = self.val(v)
                    continue
            if isinstance(st, ast.Expr) and isinstance(st.value, ast.Call) and U(st.value.func) == "super().__init__":
                call = st.value
                if any(isinstance(a, ast.Starred) for a in call.args) or len(call.args) > len(base["params"]):
                    raise Bad(f"{self.cname}.__init__: `{short(call)}`")
                bound = {}
                for p, a in zip(base["params"], call.args):
                    bound[p] = a
                for kw in call.keywords:
                    if kw.arg is None or kw.arg not in base["params"] or kw.arg in bound:
                        raise Bad(f"{self.cname}.__init__: keyword in `{short(call)}`")
                    bound[kw.arg] = kw.value
                if sorted(bound) != sorted(base["params"]):
                    raise Bad(f"{self.cname}.__init__: `{short(call)}` does not give every parameter")
                if not (isinstance(bound[base["mesh"]], ast.Name) and bound[base["mesh"]].id == self.mesh):
                    raise Bad(f"{self.cname}.__init__: the mesh passed on is `{short(bound[base['mesh']])}`")
                res = {}
                for sd in SIDES:
                    a = bound[base["wiring"][sd]]
                    if not isinstance(a, ast.Name):
                        raise Bad(f"{self.cname}.__init__: `{short(a)}` passed to super().__init__ is not a local name")
                    v = self.val(a)
                    if v[0] != "face":
                        raise Bad(f"{self.cname}.__init__: `{a.id}` is not a BoundaryFace")
                    res[sd] = (a.id, v)
                self.result = res
                continue
            raise Bad(f"{self.cname}.__init__: statement `{short(st)}` (line {st.lineno})")
        if self.result is None:
            raise Bad(f"{self.cname}.__init__: no call of super().__init__")
        return self.result, (self.ndims or 1)


def cross_shape(nd, side):
    d = SIDE_DIR[side][0]
    if "xyz".index(d) >= nd:
        return [0]
    if nd == 1:
        return [1]
    return [DIMS[k] for k in range(nd) if "xyz"[k] != d]


def shape_note(cname, nd, side, coef, sh):
    want = cross_shape(nd, side)
    if sh == want:
        return None
    k = len(sh) - len(want)
    if k > 0 and sh[k:] == want and all(x == 1 for x in sh[:k]):
        return (f"{cname}.{side}.{coef}: shape {shape_str(sh)} differs from the cross-section shape {shape_str(want)} "
                f"only by {k} leading 1-ax{'is' if k == 1 else 'es'} (broadcast-compatible; recorded as written)")
    return f"{cname}.{side}.{coef}: shape {shape_str(sh)} is NOT the cross-section shape {shape_str(want)}"


# ---------------------------------------------------------------------------------------------------------
# (b) the factory
# ---------------------------------------------------------------------------------------------------------
class MeshClasses:
    def __init__(self, tree):
        self.classes = {}
        for n in tree.body:
            if isinstance(n, ast.ClassDef):
                if n.name in self.classes:
                    raise Bad(f"mesh.py: class {n.name} is defined twice")
                self.classes[n.name] = n

    def mro(self, cls):
        out = []
        while cls in self.classes:
            if cls in out:
                raise Bad(f"mesh.py: inheritance cycle at {cls}")
            out.append(cls)
            bases = self.classes[cls].bases
            if len(bases) > 1:
                raise Bad(f"mesh.py: multiple inheritance in {cls}")
            cls = bases[0].id if bases and isinstance(bases[0], ast.Name) else None
        return out


def factory(bnd, mesh, ctors_ok):
    fn = bnd.func("BoundaryConditions")
    names, defaults = plain_params(fn, "BoundaryConditions")
    if len(names) != 1 or defaults != [None]:
        raise Bad("BoundaryConditions: signature")
    m = names[0]
    body = live(fn)

    def class_name(n):
        if isinstance(n, ast.Name) and n.id in KIND:
            if n.id not in mesh.classes:
                raise Bad(f"mesh.py has no class {n.id}")
            if not bnd.imported_from(n.id, "mesh"):
                raise Bad(f"`{n.id}` is not (only) `from .mesh import {n.id}`")
            return n.id
        return None

    def test(t, cls):
        if isinstance(t, ast.Constant) and isinstance(t.value, bool):
            return t.value
        if isinstance(t, ast.BoolOp):
            vs = [test(v, cls) for v in t.values]
            return all(vs) if isinstance(t.op, ast.And) else any(vs)
        if isinstance(t, ast.UnaryOp) and isinstance(t.op, ast.Not):
            return not test(t.operand, cls)
        if isinstance(t, ast.Call) and not t.keywords and len(t.args) == 2 and isinstance(t.func, ast.Name):
            c = class_name(t.args[1])
            if c is not None and t.func.id == "issubclass" and U(t.args[0]) == f"type({m})":
                return c in mesh.mro(cls)
            if c is not None and t.func.id == "isinstance" and U(t.args[0]) == m:
                return c in mesh.mro(cls)
        if isinstance(t, ast.Compare) and len(t.ops) == 1 and isinstance(t.ops[0], (ast.Is, ast.Eq, ast.IsNot, ast.NotEq)) \
                and U(t.left) == f"type({m})":
            c = class_name(t.comparators[0])
            if c is not None:
                return (c == cls) == isinstance(t.ops[0], (ast.Is, ast.Eq))
        raise Bad(f"BoundaryConditions: test `{short(t)}`")

    def run(stmts, cls):
        for st in stmts:
            if isinstance(st, ast.If):
                r = run(live(fn, st.body) if test(st.test, cls) else live(fn, st.orelse), cls)
                if r is not None:
                    return r
                continue
            if isinstance(st, ast.Return) and isinstance(st.value, ast.Call) and isinstance(st.value.func, ast.Name) \
                    and not st.value.keywords and [U(a) for a in st.value.args] == [m]:
                return st.value.func.id
            raise Bad(f"BoundaryConditions: statement `{short(st)}` (line {st.lineno})")
        return None

    table = []
    for cls in KIND:
        if cls not in mesh.classes:
            raise Bad(f"mesh.py has no class {cls}")
        target = run(body, cls)
        if target is None:
            raise Bad(f"BoundaryConditions: no constructor is reached for {cls} (the function returns None)")
        if target not in CTORS:
            raise Bad(f"BoundaryConditions: {cls} is sent to `{target}`")
        if target not in ctors_ok:
            raise Bad(f"BoundaryConditions: {cls} is sent to {target}, which is untranslated")
        if ctors_ok[target] != NDIM[cls]:
            raise Bad(f"BoundaryConditions: {cls} ({NDIM[cls]} dimensions) is sent to {target}, which unpacks "
                      f"{ctors_ok[target]} dimension(s) of mesh.dims")
        table.append((cls, target))
    return table


# ---------------------------------------------------------------------------------------------------------
# emission
# ---------------------------------------------------------------------------------------------------------
HEADER = """/- GENERATED by harness/translate/tbcu.py from boundary.py (class hierarchy from mesh.py) — do not edit.
   Value-level meaning of the boundary-condition convenience API: the four utility methods of `BoundaryFace`
   (executed symbolically through the property setters that were READ from the source), the default boundary
   conditions built by `BoundaryConditions1D/2D/3D.__init__` (content, flags, symbolic shapes, wiring) and the factory
   `BoundaryConditions(mesh)`.  Proved equal to the specification PyFV/Model/BCUtil.lean in PyFV/Props/GenEqBCUtil.lean. -/
import PyFV.Model.BCUtil

set_option linter.unusedVariables false

namespace PyFV.Gen.BCUtilGen
open PyFV PyFV.BCUtil

variable {α : Type} [Field α] [LinearOrder α] [IsStrictOrderedRing α]
"""


def str_table(pairs):
    return "[" + ", ".join(f'("{a}", "{b}")' for a, b in pairs) + "]"


def lean_shape(sh):
    return "[" + ", ".join(f".{d}" if isinstance(d, str) else f".lit {d}" for d in sh) + "]"


def lean_const_field(arr):
    sh, fill = arr[1], arr[2]
    if fill is None:
        return "noEntries"
    return f"fun _ => {lean_num(fill)}"


def generate(repo):
    tinert.set_repo(repo)
    src = os.path.join(repo, "src", "pyfvtool")
    status, notes, out, facts = {}, {}, [HEADER], {}

    def attempt(name, thunk, needs=()):
        try:
            for n in needs:
                if status.get(n) != "ok":
                    raise Bad(f"depends on {n}, which is untranslated")
            txt = thunk()
            status[name] = "ok"
            if txt:
                out.append(txt)
        except Bad as e:
            status[name] = f"untranslated: {e}"
        except (SyntaxError, OSError, RecursionError) as e:
            status[name] = f"untranslated: {type(e).__name__}: {e}"

    try:
        bnd = Module(os.path.join(src, "boundary.py"))
    except (SyntaxError, OSError, Bad) as e:
        bnd = None
        bnd_err = f"boundary.py: {type(e).__name__}: {e}"
    try:
        mesh = MeshClasses(ast.parse(open(os.path.join(src, "mesh.py")).read()))
        mesh_err = None
    except (SyntaxError, OSError, Bad) as e:
        mesh, mesh_err = None, f"mesh.py: {type(e).__name__}: {e}"

    def need_bnd():
        if bnd is None:
            raise Bad(bnd_err)
        return bnd

    # ---- (a) accessors
    out.append("/-! ### (a) `BoundaryFace`: accessors, constructor, utility methods -/\n")

    def t_acc():
        g, s = accessors(need_bnd())
        facts["getters"], facts["setters"] = g, s
        return ("/-- property ↦ private array its getter returns (`return self._x`) -/\n"
                f"def getter_table : List (String × String) := {str_table((k, g[k]) for k in COEFS)}\n\n"
                "/-- property ↦ private array its setter stores into (`self._x[:] = val`: broadcast store, the array\n"
                "    object is kept) -/\n"
                f"def setter_table : List (String × String) := {str_table((k, s[k]) for k in COEFS)}\n")
    attempt("BoundaryFace.accessors", t_acc)

    def t_finit():
        fi = face_init(need_bnd())
        facts["face_init"] = fi
        rows = [(pr, fi["init"][pr]) for pr in PRIV + ["_periodic"]]
        txt = ("/-- `BoundaryFace.__init__`: private attribute ↦ constructor parameter (`self._x = TrackedArray(<param>)`) -/\n"
               f"def init_table : List (String × String) := {str_table(rows)}\n\n"
               "/-- positional parameters of `BoundaryFace.__init__` (after `self`) -/\n"
               "def init_params : List String := [" + ", ".join(f'"{p}"' for p in fi["params"]) + "]\n")
        for p, v in sorted(fi["defaults"].items()):
            txt += f"\ndef BoundaryFace_default_{p} : Bool := {'true' if v else 'false'}\n"
        return txt
    attempt("BoundaryFace.__init__", t_finit)

    def t_method(nm):
        def go():
            fn = need_bnd().method("BoundaryFace", nm)
            ex = Exec(fn, f"BoundaryFace.{nm}", facts["getters"], facts["setters"])
            face, dfl = ex.run()
            binders = "".join(f" ({lname(p)} : {'Bool' if p in ex.bools else 'Idx → α'})" for p in ex.params)
            sig = ", ".join(ex.params)
            txt = (f"/-- `BoundaryFace.{nm}({sig})`: final content of the coefficient arrays; `periodic` is not touched -/\n"
                   f"def {nm} (f : BFace α){binders} : BFace α :=\n"
                   f"  ⟨{lean_field(face['a'])},\n   {lean_field(face['b'])},\n   {lean_field(face['c'])},\n   f.periodic⟩\n")
            for p in ex.params:
                if p in dfl:
                    if p in ex.bools:
                        txt += f"\ndef {nm}_default_{p} : Bool := {lean_b(dfl[p])}\n"
                    else:
                        txt += f"\ndef {nm}_default_{p} : Idx → α := fun _ => {lean_num(dfl[p][1])}\n"
            return txt
        return go
    for nm in METHODS:
        attempt(f"BoundaryFace.{nm}", t_method(nm), needs=["BoundaryFace.accessors"])

    # ---- (b) constructors
    out.append("/-! ### (b) default boundary conditions -/\n")

    def t_base():
        b = base_init(need_bnd())
        facts["base_init"] = b
        rows = ", ".join(f"(.{sd}, {b['params'].index(b['wiring'][sd])})" for sd in SIDES)
        return ("/-- `BoundaryConditionsBase.__init__`: side attribute ↦ 0-based position (after `self`) of the parameter\n"
                "    stored there -/\n"
                f"def base_wiring : List (Side × ℕ) := [{rows}]\n")
    attempt("BoundaryConditionsBase.__init__", t_base)

    ctor_dims = {}

    def t_ctor(cname):
        def go():
            res, nd = Ctor(need_bnd(), cname, facts).run()
            tag = cname[len("BoundaryConditions"):]
            txt = ""
            for sd in SIDES:
                var, (_, arrs, per) = res[sd]
                shp = ", ".join(f"{k}: {shape_str(arrs[k][1])}" for k in COEFS)
                txt += (f"/-- `{cname}`: the face stored under `.{sd}` (local `{var}`; shapes {shp}) -/\n"
                        f"def face{tag}_{sd} : BFace α :=\n"
                        f"  ⟨{lean_const_field(arrs['a'])}, {lean_const_field(arrs['b'])}, {lean_const_field(arrs['c'])}, "
                        f"{'true' if per else 'false'}⟩\n\n")
                for k in COEFS:
                    nt = shape_note(cname, nd, sd, k, arrs[k][1])
                    if nt:
                        notes.setdefault("shapes", []).append(nt)
            lo = {SIDE_DIR[s][0]: s for s in SIDES if SIDE_DIR[s][1] == "lo"}
            hi = {SIDE_DIR[s][0]: s for s in SIDES if SIDE_DIR[s][1] == "hi"}

            def sel(tab):
                return "fun d => match d with " + " ".join(f"| .{d} => face{tag}_{tab[d]}" for d in "xyz")
            txt += (f"/-- `{cname}(mesh)` ({nd} dimension{'s' if nd > 1 else ''} of `mesh.dims`) -/\n"
                    f"def defaultBCs{tag} : BCs α :=\n  ⟨{sel(lo)},\n   {sel(hi)}⟩\n\n")
            txt += f"/-- `{cname}`: shapes of the arrays as written, symbolic in `Nx, Ny, Nz = mesh.dims` -/\n"
            txt += f"def shapes{tag} : Side → Coef3 → List SDim\n"
            for sd in SIDES:
                for k in COEFS:
                    txt += f"  | .{sd}, .{k} => {lean_shape(res[sd][1][1][k][1])}\n"
            txt += (f"\n/-- `{cname}`: side attribute ↦ the local variable that reaches it through `super().__init__` -/\n"
                    f"def wiring{tag} : List (Side × String) := ["
                    + ", ".join(f'(.{sd}, "{res[sd][0]}")' for sd in SIDES) + "]\n\n"
                    f"def ndims{tag} : ℕ := {nd}\n")
            ctor_dims[cname] = nd
            return txt
        return go
    for cname in CTORS:
        attempt(f"{cname}.__init__", t_ctor(cname),
                needs=["BoundaryFace.accessors", "BoundaryFace.__init__", "BoundaryConditionsBase.__init__"])

    def t_factory():
        if mesh is None:
            raise Bad(mesh_err)
        table = factory(need_bnd(), mesh, ctor_dims)
        txt = ("/-- the factory `BoundaryConditions(mesh)`: grid class ↦ constructor (cascade evaluated with the class\n"
               "    hierarchy of mesh.py) -/\n"
               "def factory_table : List (Kind × String) :=\n  ["
               + ",\n   ".join(f'(.{KIND[c]}, "{t}")' for c, t in table) + "]\n\n"
               "/-- the object `BoundaryConditions(mesh)` returns for a mesh of grid class `k` -/\n"
               "def BoundaryConditions (k : Kind) : BCs α :=\n  match k with\n"
               + "".join(f"  | .{KIND[c]} => defaultBCs{t[len('BoundaryConditions'):]}\n" for c, t in table)
               + "\n/-- shapes of its arrays -/\n"
               "def shapes (k : Kind) : Side → Coef3 → List SDim :=\n  match k with\n"
               + "".join(f"  | .{KIND[c]} => shapes{t[len('BoundaryConditions'):]}\n" for c, t in table))
        return txt
    attempt("BoundaryConditions", t_factory)

    bad = [k for k in status if status[k] != "ok"]
    out.append("def untranslated : List String := [" + ", ".join(f'"{k}"' for k in bad) + "]\n")
    out.append("end PyFV.Gen.BCUtilGen\n")
    if notes:
        status["_notes"] = notes
    return "\n".join(out), status


def main():
    repo = os.environ.get("VERIF_REPO", "/repo")
    dst = sys.argv[1]
    text, status = generate(repo)
    status = tinert.annotate(status)
    write_if_changed(dst, text)
    base = os.path.splitext(os.path.basename(dst))[0].lower()
    write_if_changed(os.path.join(os.path.dirname(os.path.abspath(dst)), f"{base}_status.json"),
                     json.dumps(status, indent=1, sort_keys=True) + "\n")
    print(json.dumps(status))


if __name__ == "__main__":
    main()
