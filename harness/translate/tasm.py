#!/usr/bin/env python3
"""T-asm: regenerate the NUMERICAL PAYLOAD of the solvers of pdesolver.py from the Python source.

  python3 harness/translate/tasm.py lean/PyFV/Gen/AsmGen.lean

writes  <out>                        Lean definitions (namespace PyFV.Gen.AsmGen): a small DESCRIPTION of
                                       solvePDE          solver selection, read of the cached boundary term, the two
                                                         accumulators (COPY of the cached component or the cached
                                                         object itself), the classification cascade of one term as
                                                         the ordered list of paths through its if-tree (guards in
                                                         evaluation order, then `raise <exception>` or the list of
                                                         accumulator updates with operator / sign / operand), the
                                                         solver call (callee, arguments in order, sign), the
                                                         write-back (attribute rebinding of `_value`, wrapper,
                                                         reshape source, shape as a function of `dims`, order), the
                                                         returned object, the sequence of recognised statements
                                       solveExplicitPDE  the elementwise update formula `explicitUpdate old rhs dt`
                                                         of the stored array, freshness of that array, inputs
                                                         modified in place (through views), attributes of the input
                                                         variable that are assigned, construction of the result
                                       solveMatrixPDE    solver call and construction of the new variable
                                       untranslated      names for which nothing was emitted
        <dir>/asmgen_status.json     {function: "ok" | "untranslated: reason"}
and prints the status as one JSON line.  stdlib `ast` only; nothing is imported from the package; the source root
is $VERIF_REPO (default /repo).  PyFV/Lemmas/AsmEval.lean gives the description its meaning (an evaluator on
term lists); PyFV/Props/GenEqAsm.lean proves that meaning equal to the model (PyFV/Model/Solve.lean, BC.lean,
C04, C12).

Method: every function body is interpreted STATEMENT BY STATEMENT over a small abstract state.  A statement is
either PAYLOAD (one of the forms below, whose operators, operands, signs, argument order, targets are read from the
AST), or one of the STATE statements of the caching protocol, which are handled by another translator (T-eff /
state model) and are only recognised here, by exact comparison of `ast.dump` with these templates ({v} = a variable):
    refresh_or_build_BCsTerm   if not {v}.BCsTerm_precalc:
                                   {v}.BCsTerm_precalc = True
                                   {v}.apply_BCs()
                               elif {v}._BCs_outdated():
                                   {v}.apply_BCs()
    refresh_if_outdated        if {v}._BCs_outdated():
                                   {v}.apply_BCs()
    apply_BCs                  {v}.apply_BCs()
Their text and their position in the statement sequence are emitted (`*_stateStmts`, `*_sequence`) and pinned by
theorems; the translator itself enforces: the refresh prologue precedes the read of `{v}._BCsTerm` /
`{v}._value`, and `apply_BCs` follows the store into `_value`.
Payload forms (anything else ⇒ the function is `untranslated: <reason>`, no definition is emitted):
  solvePDE
    if <p> is None: <s> = <imported name> else: <s> = <p>            solver selection (<p> a parameter with default None)
                                                                      (also `if <p> is not None` with the branches swapped, and
                                                                      the conditional expression `<s> = <g> if <p> is None else <p>`)
    <a>, <b> = <v>._BCsTerm                                           read of the cached boundary term
    <M> = <a>.copy()   |   <M> = <a>                                  accumulator (copy recorded)
                                                                      (two ADJACENT initialisations are independent: the accumulators
                                                                      are numbered by the cached component they start from)
    for <t> in <list parameter>: <body>                               body: if / elif / else over the atomic tests
                                                                      isinstance(r, tuple), len(r) ==|!= n (only where r
                                                                      is known to be a tuple), getattr(r, 'ndim', None)
                                                                      ==|!= n, combined with and / or / not (short-circuit
                                                                      order kept); `x, y = <t>` where len(<t>) == 2 is
                                                                      established; `raise E(...)`; `<M> += e`, `<M> -= e`,
                                                                      `<M> = <M> + e`, `<M> = <M> - e`, `<M> = e` with
                                                                      e = r | -r; pass; continue
                                                                      HELPERS of the loop body (the cascade extracted into
                                                                      a function): `<names> = f(<args>)` with f a plain
                                                                      module-level `def` of pdesolver.py (undecorated, no
                                                                      *args, no global; defined once) and every argument the
                                                                      loop variable, one of its components or an accumulator:
                                                                      the body of f is enumerated IN PLACE of the call (its own
                                                                      scope: parameters only), `return` hands back term
                                                                      components, `None` or accumulators.  Both shapes work:
                                                                      `Mt, Rt = _classify(term)` followed by `if Mt is not
                                                                      None: M += Mt` (`x is [not] None` is decided per path;
                                                                      a component is known not to be None only under a guard
                                                                      `getattr(x, 'ndim', None) == n`), and
                                                                      `M, RHS = _accumulate(M, RHS, term)` (an accumulator the
                                                                      helper updates MUST be returned and assigned back to
                                                                      its own name: `+=` may or may not be in place).  The
                                                                      paths / guards / updates emitted are those of the
                                                                      inlined cascade (byte-identical for a faithful
                                                                      extraction).  Helper calls outside the loop body, and
                                                                      in the two other solvers, stay untranslated.
    <x> = <s>(<arg>, ...)    arg = <M> | -<M> | <a> | -<a>            solver call (after the loop, no keywords)
    <v>._value = [TrackedArray(] np.reshape(<x>, <v>.domain.dims [+ k]) [)]   (also <x>.reshape(...); order='C' only)
    return <name>
  solveExplicitPDE   (parameters: variable, scalar time step, flat right-hand side)
    <n> = <expr> over <v>._value, the time step, numbers, <RHS>.reshape(<v>._value.shape) / np.reshape(...),
          + - * / and unary minus (a result of arithmetic is a fresh array; `.reshape` is a VIEW of its argument);
    <n> op= <expr>  (in place: if <n> is a view of an input, the input is recorded in `explicit_mutatedInputs`);
    <r> = CellVariable(<v>.domain, <const>, <v>.BCs | deepcopy(<v>.BCs), k=<const>...)   |   <r> = <v> (alias!)
    <r>._value = [TrackedArray(] <n> [)]     return <r>
  solveMatrixPDE
    solver selection;  <x> = <s>(<arg>, ...) with parameters as arguments;
    return CellVariable(<m>, np.reshape(<x>, <m>.dims [+ k]))   (or via a name)
INERT statements (tinert.py: print / warnings.warn / logging calls and asserts on PURE expressions, `pass`, `if <pure>:`
  over such statements, assignments to locals that only such statements read) are skipped before the statement is
  classified, at any position of the three solvers and of the accumulation loop: they add nothing to `*_sequence`, so
  the ordering checks (prologue before the read of the cache, `apply_BCs` directly after the store) see the same
  sequence.  A validation guard `if <pure>: raise E(...)` is classified first (the guards of the loop body that the
  cascade understands stay PATHS of `solvePDE_loopPaths`); it is skipped only when its test is not understood.
  Trailing / keyword-only parameters with a default that only inert statements read are left out of `*_params`.  At
  module level of pdesolver.py `<name> = logging.getLogger(...)` and `<name> = <constant>` are accepted when <name> is
  bound once and only inert statements read it.  The test is purely syntactic (closed list of side-effect-free
  functions, no method call, no store, no `:=`), so a skipped statement cannot write.
Cross-module checks: `spsolve` import and `use_solver(useUmfpack=...)` of pdesolver.py are recorded; every assignment
  to `self._BCsTerm` in cell.py is `boundaryConditionsTerm(self.BCs)`; every `dims = ...` in mesh.py is
  `np.array([...], dtype=int)` (so `dims + k` is elementwise).
Trusted (not derived): `phi._BCsTerm` is the pair (matrix, right-hand side) modelled by `bcRow` (T-bc); matrices /
  vectors returned by the term builders have entries in interior rows only (T-num CHECKS); C order of `reshape`;
  `a += b` on an ndarray is in place, on a scipy sparse array possibly in place; `solver(A, b)` returns x with
  A x = b, flat in the numbering `cell_numbers()` (C order over the ghosted shape).
"""
import ast, sys, os, json
from fractions import Fraction

sys.path.insert(0, os.path.dirname(os.path.abspath(__file__)))
import tinert                                                  # noqa: E402
import tnum                                                    # noqa: E402  (helper definition checks only)


class Bad(Exception):
    pass


HSCOPE = "\0helper"      # key of the local environment while the body of a helper of the loop is enumerated


def lstr(s):
    return '"' + s.replace("\\", "\\\\").replace('"', '\\"').replace("\n", "\\n") + '"'


def lbool(b):
    return "true" if b else "false"


def llist(items):
    return "[" + ", ".join(items) + "]"


STATE_TEMPLATES = {
    "refresh_or_build_BCsTerm": "if not {v}.BCsTerm_precalc:\n    {v}.BCsTerm_precalc = True\n    {v}.apply_BCs()\n"
                                "elif {v}._BCs_outdated():\n    {v}.apply_BCs()",
    "refresh_if_outdated": "if {v}._BCs_outdated():\n    {v}.apply_BCs()",
    "apply_BCs": "{v}.apply_BCs()",
}


def match_state(st, names):
    """(tag, variable name) if `st` is exactly one of the state templates for one of `names`"""
    d = ast.dump(st)
    for tag, src in STATE_TEMPLATES.items():
        for v in names:
            if ast.dump(ast.parse(src.format(v=v)).body[0]) == d:
                return tag, v
    return None


def mentions_state(st):
    """does the statement touch the caching protocol at all?"""
    for n in ast.walk(st):
        if isinstance(n, ast.Attribute) and n.attr in ("BCsTerm_precalc", "apply_BCs", "_BCs_outdated"):
            return True
    return False


def is_name(n, ident=None):
    return isinstance(n, ast.Name) and (ident is None or n.id == ident)


def is_docstring(st):
    return isinstance(st, ast.Expr) and isinstance(st.value, ast.Constant) and isinstance(st.value.value, str)


def params_of(fn):
    a = tinert.effective_args(fn)           # without the extra parameters that only inert statements read
    if a.vararg or a.kwarg or a.kwonlyargs or a.posonlyargs:
        raise Bad("signature: *args / **kwargs / keyword-only / positional-only parameters")
    names = [x.arg for x in a.args]
    defaults = [None] * (len(names) - len(a.defaults)) + list(a.defaults)
    return names, defaults


def const_text(node):
    if not isinstance(node, ast.Constant):
        raise Bad(f"non-constant {ast.unparse(node)}")
    return repr(node.value)


# ---------------------------------------------------------------------------------------------------------
# module-level facts
# ---------------------------------------------------------------------------------------------------------
class ModuleInfo:
    def __init__(self, tree):
        self.imports = {}
        self.use_umfpack = None
        self.fns = {}
        for n in tree.body:
            if isinstance(n, ast.ImportFrom):
                for al in n.names:
                    self.imports[al.asname or al.name] = ("." * n.level) + (n.module or "") + "." + al.name
            elif isinstance(n, ast.Import):
                for al in n.names:
                    self.imports[al.asname or al.name] = al.name
            elif isinstance(n, ast.FunctionDef):
                if n.name in self.fns:
                    raise Bad(f"{n.name} defined twice")
                self.fns[n.name] = n
            elif isinstance(n, ast.Expr) and isinstance(n.value, ast.Call) and is_name(n.value.func, "use_solver"):
                c = n.value
                if c.args or len(c.keywords) != 1 or c.keywords[0].arg != "useUmfpack" \
                        or not isinstance(c.keywords[0].value, ast.Constant) \
                        or not isinstance(c.keywords[0].value.value, bool):
                    raise Bad(f"module level: {ast.unparse(c)}")
                self.use_umfpack = c.keywords[0].value.value
            elif is_docstring(n) or tinert.is_inert_module_statement(n, tree):
                pass
            else:
                raise Bad(f"module level statement {type(n).__name__} (line {n.lineno})")
        if self.imports.get("np") != "numpy":
            raise Bad("`np` is not numpy")


def check_cell(tree):
    """every assignment to self._BCsTerm is boundaryConditionsTerm(self.BCs)"""
    found = []
    for n in ast.walk(tree):
        if isinstance(n, (ast.Assign, ast.AugAssign, ast.AnnAssign)):
            targets = n.targets if isinstance(n, ast.Assign) else [n.target]
            for t in targets:
                for s in ast.walk(t):
                    if isinstance(s, ast.Attribute) and s.attr == "_BCsTerm":
                        if not (isinstance(n, ast.Assign) and len(n.targets) == 1 and t is s
                                and is_name(s.value, "self")):
                            raise Bad(f"cell.py line {n.lineno}: unexpected assignment to _BCsTerm")
                        found.append(ast.unparse(n.value))
    if not found:
        raise Bad("cell.py: _BCsTerm is never assigned")
    if set(found) != {"boundaryConditionsTerm(self.BCs)"}:
        raise Bad(f"cell.py: _BCsTerm assigned from {sorted(set(found))}")
    return found[0], len(found)


def check_mesh_dims(tree):
    """every `dims = ...` is np.array([...], dtype=int): `dims + k` is elementwise"""
    count = 0
    for n in ast.walk(tree):
        if isinstance(n, ast.Assign) and any(is_name(t, "dims") for t in n.targets):
            v = n.value
            ok = (isinstance(v, ast.Call) and ast.unparse(v.func) == "np.array" and len(v.args) == 1
                  and isinstance(v.args[0], ast.List) and [k.arg for k in v.keywords] == ["dtype"]
                  and is_name(v.keywords[0].value, "int"))
            if not ok:
                raise Bad(f"mesh.py line {n.lineno}: dims = {ast.unparse(v)} is not np.array([...], dtype=int)")
            count += 1
    if count == 0:
        raise Bad("mesh.py: no assignment to dims")
    return count


# ---------------------------------------------------------------------------------------------------------
# shared pieces: solver selection, solver call, reshape
# ---------------------------------------------------------------------------------------------------------
def ifexp_as_if(st):
    """`<s> = <a> if <test> else <b>` is the statement `if <test>: <s> = <a>` / `else: <s> = <b>`"""
    if isinstance(st, ast.Assign) and len(st.targets) == 1 and is_name(st.targets[0]) and isinstance(st.value, ast.IfExp):
        t = st.targets[0]
        new = ast.If(test=st.value.test,
                     body=[ast.Assign(targets=[ast.Name(id=t.id, ctx=ast.Store())], value=st.value.body)],
                     orelse=[ast.Assign(targets=[ast.Name(id=t.id, ctx=ast.Store())], value=st.value.orelse)])
        ast.copy_location(new, st)
        return ast.fix_missing_locations(new)
    return st


def norm_runs(seq, groups):
    """canonical order inside maximal runs of mutually independent, effect-free entries (each group of `groups` is
    a list of entry names in canonical order; a run = consecutive entries of one group; duplicates collapse)"""
    out, i = [], 0
    while i < len(seq):
        g = next((g for g in groups if seq[i] in g), None)
        if g is None:
            out.append(seq[i])
            i += 1
            continue
        j = i
        while j < len(seq) and seq[j] in g:
            j += 1
        run = seq[i:j]
        out += [x for x in g if x in run]
        i = j
    return out


def match_solver_select(st, params, defaults, mod):
    """`if <p> is None: <s> = <g> else: <s> = <p>` → (s, p, g)"""
    st = ifexp_as_if(st)
    if not (isinstance(st, ast.If) and isinstance(st.test, ast.Compare) and len(st.test.ops) == 1
            and isinstance(st.test.ops[0], (ast.Is, ast.IsNot)) and is_name(st.test.left)
            and isinstance(st.test.comparators[0], ast.Constant) and st.test.comparators[0].value is None):
        return None
    p = st.test.left.id
    if p not in params:
        raise Bad(f"solver selection tests `{p}`, which is not a parameter")
    d = defaults[params.index(p)]
    if not (isinstance(d, ast.Constant) and d.value is None):
        raise Bad(f"parameter {p} does not default to None")
    body, orelse = (st.body, st.orelse) if isinstance(st.test.ops[0], ast.Is) else (st.orelse, st.body)

    def single(b):
        if not (len(b) == 1 and isinstance(b[0], ast.Assign) and len(b[0].targets) == 1 and is_name(b[0].targets[0])
                and is_name(b[0].value)):
            raise Bad(f"solver selection: branch `{'; '.join(ast.unparse(x) for x in b)}`")
        return b[0].targets[0].id, b[0].value.id
    s1, g = single(body)
    s2, q = single(orelse)
    if s1 != s2:
        raise Bad("solver selection: the two branches assign different names")
    if q != p:
        raise Bad(f"solver selection: a given `{p}` is not used (`{s2} = {q}`)")
    if g in params or g not in mod.imports:
        raise Bad(f"solver selection: default `{g}` is not an imported name")
    return s1, p, mod.imports[g]


def parse_dims_shape(node, dims_base, mesh_ok):
    """`<base>.dims`, `<base>.dims + k`, `k + <base>.dims` → k"""
    if not mesh_ok:
        raise Bad("mesh.py: `dims` is not known to be an ndarray")

    def is_dims(n):
        return isinstance(n, ast.Attribute) and n.attr == "dims" and ast.unparse(n.value) == dims_base
    if is_dims(node):
        return 0
    if isinstance(node, ast.BinOp) and isinstance(node.op, ast.Add):
        for a, b in ((node.left, node.right), (node.right, node.left)):
            if is_dims(a) and isinstance(b, ast.Constant) and type(b.value) is int and b.value >= 0:
                return b.value
    raise Bad(f"shape `{ast.unparse(node)}` is not {dims_base}.dims [+ k]")


def parse_reshape(node):
    """np.reshape(src, shape) | src.reshape(shape) → (src node, shape node); order must be C"""
    if not isinstance(node, ast.Call):
        return None
    f = node.func
    for kw in node.keywords:
        if not (kw.arg == "order" and isinstance(kw.value, ast.Constant) and kw.value.value == "C"):
            raise Bad(f"reshape keyword `{ast.unparse(kw)}`")
    if isinstance(f, ast.Attribute) and is_name(f.value, "np") and f.attr == "reshape":
        if len(node.args) != 2:
            raise Bad(f"np.reshape arguments: {ast.unparse(node)}")
        return node.args[0], node.args[1]
    if isinstance(f, ast.Attribute) and f.attr == "reshape":
        if len(node.args) != 1:
            raise Bad(f".reshape arguments: {ast.unparse(node)}")
        return f.value, node.args[0]
    return None


def strip_wrapper(node):
    if isinstance(node, ast.Call) and is_name(node.func, "TrackedArray") and len(node.args) == 1 and not node.keywords:
        return "TrackedArray", node.args[0]
    return "", node


def render_arg(a):
    kind, i, neg = a
    return f"⟨.{kind} {i}, {lbool(neg)}⟩"


# ---------------------------------------------------------------------------------------------------------
# solvePDE
# ---------------------------------------------------------------------------------------------------------
class SolvePDE:
    def __init__(self, fn, mod, mesh_ok):
        self.fn, self.mod, self.mesh_ok = fn, mod, mesh_ok
        self.params, self.defaults = params_of(fn)
        if len(self.params) < 2:
            raise Bad("signature")
        self.var = self.params[0]
        self.env = {}
        self.seq, self.state_stmts = [], []
        self.solver = None
        self.prologue = False
        self.cache_arity = None
        self.accs = []              # [{cached, copy, name}]
        self.loop = None            # (list parameter index, paths)
        self.call = None            # [args]
        self.store = None
        self.ret = None

    def fresh(self, name):
        if name in self.params:
            raise Bad(f"assignment to the parameter {name}")

    def run(self):
        body = list(self.fn.body)
        if body and is_docstring(body[0]):
            body = body[1:]
        for st in body:
            if self.ret is not None:
                raise Bad("statement after return")
            self.step(st)
        if self.ret is None:
            raise Bad("no return")
        if self.store is None:
            raise Bad("the solution is never stored")
        i = self.seq.index("store")
        if self.seq[i + 1:i + 2] != ["state:apply_BCs"]:
            raise Bad("`apply_BCs` does not directly follow the store into `_value`")
        return self

    def step(self, st):
        inert = tinert.analysis(self.fn)
        if inert.skip(st):                      # inert statement (tinert.py): not part of the sequence
            return
        try:
            return self.step0(st)
        except Bad:
            if inert.skip_guard(st):            # a validation guard that is not understood
                return
            raise

    def step0(self, st):
        m = match_state(st, [self.var])
        if m:
            tag, v = m
            if tag == "refresh_or_build_BCsTerm":
                if self.prologue or self.cache_arity is not None:
                    raise Bad("refresh prologue repeated / after the read of the cached term")
                self.prologue = True
            elif tag == "apply_BCs":
                if self.store is None:
                    raise Bad(f"`{v}.apply_BCs()` before the solution is stored")
            else:
                raise Bad(f"state statement `{tag}` is not expected in solvePDE")
            self.seq.append("state:" + tag)
            self.state_stmts.append(ast.unparse(st))
            return
        if mentions_state(st):
            raise Bad(f"unrecognised state statement (line {st.lineno}): {ast.unparse(st)[:60]}")
        sel = match_solver_select(st, self.params, self.defaults, self.mod)
        if sel:
            if self.solver:
                raise Bad("second solver selection")
            s, p, g = sel
            self.fresh(s)
            self.solver = (s, p, g)
            self.env[s] = ("solver",)
            self.seq.append("select_solver")
            return
        if isinstance(st, ast.Assign):
            return self.assign(st)
        if isinstance(st, ast.For):
            return self.for_loop(st)
        if isinstance(st, ast.Return):
            if not is_name(st.value):
                raise Bad(f"return {ast.unparse(st.value) if st.value else ''}")
            n = st.value.id
            if n in self.env:
                raise Bad(f"returns the local object {n}")
            if n not in self.params:
                raise Bad(f"return of unknown name {n}")
            self.ret = self.params.index(n)
            self.seq.append("return")
            return
        raise Bad(f"statement {type(st).__name__} (line {st.lineno}): {ast.unparse(st)[:60]}")

    def assign(self, st):
        if len(st.targets) != 1:
            raise Bad(f"chained assignment (line {st.lineno})")
        t, v = st.targets[0], st.value
        # read of the cached boundary term
        if isinstance(t, ast.Tuple):
            if not (all(is_name(e) for e in t.elts) and isinstance(v, ast.Attribute) and v.attr == "_BCsTerm"
                    and is_name(v.value, self.var)):
                raise Bad(f"tuple assignment (line {st.lineno}): {ast.unparse(st)}")
            if not self.prologue:
                raise Bad("the cached boundary term is read before the refresh prologue")
            if self.cache_arity is not None:
                raise Bad("the cached boundary term is read twice")
            names = [e.id for e in t.elts]
            if len(set(names)) != len(names):
                raise Bad("duplicate names in the unpacking of _BCsTerm")
            for i, n in enumerate(names):
                self.fresh(n)
                self.env[n] = ("cached", i)
            self.cache_arity = len(names)
            self.seq.append("read_cached_term")
            return
        if isinstance(t, ast.Name):
            self.fresh(t.id)
            # accumulator
            src, copy = v, False
            if isinstance(v, ast.Call) and isinstance(v.func, ast.Attribute) and v.func.attr == "copy" \
                    and not v.args and not v.keywords:
                src, copy = v.func.value, True
            if is_name(src) and self.env.get(src.id, (None,))[0] == "cached":
                if self.loop is not None:
                    raise Bad("accumulator initialised after the loop")
                if t.id in self.env:
                    raise Bad(f"{t.id} is rebound")
                self.accs.append({"cached": self.env[src.id][1], "copy": copy, "name": t.id})
                self.env[t.id] = ("acc", len(self.accs) - 1)
                self.seq.append(f"init_acc{len(self.accs) - 1}")
                return
            # solver call
            if isinstance(v, ast.Call) and is_name(v.func) and self.env.get(v.func.id) == ("solver",):
                if self.loop is None:
                    raise Bad("solver called before the accumulation loop")
                if self.call is not None:
                    raise Bad("solver called twice")
                if v.keywords:
                    raise Bad("solver called with keyword arguments")
                if t.id in self.env:
                    raise Bad(f"{t.id} is rebound")
                self.call = [self.call_arg(a) for a in v.args]
                self.env[t.id] = ("result",)
                self.seq.append("solve")
                return
            raise Bad(f"assignment (line {st.lineno}): {ast.unparse(st)[:70]}")
        if isinstance(t, ast.Subscript):
            raise Bad(f"item assignment `{ast.unparse(t)} = ...` (partial write-back / in-place store is not a "
                      f"replacement of the ghosted array)")
        if isinstance(t, ast.Attribute):
            if not (is_name(t.value, self.var) and t.attr == "_value"):
                raise Bad(f"assignment to {ast.unparse(t)}")
            if self.call is None or self.store is not None:
                raise Bad("store into `_value` before the solve / repeated")
            wrapper, inner = strip_wrapper(v)
            r = parse_reshape(inner)
            if r is None:
                raise Bad(f"stored value `{ast.unparse(inner)}` is not a reshape of the solver result")
            src, shape = r
            if not (is_name(src) and self.env.get(src.id) == ("result",)):
                raise Bad(f"reshape of `{ast.unparse(src)}`, which is not the solver result")
            k = parse_dims_shape(shape, f"{self.var}.domain", self.mesh_ok)
            self.store = {"wrapper": wrapper, "k": k}
            self.seq.append("store")
            return
        raise Bad(f"assignment target {ast.unparse(t)}")

    def call_arg(self, a):
        neg = False
        if isinstance(a, ast.UnaryOp) and isinstance(a.op, ast.USub):
            neg, a = True, a.operand
        if is_name(a) and self.env.get(a.id, (None,))[0] in ("acc", "cached"):
            kind, i = self.env[a.id]
            return (kind, i, neg)
        raise Bad(f"solver argument `{ast.unparse(a)}`")

    # ---- the accumulation loop
    def for_loop(self, st):
        if self.loop is not None:
            raise Bad("second loop")
        if self.call is not None:
            raise Bad("loop after the solver call")
        if st.orelse or not is_name(st.target) or not (is_name(st.iter) and st.iter.id in self.params
                                                       and st.iter.id not in self.env):
            raise Bad(f"loop header `for {ast.unparse(st.target)} in {ast.unparse(st.iter)}`")
        if len(self.accs) != 2:
            raise Bad(f"{len(self.accs)} accumulators before the loop (2 expected)")
        # the accumulators are numbered by the component of the cached term they start from, not by the order of the
        # two (independent) initialisation statements, provided these are adjacent
        if self.accs[0]["cached"] > self.accs[1]["cached"]:
            i0 = self.seq.index("init_acc0")
            if self.seq[i0:i0 + 2] == ["init_acc0", "init_acc1"]:
                self.accs.reverse()
                for n, v in list(self.env.items()):
                    if v[0] == "acc":
                        self.env[n] = ("acc", 1 - v[1])
        self.fresh(st.target.id)
        if st.target.id in self.env:
            raise Bad("loop variable shadows a local")
        self.tvar = st.target.id
        out = []
        self.enum(list(st.body), [], {}, [], out)
        self.loop = (self.params.index(st.iter.id), out)
        self.seq.append("loop")

    def ref(self, node, lenv):
        if HSCOPE not in lenv and is_name(node, self.tvar):
            return ("term",)
        if is_name(node) and node.id != HSCOPE and node.id in lenv:
            v = lenv[node.id]
            if v[0] in ("term", "comp"):
                return v
            if v[0] == "none":
                raise Bad(f"`{ast.unparse(node)}` is None on this path")
        raise Bad(f"`{ast.unparse(node)}` is not the loop variable or one of its components")

    def atom(self, t, guards, lenv):
        """atomic test → (test, value of the test that makes the Python expression true)"""
        if isinstance(t, ast.Call) and is_name(t.func, "isinstance") and len(t.args) == 2 and not t.keywords \
                and is_name(t.args[1], "tuple"):
            return ("isTuple", self.ref(t.args[0], lenv)), True
        if isinstance(t, ast.Compare) and len(t.ops) == 1 and isinstance(t.ops[0], (ast.Eq, ast.NotEq)) \
                and isinstance(t.comparators[0], ast.Constant) and type(t.comparators[0].value) is int \
                and t.comparators[0].value >= 0 and isinstance(t.left, ast.Call) and not t.left.keywords:
            c, n, pos = t.left, t.comparators[0].value, isinstance(t.ops[0], ast.Eq)
            if is_name(c.func, "len") and len(c.args) == 1:
                r = self.ref(c.args[0], lenv)
                if ((("isTuple", r), True)) not in guards:
                    raise Bad(f"len({ast.unparse(c.args[0])}) where the operand is not known to be a tuple")
                return ("lenEq", r, n), pos
            if is_name(c.func, "getattr") and len(c.args) == 3 and isinstance(c.args[1], ast.Constant) \
                    and c.args[1].value == "ndim" and isinstance(c.args[2], ast.Constant) and c.args[2].value is None:
                return ("ndimEq", self.ref(c.args[0], lenv), n), pos
        raise Bad(f"test `{ast.unparse(t)}`")

    def branch(self, t, guards, lenv):
        """[(extra guards, truth of t)] in short-circuit evaluation order"""
        if isinstance(t, ast.UnaryOp) and isinstance(t.op, ast.Not):
            return [(g, not o) for g, o in self.branch(t.operand, guards, lenv)]
        if isinstance(t, ast.BoolOp):
            stop = isinstance(t.op, ast.Or)       # `or` stops at the first true, `and` at the first false
            alts = [([], not stop)]
            for v in t.values:
                new = []
                for g, o in alts:
                    if o == stop:
                        new.append((g, o))
                    else:
                        for g2, o2 in self.branch(v, guards + g, lenv):
                            new.append((g + g2, o2))
                alts = new
            return alts
        if isinstance(t, ast.Compare) and len(t.ops) == 1 and isinstance(t.ops[0], (ast.Is, ast.IsNot)) \
                and isinstance(t.comparators[0], ast.Constant) and t.comparators[0].value is None \
                and is_name(t.left) and t.left.id != HSCOPE and t.left.id in lenv:
            # `x is None` / `x is not None` for a name a helper returned: decided on each path (no guard is recorded);
            # a term / component is known not to be None only where `getattr(x, 'ndim', None) == n` holds
            v = lenv[t.left.id]
            if v[0] == "none":
                isnone = True
            elif v[0] in ("term", "comp") and any(g[0] == "ndimEq" and g[1] == v and val for g, val in guards):
                isnone = False
            else:
                raise Bad(f"test `{ast.unparse(t)}`: not decided on this path")
            return [([], isnone == isinstance(t.ops[0], ast.Is))]
        a, pos = self.atom(t, guards, lenv)
        for known, val in guards:
            if known == a:                       # already decided on this path
                return [([], val == pos)]
        return [([(a, pos)], True), ([(a, not pos)], False)]

    def operand(self, node, lenv):
        neg = False
        if isinstance(node, ast.UnaryOp) and isinstance(node.op, ast.USub):
            neg, node = True, node.operand
        return self.ref(node, lenv), neg

    def acc_of(self, node, lenv=None):
        if lenv is not None and HSCOPE in lenv:            # inside a helper: its own parameters only
            v = lenv.get(node.id) if is_name(node) and node.id != HSCOPE else None
            return v[1] if v is not None and v[0] == "acc" else None
        if is_name(node) and self.env.get(node.id, (None,))[0] == "acc":
            return self.env[node.id][1]
        return None

    # ---- the classification cascade extracted into a helper (`Mterm, RHSterm = _classify(term)`,
    #      `M, RHS = _accumulate(M, RHS, term)`): the helper's body is enumerated in place of the call
    def loop_helper(self, st, lenv):
        """(FunctionDef, targets) when `st` is `<name(s)> = f(<args>)` with f a module-level function of pdesolver.py"""
        if not (isinstance(st, ast.Assign) and len(st.targets) == 1 and isinstance(st.value, ast.Call)
                and is_name(st.value.func)):
            return None
        name = st.value.func.id
        if name not in self.mod.fns or name in self.mod.imports or name in self.env or name in self.params \
                or name == self.tvar or name in lenv:
            return None
        t = st.targets[0]
        targets = [t] if is_name(t) else list(t.elts) if isinstance(t, ast.Tuple) else None
        if targets is None or not all(is_name(e) for e in targets):
            raise Bad(f"`{ast.unparse(st)[:60]}`: targets of a helper call")
        return self.mod.fns[name], targets, isinstance(t, ast.Tuple)

    def enter_helper(self, st, found, rest, guards, lenv, upds, out):
        fn, targets, is_tuple = found
        h = lenv.get(HSCOPE)
        depth = (h["depth"] + 1) if h else 1
        chain = (h["chain"] if h else []) + [fn]
        if depth > tnum.HELPER_DEPTH or any(f is fn for f in (h["chain"] if h else [])):
            raise Bad(f"helper {fn.name}: recursion / nesting deeper than {tnum.HELPER_DEPTH}")
        try:
            tnum.check_helper_def(fn)
        except tnum.Bad as ex:
            raise Bad(str(ex))
        c = st.value
        a = fn.args
        if c.keywords or any(isinstance(x, ast.Starred) for x in c.args) or a.posonlyargs or a.kwonlyargs or a.defaults \
                or len(a.args) != len(c.args):
            raise Bad(f"call of {fn.name}: only plain positional arguments are understood")
        scope = {}
        for p, x in zip(a.args, c.args):
            k = self.acc_of(x, lenv)
            scope[p.arg] = ("acc", k) if k is not None else self.ref(x, lenv)
        if len(set(scope)) != len(a.args) or len({v for v in scope.values() if v[0] == "acc"}) != \
                len([v for v in scope.values() if v[0] == "acc"]):
            raise Bad(f"call of {fn.name}: the same accumulator is passed twice")
        scope[HSCOPE] = {"fn": fn, "depth": depth, "chain": chain, "updated": frozenset(),
                         "cont": (targets, is_tuple, rest, lenv, st)}
        body = list(fn.body)
        if body and is_docstring(body[0]):
            body = body[1:]
        tnum.note_inlined(self.fn.name, "pdesolver", fn)
        return self.enum(body, guards, scope, upds, out)

    def leave_helper(self, st, guards, lenv, upds, out):
        """`return <value(s)>` inside a helper: bind the caller's targets and go on with the caller's statements"""
        h = lenv[HSCOPE]
        targets, is_tuple, rest, clenv, call_st = h["cont"]
        v = st.value
        if v is None:
            raise Bad(f"helper {h['fn'].name}: bare return")
        elts = list(v.elts) if isinstance(v, ast.Tuple) else [v]
        if (isinstance(v, ast.Tuple)) != is_tuple or len(elts) != len(targets):
            raise Bad(f"helper {h['fn'].name}: `{ast.unparse(st)}` does not fit the targets of `{ast.unparse(call_st)[:50]}`")
        vals = []
        for e in elts:
            if isinstance(e, ast.Constant) and e.value is None:
                vals.append(("none",))
                continue
            k = self.acc_of(e, lenv)
            vals.append(("acc", k) if k is not None else self.ref(e, lenv))
        returned = {x[1] for x in vals if x[0] == "acc"}
        if not h["updated"] <= returned:
            raise Bad(f"helper {h['fn'].name} updates an accumulator that it does not return (`+=` may or may not be in place)")
        new = dict(clenv)
        for t, x in zip(targets, vals):
            if x[0] == "acc":
                if self.acc_of(t, clenv) != x[1]:
                    raise Bad(f"`{ast.unparse(call_st)[:50]}`: accumulator {x[1]} is not assigned back to its own name")
            else:
                if self.acc_of(t, clenv) is not None or (HSCOPE not in clenv and (t.id in self.env or t.id in self.params
                                                                                   or t.id == self.tvar)):
                    raise Bad(f"`{ast.unparse(call_st)[:50]}`: assignment to the existing name {t.id}")
                new[t.id] = x
        if HSCOPE in clenv and h["updated"]:
            ch = dict(clenv[HSCOPE])
            ch["updated"] = ch["updated"] | h["updated"]
            new[HSCOPE] = ch
        return self.enum(rest, guards, new, upds, out)

    def enum(self, stmts, guards, lenv, upds, out):
        if not stmts:
            if HSCOPE in lenv:
                raise Bad(f"helper {lenv[HSCOPE]['fn'].name} may end without `return`")
            out.append((guards, ("updates", upds)))
            return
        st, rest = stmts[0], stmts[1:]
        inert = tinert.analysis(lenv[HSCOPE]["fn"] if HSCOPE in lenv else self.fn)
        if inert.skip(st):                      # inert statement (tinert.py): no path, no update
            return self.enum(rest, guards, lenv, upds, out)
        if mentions_state(st):
            if inert.skip_guard(st):
                return self.enum(rest, guards, lenv, upds, out)
            raise Bad(f"state statement inside the loop (line {st.lineno})")
        if isinstance(st, ast.If):
            try:
                alts = self.branch(st.test, guards, lenv)
            except Bad:
                if inert.skip_guard(st):        # a validation guard whose test the cascade does not understand
                    return self.enum(rest, guards, lenv, upds, out)
                raise
            for g, o in alts:
                self.enum((st.body if o else st.orelse) + rest, guards + g, dict(lenv), list(upds), out)
            return
        if isinstance(st, ast.Pass):
            return self.enum(rest, guards, lenv, upds, out)
        if isinstance(st, ast.Return) and HSCOPE in lenv:
            return self.leave_helper(st, guards, lenv, upds, out)
        found = self.loop_helper(st, lenv)
        if found is not None:
            return self.enter_helper(st, found, rest, guards, lenv, upds, out)
        if isinstance(st, ast.Continue):
            if HSCOPE in lenv:
                raise Bad("continue inside a helper")
            out.append((guards, ("updates", upds)))
            return
        if isinstance(st, ast.Raise):
            e = st.exc
            if isinstance(e, ast.Call):
                e = e.func
            if not is_name(e) or st.cause is not None:
                raise Bad(f"raise (line {st.lineno})")
            if upds:
                raise Bad("exception raised after an accumulator was updated")
            out.append((guards, ("raise", e.id)))
            return
        if isinstance(st, ast.AugAssign):
            k = self.acc_of(st.target, lenv)
            if k is None:
                raise Bad(f"`{ast.unparse(st)}`: the target is not an accumulator")
            op = {ast.Add: "iadd", ast.Sub: "isub"}.get(type(st.op))
            if op is None:
                raise Bad(f"`{ast.unparse(st)}`: operator")
            r, neg = self.operand(st.value, lenv)
            return self.enum(rest, guards, self.touched(lenv, k), upds + [(k, op, neg, r)], out)
        if isinstance(st, ast.Assign) and len(st.targets) == 1:
            t, v = st.targets[0], st.value
            in_helper = HSCOPE in lenv
            is_term = (is_name(v) and v.id != HSCOPE and lenv.get(v.id) == ("term",)) if in_helper else is_name(v, self.tvar)
            if isinstance(t, ast.Tuple) and all(is_name(e) for e in t.elts) and is_term:
                r = ("term",)
                if (("isTuple", r), True) not in guards or (("lenEq", r, len(t.elts)), True) not in guards:
                    raise Bad(f"`{ast.unparse(st)}` where len({ast.unparse(v)}) == {len(t.elts)} is not established")
                for i, e in enumerate(t.elts):
                    if (e.id in lenv) if in_helper else (e.id in self.env or e.id in self.params or e.id == self.tvar):
                        raise Bad(f"unpacking into the existing name {e.id}")
                    lenv[e.id] = ("comp", i)
                return self.enum(rest, guards, lenv, upds, out)
            k = self.acc_of(t, lenv)
            if k is not None:
                if isinstance(v, ast.BinOp) and isinstance(v.op, (ast.Add, ast.Sub)):
                    if self.acc_of(v.left, lenv) == k:
                        r, neg = self.operand(v.right, lenv)
                        op = "add" if isinstance(v.op, ast.Add) else "sub"
                        return self.enum(rest, guards, self.touched(lenv, k), upds + [(k, op, neg, r)], out)
                    if self.acc_of(v.right, lenv) == k and isinstance(v.op, ast.Add):
                        r, neg = self.operand(v.left, lenv)
                        return self.enum(rest, guards, self.touched(lenv, k), upds + [(k, "add", neg, r)], out)
                    raise Bad(f"`{ast.unparse(st)}`")
                r, neg = self.operand(v, lenv)
                return self.enum(rest, guards, self.touched(lenv, k), upds + [(k, "assign", neg, r)], out)
        raise Bad(f"loop body statement (line {st.lineno}): {ast.unparse(st)[:60]}")

    @staticmethod
    def touched(lenv, k):
        """inside a helper: remember that accumulator k was updated (it must be handed back to the caller)"""
        if HSCOPE not in lenv:
            return lenv
        new = dict(lenv)
        h = dict(lenv[HSCOPE])
        h["updated"] = h["updated"] | {k}
        new[HSCOPE] = h
        return new

    # ---- output
    def emit(self):
        def rref(r):
            return ".term" if r == ("term",) else f".comp {r[1]}"

        def rtest(t):
            if t[0] == "isTuple":
                return f".isTuple {rref(t[1])}"
            return f".{t[0]} ({rref(t[1])}) {t[2]}"

        def rpath(p):
            guards, outc = p
            gs = llist(f"({rtest(t)}, {lbool(v)})" for t, v in guards)
            if outc[0] == "raise":
                o = f".raise {lstr(outc[1])}"
            else:
                o = ".updates " + llist(f"⟨{k}, .{op}, {lbool(neg)}, {rref(r)}⟩" for k, op, neg, r in outc[1])
            return f"⟨{gs},\n     {o}⟩"
        s, p, g = self.solver if self.solver else (None, None, None)
        if self.solver is None:
            raise Bad("no solver selection")
        if self.call is None:
            raise Bad("no solver call")
        out = ["/-! ### solvePDE -/\n"]
        out.append("/-- parameters and their defaults -/\ndef solvePDE_params : List (String × Option String) :=\n  "
                   + llist(f"({lstr(n)}, {'none' if d is None else 'some ' + lstr(ast.unparse(d))})"
                           for n, d in zip(self.params, self.defaults)) + "\n")
        out.append(f"/-- `if {p} is None: {s} = <default> else: {s} = {p}` -/\n"
                   f"def solvePDE_solver : SolverSelect := ⟨{self.params.index(p)}, {lstr(g)}⟩\n")
        out.append(f"/-- `..., ... = {self.var}._BCsTerm`: number of names the cached boundary term is unpacked into -/\n"
                   f"def solvePDE_cachedArity : Nat := {self.cache_arity}\n")
        for i, a in enumerate(self.accs):
            txt = f"{a['name']} = <cached {a['cached']}>" + (".copy()" if a["copy"] else "")
            out.append(f"/-- `{txt}` -/\ndef solvePDE_accInit{i} : AccInit := ⟨{a['cached']}, {lbool(a['copy'])}⟩\n")
        out.append(f"/-- the loop runs over this parameter, in list order -/\ndef solvePDE_loopOver : Nat := {self.loop[0]}\n")
        out.append("/-- the paths through the body of the accumulation loop, in source order; guards in evaluation order -/\n"
                   "def solvePDE_loopPaths : List Path :=\n  [" + ",\n   ".join(rpath(q) for q in self.loop[1]) + "]\n")
        out.append("/-- arguments of the solver call, in order -/\ndef solvePDE_solverArgs : List Arg := "
                   + llist(render_arg(a) for a in self.call) + "\n")
        k = self.store["k"]
        out.append(f"/-- `{self.var}._value = ...`: the attribute is REBOUND to a new ghosted array -/\n"
                   f"def solvePDE_store : Store := ⟨.param {self.params.index(self.var)}, \"_value\", {lstr(self.store['wrapper'])}, .reshapedSolverResult⟩\n")
        out.append(f"/-- the shape the solver result is reshaped to (C order), from `{self.var}.domain.dims + {k}` -/\n"
                   f"def solvePDE_storeShape (dims : List Nat) : List Nat := dims.map (fun n => n + {k})\n")
        out.append(f"def solvePDE_return : RetVal := .param {self.ret}\n")
        out.append("/-- the recognised statements, in source order -/\ndef solvePDE_sequence : List String :=\n  "
                   + llist(lstr(x) for x in self.seq) + "\n")
        out.append("/-- the statements of the caching protocol (checked by the state translator), verbatim -/\n"
                   "def solvePDE_stateStmts : List String :=\n  " + llist(lstr(x) for x in self.state_stmts) + "\n")
        return out


# ---------------------------------------------------------------------------------------------------------
# solveExplicitPDE
# ---------------------------------------------------------------------------------------------------------
class Arr:
    def __init__(self, expr, alias=None, shaped=True, scalar=False):
        self.expr, self.alias, self.shaped, self.scalar = expr, alias, shaped, scalar


def rnum(fr):
    if fr.denominator == 1:
        return f"({fr.numerator} : α)" if fr >= 0 else f"(-{-fr.numerator} : α)"
    s = f"(({abs(fr.numerator)} : α) / {fr.denominator})"
    return s if fr >= 0 else f"(-{s})"


def render(e):
    k = e[0]
    if k == "leaf":
        return e[1]
    if k == "num":
        return rnum(e[1])
    if k == "neg":
        return f"(-{render(e[1])})"
    sym = {"add": "+", "sub": "-", "mul": "*", "div": "/"}[k]
    return f"({render(e[1])} {sym} {render(e[2])})"


def strip_outer(s):
    if s.startswith("(") and s.endswith(")"):
        depth = 0
        for n, ch in enumerate(s):
            depth += ch == "("
            depth -= ch == ")"
            if depth == 0 and n < len(s) - 1:
                return s
        return s[1:-1]
    return s


BINOPS = {ast.Add: "add", ast.Sub: "sub", ast.Mult: "mul", ast.Div: "div"}


class Explicit:
    def __init__(self, fn, mod):
        self.fn, self.mod = fn, mod
        self.params, self.defaults = params_of(fn)
        if len(self.params) != 3 or any(d is not None for d in self.defaults):
            raise Bad("signature: (variable, time step, right-hand side) expected")
        self.var, self.dt, self.rhs = self.params
        self.env = {}
        self.seq, self.state_stmts = [], []
        self.prologue = False
        self.mutated, self.assigned = [], []
        self.newvar = None
        self.stored = None          # (owner kind, wrapper, Arr)
        self.ret = None

    def run(self):
        body = list(self.fn.body)
        if body and is_docstring(body[0]):
            body = body[1:]
        for st in body:
            if self.ret is not None:
                raise Bad("statement after return")
            self.step(st)
        if self.ret is None:
            raise Bad("no return")
        if self.stored is None:
            raise Bad("no array is stored into `_value`")
        i = self.seq.index("store")
        if self.seq[i + 1:i + 2] != ["state:apply_BCs"]:
            raise Bad("`apply_BCs` does not directly follow the store into `_value`")
        return self

    def names_of_vars(self):
        return [self.var] + [n for n, v in self.env.items() if v[0] in ("newvar", "varalias")]

    def step(self, st):
        inert = tinert.analysis(self.fn)
        if inert.skip(st):                      # inert statement (tinert.py): not part of the sequence
            return
        try:
            return self.step0(st)
        except Bad:
            if inert.skip_guard(st):            # a validation guard that is not understood
                return
            raise

    def step0(self, st):
        m = match_state(st, self.names_of_vars())
        if m:
            tag, v = m
            if tag == "refresh_if_outdated":
                if v != self.var or self.prologue or "read_old" in self.seq:
                    raise Bad("refresh prologue misplaced")
                self.prologue = True
            elif tag == "apply_BCs":
                if self.stored is None:
                    raise Bad(f"`{v}.apply_BCs()` before the store")
                owner = self.env.get(v, ("param",))
                if (owner[0] == "newvar") != (self.stored[0] == "newvar"):
                    raise Bad("`apply_BCs` is not called on the variable that was stored into")
            else:
                raise Bad(f"state statement `{tag}` is not expected in solveExplicitPDE")
            self.seq.append("state:" + tag)
            self.state_stmts.append(ast.unparse(st))
            return
        if mentions_state(st):
            raise Bad(f"unrecognised state statement (line {st.lineno}): {ast.unparse(st)[:60]}")
        if isinstance(st, ast.Assign) and len(st.targets) == 1:
            t, v = st.targets[0], st.value
            if is_name(t):
                if t.id in self.params:
                    raise Bad(f"assignment to the parameter {t.id}")
                if isinstance(v, ast.Call) and is_name(v.func, "CellVariable"):
                    if self.newvar is not None:
                        raise Bad("two variables constructed")
                    self.newvar = self.parse_ctor(v)
                    self.env[t.id] = ("newvar",)
                    self.seq.append("construct_result")
                    return
                if is_name(v, self.var):
                    self.env[t.id] = ("varalias",)
                    self.seq.append("alias_input_variable")
                    return
                a = self.ev(v)
                self.env[t.id] = ("arr", a)
                self.seq.append("compute")
                return
            if isinstance(t, ast.Attribute) and is_name(t.value):
                owner = self.env.get(t.value.id, ("param",) if t.value.id == self.var else (None,))
                if owner[0] not in ("newvar", "varalias", "param") or (owner[0] == "param" and t.value.id != self.var):
                    raise Bad(f"assignment to {ast.unparse(t)}")
                if owner[0] != "newvar":
                    self.assigned.append(f"{self.var}.{t.attr}")
                if t.attr != "_value":
                    raise Bad(f"assignment to {ast.unparse(t)}")
                if self.stored is not None:
                    raise Bad("second store into `_value`")
                wrapper, inner = strip_wrapper(v)
                a = self.ev(inner)
                if a.scalar or not a.shaped:
                    raise Bad("the stored value does not have the ghosted shape")
                self.stored = (owner[0], wrapper, a)
                self.seq.append("store")
                return
            raise Bad(f"assignment target {ast.unparse(t)} (line {st.lineno})")
        if isinstance(st, ast.AugAssign) and is_name(st.target):
            cur = self.env.get(st.target.id)
            if not cur or cur[0] != "arr":
                raise Bad(f"`{ast.unparse(st)}`: target is not a local array")
            tag = BINOPS.get(type(st.op))
            if tag is None:
                raise Bad(f"`{ast.unparse(st)}`: operator")
            a, b = cur[1], self.ev(st.value)
            if a.scalar:
                raise Bad(f"`{ast.unparse(st)}`: target is a scalar")
            self.check_shapes(a, b)
            if a.alias is not None and a.alias not in self.mutated:
                self.mutated.append(a.alias)
            self.env[st.target.id] = ("arr", Arr((tag, a.expr, b.expr), alias=a.alias, shaped=a.shaped))
            self.seq.append("compute_in_place")
            return
        if isinstance(st, ast.Return):
            if not is_name(st.value):
                raise Bad("return of an expression")
            n = st.value.id
            kind = self.env.get(n, ("param",) if n == self.var else (None,))[0]
            if kind == "newvar":
                self.ret = ".newVar"
            elif kind in ("varalias", "param"):
                self.ret = ".param 0"
            else:
                raise Bad(f"return {n}")
            if (kind == "newvar") != (self.stored is not None and self.stored[0] == "newvar"):
                raise Bad("the returned variable is not the one stored into")
            self.seq.append("return")
            return
        raise Bad(f"statement {type(st).__name__} (line {st.lineno}): {ast.unparse(st)[:60]}")

    def parse_ctor(self, c):
        if len(c.args) not in (2, 3):
            raise Bad(f"CellVariable(...) with {len(c.args)} positional arguments")
        if ast.unparse(c.args[0]) != f"{self.var}.domain":
            raise Bad(f"CellVariable domain `{ast.unparse(c.args[0])}`")
        init = const_text(c.args[1])
        bcs, copied = "default", False
        if len(c.args) == 3:
            b = ast.unparse(c.args[2])
            if b == f"{self.var}.BCs":
                bcs = "input"
            elif b in (f"deepcopy({self.var}.BCs)", f"copy.deepcopy({self.var}.BCs)"):
                bcs, copied = "input", True
            else:
                raise Bad(f"CellVariable BCs `{b}`")
        kws = [(k.arg, const_text(k.value)) for k in c.keywords]
        if any(k is None for k, _ in kws):
            raise Bad("CellVariable(**...)")
        return {"init": init, "bcs": bcs, "copied": copied, "kws": kws}

    def check_shapes(self, a, b):
        for x in (a, b):
            if not x.scalar and not x.shaped:
                raise Bad("arithmetic on the flat right-hand side (not reshaped to the ghosted shape)")

    def ev(self, n):
        if isinstance(n, ast.Constant) and type(n.value) in (int, float):
            return Arr(("num", Fraction(n.value)), scalar=True)
        if isinstance(n, ast.Name):
            if n.id in self.env:
                v = self.env[n.id]
                if v[0] != "arr":
                    raise Bad(f"`{n.id}` used as an array")
                return v[1]
            if n.id == self.dt:
                return Arr(("leaf", "dt"), scalar=True)
            if n.id == self.rhs:
                return Arr(("flat",), alias=self.rhs, shaped=False)
            raise Bad(f"name {n.id}")
        if isinstance(n, ast.Attribute) and n.attr == "_value" and is_name(n.value, self.var):
            if not self.prologue:
                raise Bad(f"`{self.var}._value` is read before the refresh prologue")
            if "read_old" not in self.seq:
                self.seq.append("read_old")
            return Arr(("leaf", "old"), alias=f"{self.var}._value")
        if isinstance(n, ast.UnaryOp) and isinstance(n.op, ast.USub):
            a = self.ev(n.operand)
            self.check_shapes(a, a)
            return Arr(("neg", a.expr), scalar=a.scalar)
        if isinstance(n, ast.BinOp) and type(n.op) in BINOPS:
            a, b = self.ev(n.left), self.ev(n.right)
            self.check_shapes(a, b)
            return Arr((BINOPS[type(n.op)], a.expr, b.expr), scalar=a.scalar and b.scalar)
        r = parse_reshape(n)
        if r is not None:
            src, shape = r
            a = self.ev(src)
            if a.expr != ("flat",):
                raise Bad(f"reshape of `{ast.unparse(src)}`")
            if ast.unparse(shape) != f"{self.var}._value.shape":
                raise Bad(f"reshape to `{ast.unparse(shape)}`, not to {self.var}._value.shape")
            return Arr(("leaf", "rhs"), alias=a.alias)
        if isinstance(n, ast.Call) and not n.keywords:
            f = n.func
            inner = None
            if isinstance(f, ast.Attribute) and f.attr == "copy" and not n.args and not is_name(f.value, "np"):
                inner = f.value
            elif isinstance(f, ast.Attribute) and is_name(f.value, "np") and f.attr == "copy" and len(n.args) == 1:
                inner = n.args[0]
            if inner is not None:
                a = self.ev(inner)
                return Arr(a.expr, alias=None, shaped=a.shaped, scalar=a.scalar)
        raise Bad(f"expression `{ast.unparse(n)[:60]}`")

    def emit(self):
        owner, wrapper, a = self.stored
        out = ["/-! ### solveExplicitPDE -/\n"]
        out.append("def explicit_params : List String := " + llist(lstr(p) for p in self.params) + "\n")
        out.append(f"/-- the array stored into `_value`, elementwise on the GHOSTED array: `old` = `{self.var}._value`, "
                   f"`rhs` = `{self.rhs}` reshaped\n    (C order) to the shape of `{self.var}._value`, `dt` = `{self.dt}` -/\n"
                   f"def explicitUpdate (old rhs dt : α) : α :=\n  {strip_outer(render(a.expr))}\n")
        out.append("/-- the stored array shares no memory with an input (it is the result of arithmetic or a copy) -/\n"
                   f"def explicit_storedFresh : Bool := {lbool(a.alias is None)}\n")
        out.append("/-- inputs written to in place (possibly through a view) -/\n"
                   "def explicit_mutatedInputs : List String := " + llist(lstr(x) for x in self.mutated) + "\n")
        out.append("/-- attributes of the input variable that are assigned (outside the refresh prologue) -/\n"
                   "def explicit_assignedInputAttrs : List String := " + llist(lstr(x) for x in self.assigned) + "\n")
        if self.newvar is not None:
            nv = self.newvar
            out.append("/-- `CellVariable(<input>.domain, <init>, <BCs>, <keywords>)` -/\n"
                       f"def explicit_result : Option NewVar :=\n  some ⟨{lstr(nv['init'])}, {lstr(nv['bcs'])}, {lbool(nv['copied'])}, "
                       + llist(f"({lstr(k)}, {lstr(v)})" for k, v in nv["kws"]) + "⟩\n")
        else:
            out.append("/-- no variable is constructed -/\ndef explicit_result : Option NewVar := none\n")
        out.append(f"def explicit_store : Store := ⟨{'.newVar' if owner == 'newvar' else '.param 0'}, \"_value\", "
                   f"{lstr(wrapper)}, .computed⟩\n")
        out.append(f"def explicit_return : RetVal := {self.ret}\n")
        # `read_old` (first read of `<v>._value`) and `compute` (binding a name to a NEW array) have no effect on any
        # object: a run of them is recorded once, in this order, however many statements it is spread over
        seq = norm_runs(self.seq, [["read_old", "compute"]])
        out.append("def explicit_sequence : List String :=\n  " + llist(lstr(x) for x in seq) + "\n")
        out.append("def explicit_stateStmts : List String :=\n  " + llist(lstr(x) for x in self.state_stmts) + "\n")
        return out


# ---------------------------------------------------------------------------------------------------------
# solveMatrixPDE
# ---------------------------------------------------------------------------------------------------------
class MatrixPDE:
    def __init__(self, fn, mod, mesh_ok):
        self.fn, self.mod, self.mesh_ok = fn, mod, mesh_ok
        self.params, self.defaults = params_of(fn)
        if len(self.params) < 3:
            raise Bad("signature")
        self.mesh = self.params[0]
        self.env = {}
        self.seq = []
        self.solver = self.call = self.result = None
        self.done = False

    def run(self):
        body = list(self.fn.body)
        if body and is_docstring(body[0]):
            body = body[1:]
        for st in body:
            if self.done:
                raise Bad("statement after return")
            self.step(st)
        if not self.done:
            raise Bad("no return")
        return self

    def ctor(self, c):
        if not (isinstance(c, ast.Call) and is_name(c.func, "CellVariable")):
            raise Bad(f"`{ast.unparse(c)[:50]}` is not a CellVariable construction")
        if c.keywords or len(c.args) != 2:
            raise Bad("CellVariable(...) arguments (mesh, value expected: default boundary conditions)")
        if not is_name(c.args[0], self.mesh):
            raise Bad(f"CellVariable domain `{ast.unparse(c.args[0])}`")
        r = parse_reshape(c.args[1])
        if r is None:
            raise Bad("the value of the new variable is not a reshape of the solver result")
        src, shape = r
        if not (is_name(src) and self.env.get(src.id) == ("result",)):
            raise Bad(f"reshape of `{ast.unparse(src)}`, which is not the solver result")
        self.result = {"k": parse_dims_shape(shape, self.mesh, self.mesh_ok)}

    def step(self, st):
        inert = tinert.analysis(self.fn)
        if inert.skip(st):                      # inert statement (tinert.py): not part of the sequence
            return
        try:
            return self.step0(st)
        except Bad:
            if inert.skip_guard(st):            # a validation guard that is not understood
                return
            raise

    def step0(self, st):
        if mentions_state(st):
            raise Bad(f"state statement in solveMatrixPDE (line {st.lineno})")
        sel = match_solver_select(st, self.params, self.defaults, self.mod)
        if sel:
            if self.solver:
                raise Bad("second solver selection")
            self.solver = sel
            self.env[sel[0]] = ("solver",)
            self.seq.append("select_solver")
            return
        if isinstance(st, ast.Assign) and len(st.targets) == 1 and is_name(st.targets[0]):
            t, v = st.targets[0].id, st.value
            if t in self.params or t in self.env:
                raise Bad(f"assignment to {t}")
            if isinstance(v, ast.Call) and is_name(v.func) and self.env.get(v.func.id) == ("solver",):
                if self.call is not None or v.keywords:
                    raise Bad("solver call repeated / with keywords")
                args = []
                for a in v.args:
                    neg = False
                    if isinstance(a, ast.UnaryOp) and isinstance(a.op, ast.USub):
                        neg, a = True, a.operand
                    if not (is_name(a) and a.id in self.params and a.id not in self.env):
                        raise Bad(f"solver argument `{ast.unparse(a)}`")
                    args.append(("param", self.params.index(a.id), neg))
                self.call = args
                self.env[t] = ("result",)
                self.seq.append("solve")
                return
            if isinstance(v, ast.Call) and is_name(v.func, "CellVariable"):
                self.ctor(v)
                self.env[t] = ("newvar",)
                self.seq.append("construct_result")
                return
            raise Bad(f"assignment (line {st.lineno}): {ast.unparse(st)[:60]}")
        if isinstance(st, ast.Return):
            if is_name(st.value) and self.env.get(st.value.id) == ("newvar",):
                pass
            elif isinstance(st.value, ast.Call):
                self.ctor(st.value)
                self.seq.append("construct_result")
            else:
                raise Bad(f"return {ast.unparse(st.value)[:50] if st.value else ''}")
            self.seq.append("return")
            self.done = True
            return
        raise Bad(f"statement {type(st).__name__} (line {st.lineno}): {ast.unparse(st)[:60]}")

    def emit(self):
        if self.solver is None or self.call is None or self.result is None:
            raise Bad("solver selection / call / result missing")
        s, p, g = self.solver
        k = self.result["k"]
        out = ["/-! ### solveMatrixPDE -/\n"]
        out.append("def matrix_params : List (String × Option String) :=\n  "
                   + llist(f"({lstr(n)}, {'none' if d is None else 'some ' + lstr(ast.unparse(d))})"
                           for n, d in zip(self.params, self.defaults)) + "\n")
        out.append(f"def matrix_solver : SolverSelect := ⟨{self.params.index(p)}, {lstr(g)}⟩\n")
        out.append("/-- arguments of the solver call, in order -/\ndef matrix_solverArgs : List Arg := "
                   + llist(render_arg(a) for a in self.call) + "\n")
        out.append(f"/-- `CellVariable({self.mesh}, np.reshape(<solver result>, {self.mesh}.dims + {k}))`: a new variable on the mesh "
                   f"parameter with default boundary conditions -/\n"
                   f"def matrix_store : Store := ⟨.newVar, \"<constructor value>\", \"\", .reshapedSolverResult⟩\n")
        out.append(f"def matrix_storeShape (dims : List Nat) : List Nat := dims.map (fun n => n + {k})\n")
        out.append("def matrix_return : RetVal := .newVar\n")
        out.append("def matrix_sequence : List String :=\n  " + llist(lstr(x) for x in self.seq) + "\n")
        return out


# ---------------------------------------------------------------------------------------------------------
HEADER = """/- GENERATED by harness/translate/tasm.py from pdesolver.py (and checks on cell.py, mesh.py) — do not edit.
   Description of the numerical payload of solvePDE / solveExplicitPDE / solveMatrixPDE.  The types below are the
   fixed schema; every VALUE is read from the Python AST.  Meaning: PyFV/Lemmas/AsmEval.lean; equality with the
   model: PyFV/Props/GenEqAsm.lean. -/
import PyFV.Model.Solve

set_option linter.unusedVariables false

namespace PyFV.Gen.AsmGen

variable {α : Type} [Field α] [LinearOrder α] [IsStrictOrderedRing α]

/-! ### schema -/

/-- the loop variable of the accumulation loop, or the `i`-th name it was unpacked into -/
inductive Ref
  | term
  | comp (i : Nat)
  deriving DecidableEq, Repr

/-- atomic tests: `isinstance(r, tuple)`, `len(r) == n`, `getattr(r, 'ndim', None) == n` -/
inductive Test
  | isTuple (r : Ref)
  | lenEq (r : Ref) (n : Nat)
  | ndimEq (r : Ref) (n : Nat)
  deriving DecidableEq, Repr

/-- `a += e`, `a -= e` (in place where the object supports it), `a = a + e`, `a = a - e`, `a = e` -/
inductive AccOp
  | iadd | isub | add | sub | assign
  deriving DecidableEq, Repr

/-- update of accumulator `acc` (numbered in the order of their initialisation) with operand `src` or `-src` -/
structure Upd where
  acc : Nat
  op : AccOp
  neg : Bool
  src : Ref
  deriving DecidableEq, Repr

inductive Outcome
  | raise (exc : String)
  | updates (us : List Upd)
  deriving DecidableEq, Repr

/-- one path through the loop body: the atomic tests evaluated, with their values, then the outcome -/
structure Path where
  guards : List (Test × Bool)
  out : Outcome
  deriving DecidableEq, Repr

/-- an accumulator starts as component `cached` of `phi._BCsTerm`; `copy = false`: it IS the cached object -/
structure AccInit where
  cached : Nat
  copy : Bool
  deriving DecidableEq, Repr

inductive ArgSrc
  | acc (i : Nat)
  | cached (i : Nat)
  | param (i : Nat)
  deriving DecidableEq, Repr

/-- an argument of the solver call: the object, or its negation -/
structure Arg where
  src : ArgSrc
  neg : Bool
  deriving DecidableEq, Repr

/-- `if <param> is None: solver = <default> else: solver = <param>` -/
structure SolverSelect where
  param : Nat
  default : String
  deriving DecidableEq, Repr

inductive Owner
  | param (i : Nat)
  | newVar
  deriving DecidableEq, Repr

inductive Stored
  | reshapedSolverResult
  | computed
  deriving DecidableEq, Repr

/-- `<owner>.<attr> = <wrapper>(<value>)`: the attribute is rebound to a whole new array -/
structure Store where
  owner : Owner
  attr : String
  wrapper : String
  value : Stored
  deriving DecidableEq, Repr

inductive RetVal
  | param (i : Nat)
  | newVar
  deriving DecidableEq, Repr

/-- `CellVariable(<input>.domain, init, BCs, keywords)`; `bcs`: "input" (the BCs object of the input variable,
    `bcsCopied`: deep-copied) or "default" -/
structure NewVar where
  init : String
  bcs : String
  bcsCopied : Bool
  keywords : List (String × String)
  deriving DecidableEq, Repr
"""


def generate(repo):
    src = os.path.join(repo, "src", "pyfvtool")

    tinert.set_repo(repo)
    tnum.set_source(src)

    def parse(f):
        return tinert.register(ast.parse(open(os.path.join(src, f)).read()))
    status, out = {}, [HEADER]
    mesh_ok = False
    try:
        n = check_mesh_dims(parse("mesh.py"))
        mesh_ok = True
        status["mesh.dims"] = "ok"
        out.append(f"/-- mesh.py: all {n} assignments `dims = np.array([...], dtype=int)`: `dims + k` is elementwise -/\n"
                   f"def meshDimsIsNdarray : Bool := true\n")
    except Bad as ex:
        status["mesh.dims"] = f"untranslated: {ex}"
    try:
        b, n = check_cell(parse("cell.py"))
        status["cell._BCsTerm"] = "ok"
        out.append(f"/-- cell.py: all {n} assignments to `self._BCsTerm` have this right-hand side -/\n"
                   f"def cachedTermBuilder : String := {lstr(b)}\n")
    except Bad as ex:
        status["cell._BCsTerm"] = f"untranslated: {ex}"
    mod = None
    try:
        mod = ModuleInfo(parse("pdesolver.py"))
        status["pdesolver (module level)"] = "ok"
        out.append("/-! ### pdesolver.py, module level -/\n")
        out.append("/-- `use_solver(useUmfpack=...)` at import time -/\ndef useUmfpack : Option Bool := "
                   + ("none" if mod.use_umfpack is None else f"some {lbool(mod.use_umfpack)}") + "\n")
    except Bad as ex:
        status["pdesolver (module level)"] = f"untranslated: {ex}"
    for name, cls in (("solvePDE", SolvePDE), ("solveExplicitPDE", Explicit), ("solveMatrixPDE", MatrixPDE)):
        try:
            if mod is None:
                raise Bad("module level not understood")
            if name not in mod.fns:
                raise Bad("function not found")
            it = cls(mod.fns[name], mod) if cls is Explicit else cls(mod.fns[name], mod, mesh_ok)
            defs = it.run().emit()
            out.extend(defs)
            status[name] = "ok"
        except Bad as ex:
            status[name] = f"untranslated: {ex}"
        except RecursionError:
            status[name] = "untranslated: recursion"
    bad = [k for k, v in status.items() if v != "ok"]
    out.append("def untranslated : List String := " + llist(lstr(k) for k in bad) + "\n")
    out.append("end PyFV.Gen.AsmGen\n")
    return "\n".join(out), status


def write_if_changed(path, text):
    old = open(path).read() if os.path.exists(path) else None
    if old != text:
        os.makedirs(os.path.dirname(os.path.abspath(path)), exist_ok=True)
        with open(path, "w") as f:
            f.write(text)


def main():
    repo = os.environ.get("VERIF_REPO", "/repo")
    dst = sys.argv[1]
    text, status = generate(repo)
    status = tnum.annotate_helpers(tinert.annotate(status))
    write_if_changed(dst, text)
    base = os.path.splitext(os.path.basename(dst))[0].lower()
    write_if_changed(os.path.join(os.path.dirname(os.path.abspath(dst)), f"{base}_status.json"),
                     json.dumps(status, indent=1, sort_keys=True) + "\n")
    print(json.dumps(status))


if __name__ == "__main__":
    main()
