#!/usr/bin/env python3
"""T-avg: regenerate the FACE AVERAGES, the GRADIENT and the SOURCE / TRANSIENT terms of PyFVTool from the source.

  python3 harness/translate/tavg.py lean/PyFV/Gen/AvgGen.lean

writes  <out>                        Lean definitions (namespace PyFV.Gen.AvgGen), one per branch ("family" F) of the
                                     `if issubclass(type(...), C)` / `type(...) is C` cascade of the function and per
                                     direction d of the returned FaceVariable:
                                       cell_size_array_<d>_F  M p                 (averaging.py; + `cell_size_array_shapes`)
                                       linearMean_<d>_F, arithmeticMean_<d>_F, harmonicMean_<d>_F   M φ i j k
                                       geometricMean_<d>_F    expF logF M φ i j k  (np.exp / np.log: UNINTERPRETED `α → α`)
                                       upwindMean_<d>_F       M φ u i j k
                                       gradientTerm_<d>_F, gradientTermFixedBC_<d>_F   M φ i j k       (calculus.py)
                                       constantSourceTerm_F   M γ i j k : α        (source.py; RHS entry of the interior cell)
                                       linearSourceTerm_F     M β i j k : St7 α    (row of the interior cell: diagonal only)
                                       transientTerm_row_F / _rhs_F   M φ al dt i j k   (`alpha` a CellVariable)
                                       transientTerm_row_F_scalar / _rhs_F_scalar       (`alpha` a number `al : α`)
                                       transientTerm_row_F_default / _rhs_F_default     (`alpha` omitted: the default literal)
                                       <function>_classes : List (String × List Kind)   family ↦ grid classes reaching it
                                       untranslated                                     keys for which nothing was emitted
        <dir>/avggen_status.json     {"<function>.<family>": "ok" | "untranslated: reason"}
and prints the status as one JSON line.  stdlib only; nothing is imported from the package; the source root is
$VERIF_REPO (default /repo).  PyFV/Props/GenEqAvg.lean proves every generated formula equal to the hand-written model
(linMean, arithMean, harmMean, geoMean, upMean, gradD, constSrcRHS, linearSrcRow, transientRow / transientRHS).

POSITIONS.  A face value is given at the 0-based position (i, j, k) of the component array: the x-face array position
(i, j, k) is the model face (i, j+1, k+1), the y-face array position the model face (i+1, j, k+1), the z-face array
position (i+1, j+1, k) (missing cross indices of 1-D / 2-D grids: the cell 1 of the unit axis).  Source terms are given
at the 0-based interior position (= model cell (i+1, j+1, k+1)), as in tnum / tupw.

METHOD.  Every function is executed symbolically ONCE PER GRID CLASS (nine runs) with the interpreter of tupw.py
(abstract interpretation over symbolic arrays, piecewise in-place assignment, buffer identities), EXTENDED by
  class tests      `issubclass(type(E), C)`, `type(E) is C`, `isinstance`-free combinations with `or` / `and` / `not`, where E
                   is the mesh (`phi.domain`, or a name bound to it): decided with the class hierarchy of mesh.py.  The
                   sequence of (line, outcome) of all tests of a run is its TRACE; classes with the same trace form a
                   family, named after the first class mentioned in the first test that succeeded (Grid2D -> `2D`,
                   PolarGrid2D -> `Polar2D`, ...).  All classes of a family must give IDENTICAL formulas, else the family is
                   untranslated.  A class for which no branch returns makes `<function>.<class>` untranslated.
  `type(x) is CellVariable`   decided from the kind of the value (the variants of `transientTerm`)
  objects          FaceVariable(mesh, X, Y, Z): the three arrays are stored BY REFERENCE (checked against `__init__` of
                   face.py: `_xvalue = args[0]` ... `self._xvalue = _xvalue`, or `np.asarray(_xvalue[, dtype=float])`, which is
                   the same buffer for a float array and a float copy of the same values otherwise); `np.array([])` is the empty component and must
                   be given exactly for the directions the grid does not have; component shapes are CHECKED to be
                   (Nx+1, Ny, Nz), (Nx, Ny+1, Nz), (Nx, Ny, Nz+1).  `F._xvalue[sel] = e` is the in-place assignment of tupw.
                   CellVariable(mesh, v, <BC>): a DERIVED cell variable whose interior is v (an array of the interior
                   shape or a scalar); its ghost cells are NOT modelled: `_value` of a derived variable can only be read as
                   `_value[1:-1, ...]` (anything else is untranslated).  `a / dt`, `a * phi`, ... between cell variables and
                   numbers INTERPRET the operator methods (`__truediv__`, `__mul__`, `__rmul__`, `__add__`, `__sub__`) and
                   the `value` property of class CellVariable in cell.py.
  helpers          calls of module-level functions (`cell_size_array(phi.domain)`, `_harmonic_face(a, b, c, d)`,
                   `linearSourceTerm(a/dt)`, `gradientTerm(phi)`, and whatever an extract-function refactoring adds, also
                   `from .x import f`) are interpreted INLINE with the evaluated arguments by the mechanism of tnum.py
                   (PURE LOCAL HELPERS: positional / keyword arguments, numeric defaults, undecorated plain `def` bound
                   once at module level, last definition wins, no *args, no global / nonlocal, no recursion, depth ≤ 4).
                   Argument arrays are frozen, INCLUDING the component arrays of a FaceVariable and the interior of a
                   derived CellVariable that is passed: no in-place assignment to them inside the helper (a helper that
                   modifies the FaceVariable it receives stays untranslated: the caller's other names for those arrays
                   are not visible to the aliasing check inside the helper)
  np.where(c, a, b)   `if c then a else b` elementwise (numpy broadcasting of the three operands);
                   `b1 | b2`, `b1 & b2` on boolean arrays, `x or y` / `x and y` on loop scalars: `∨`, `∧`
  np.exp, np.log   `expF (..)`, `logF (..)`: uninterpreted functions (TRUSTED to be elementwise)
  np.asarray(x)    x itself (SAME buffer: a later in-place assignment is then refused by the buffer discipline)
  scalar loops     `for v in np.arange(a, b):` whose body is `T[v] = e` or `if c: T[v] = e1 else: T[v] = e2` is VECTORISED:
                   inside the body `X[v + c]` is the slice `X[a+c : b+c]` (bounds CHECKED against the length of X), scalar
                   operations are elementwise, and the loop becomes `T[:] = np.where(c, e1, e2)`.  CHECKS: T is a fresh 1-D
                   array that no other name shares; the body does not read T (no loop-carried dependence); the index of T
                   is the loop variable itself and [a, b) is exactly [0, len(T)) (every entry written exactly once).
  source terms     `Z = np.zeros(n); Z[rows] = e` (tnum's ghosted vector, also for the 1-D form `np.zeros(Nx+2)`);
                   `csr_array((vals, (rows, rows)), shape=(S, S))` with ONE block: CHECKED rows = cols = the interior cells
                   `G[1:Nx+1, ...]`, vals of the interior shape, S the ghosted size: a diagonal matrix (row of the interior
                   cell: `St7` with the value on the diagonal and literal zeros elsewhere).
INERT statements (tinert.py: print / warnings.warn / logging calls and asserts on PURE expressions, `pass`, `if <pure>:`
over such statements, validation guards `if <pure>: raise E(...)`, assignments to locals that only such statements read)
are skipped in every interpreted body (the functions, their helpers, the operator methods and the `value` property of
CellVariable, `FaceVariable.__init__`, the body of a vectorised loop); a guard whose test the interpreter does NOT
understand is skipped (and leaves no entry in the trace), one it understands is executed.  Keyword-only / trailing
parameters with a default that only inert statements read are ignored in the signature checks.  The test is purely
syntactic (closed list of side-effect-free functions, no method call, no store), so a skipped statement cannot write.
ANY other statement or expression form makes the family `untranslated: <reason>` (no definition is emitted, the key is
listed in `untranslated`, and the theorems about it in GenEqAvg.lean no longer compile).
Trusted (not derived), in addition to the lists of tnum / tupw: all variables passed to a function live on the same mesh
  (`u.domain` is `phi.domain`); the interior of `CellVariable(mesh, v, BC)._value` is v (the BC only determines the ghost
  cells; `cellValuesWithBoundaries*` copies the interior, see T-bc); `np.where`, `np.exp`, `np.log` act elementwise;
  `np.arange(a, b)` = a..b-1; a Python float literal is its exact binary value (0.5, 1.0, 2 are exact).
A differential test (the generated formulas evaluated over ℚ by Lean against the arrays the real package returns, for
  Grid1D, SphericalGrid1D, Grid2D, CylindricalGrid2D, PolarGrid2D, Grid3D, CylindricalGrid3D, SphericalGrid3D with
  non-uniform faces, data containing zeros and velocities of both signs: 142 arrays, all equal up to rounding; the only
  non-finite Python entries are the harmonic means whose divisor vanishes) is described in the report of T-avg's author.
tnum.py / tupw.py are not edited; `tupw.rcond` is monkey-patched (conditions may contain `∨`).
"""
import ast, sys, os, json, copy
from fractions import Fraction

sys.path.insert(0, os.path.dirname(os.path.abspath(__file__)))
import tnum
import tupw
import tinert
from tnum import Bad, Poly, ONE, Arr, Cat, Zeros, Vec, Mat, Tup, Ref, MeshInfo, AXES, VAR, KIND, scalar, write_if_changed
from tupw import bufof, is_input, arrs_in, render, sstrip, shift, lin

SUFFIX = {"Grid1D": "1D", "CylindricalGrid1D": "Cylindrical1D", "SphericalGrid1D": "Spherical1D",
          "Grid2D": "2D", "CylindricalGrid2D": "Cylindrical2D", "PolarGrid2D": "Polar2D",
          "Grid3D": "3D", "CylindricalGrid3D": "Cylindrical3D", "SphericalGrid3D": "Spherical3D"}
ZERO = ("num", Fraction(0))


# ---------------------------------------------------------------------------------------------------------
# conditions with ∨ / ∧ (monkey-patch of tupw.rcond; tupw.render looks the name up in tupw's globals)
# ---------------------------------------------------------------------------------------------------------
_rcond0 = tupw.rcond


def rcond(c, names):
    if c[0] in ("or", "andb"):
        sym = " ∨ " if c[0] == "or" else " ∧ "
        parts = []
        for x in c[1:]:
            s = rcond(x, names)
            parts.append(f"({s})" if x[0] in ("or", "andb", "and") else s)
        return sym.join(parts)
    return _rcond0(c, names)


tupw.rcond = rcond
tnum.QUIET_HELPERS |= {"cell_size_array", "_harmonic_face", "linearSourceTerm", "constantSourceTerm", "gradientTerm"}


# ---------------------------------------------------------------------------------------------------------
# values
# ---------------------------------------------------------------------------------------------------------
class Empty:            # np.array([])
    pass


class FaceObj:
    def __init__(self, comps):
        self.comps = comps          # {'x': Arr | Empty, 'y': ..., 'z': ...}


class DCell:            # derived CellVariable: interior values only
    def __init__(self, interior):
        self.interior = interior


class Diag:             # diagonal matrix over the interior cells
    def __init__(self, arr):
        self.arr = arr


class LoopIdx:
    def __init__(self, off):
        self.off = off


def is_cell(v):
    return isinstance(v, DCell) or (isinstance(v, Ref) and v.what[0] == "par" and v.what[2] == "cell")


class Ctx:
    def __init__(self, repo):
        src = os.path.join(repo, "src", "pyfvtool")
        self.trees = {}
        for f in ("mesh", "averaging", "source", "calculus", "cell", "face"):
            self.trees[f] = tnum.parse_module(src, f + ".py")
        self.mesh = MeshInfo(self.trees["mesh"])
        self.cellcls = self.find_class("cell", "CellVariable")
        self.face_by_ref = self.check_face_init()

    def find_class(self, mod, name):
        cs = [n for n in self.trees[mod].body if isinstance(n, ast.ClassDef) and n.name == name]
        if len(cs) != 1:
            raise Bad(f"class {name} not found in {mod}.py")
        return cs[0]

    def functions(self, mod):
        return {n.name: n for n in self.trees[mod].body if isinstance(n, ast.FunctionDef)}

    def cell_method(self, name, prop=False):
        out = []
        for m in self.cellcls.body:
            if isinstance(m, ast.FunctionDef) and m.name == name:
                is_prop = any(isinstance(d, ast.Name) and d.id == "property" for d in m.decorator_list)
                if prop == is_prop and (prop or not m.decorator_list):
                    out.append(m)
        if len(out) != 1:
            raise Bad(f"CellVariable.{name}: expected exactly one definition")
        return out[0]

    def check_face_init(self):
        """FaceVariable(mesh, X, Y, Z) stores the three arrays by reference"""
        try:
            cls = self.find_class("face", "FaceVariable")
            inits = [m for m in cls.body if isinstance(m, ast.FunctionDef) and m.name == "__init__"
                     and not m.decorator_list]
            if len(inits) != 1:
                return "FaceVariable.__init__ not found"
            fn = inits[0]
            if [a.arg for a in fn.args.args] != ["self", "mesh"] or fn.args.vararg is None:
                return "FaceVariable.__init__: signature"
            va = fn.args.vararg.arg
            first = [s for s in tinert.live_body(fn) if isinstance(s, ast.If)]
            if not first or ast.unparse(first[0].test).replace(" ", "") != f"len({va})==3":
                return "FaceVariable.__init__: first test is not len(args)==3"
            got = [ast.unparse(s) for s in tinert.live_body(fn, first[0].body)]
            want = [f"_{a}value = {va}[{n}]" for n, a in enumerate(AXES)]
            if got != want:
                return "FaceVariable.__init__: the three-argument branch does not bind args[0..2]"
            tail = [ast.unparse(s) for s in fn.body if isinstance(s, ast.Assign)]
            for a in AXES:
                # `np.asarray(x, dtype=float)` / `np.asarray(x)` is x itself for a float array (same buffer) and a
                # float copy with the same values otherwise: the same VALUE either way
                ok = [f"self._{a}value = _{a}value", f"self._{a}value = np.asarray(_{a}value, dtype=float)",
                      f"self._{a}value = np.asarray(_{a}value)"]
                stores = [t for t in tail if t.startswith(f"self._{a}value = ")]
                if len(stores) != 1 or stores[0] not in ok:
                    return f"FaceVariable.__init__: self._{a}value is not _{a}value"
            if "self.domain = mesh" not in tail:
                return "FaceVariable.__init__: self.domain is not mesh"
            return None
        except Bad as ex:
            return str(ex)


# ---------------------------------------------------------------------------------------------------------
# the interpreter
# ---------------------------------------------------------------------------------------------------------
class Helpers0:
    def __init__(self, fns):
        self.fns = fns


class AInterp(tupw.UInterp):
    def __init__(self, ctx, cls, modname, pars, trace, depth=0):
        super().__init__(ctx.mesh, cls, pars, None, None, False, ctx.trees[modname], Helpers0(ctx.functions(modname)))
        self.ctx, self.modname, self.trace, self.depth = ctx, modname, trace, depth
        self.loop = None            # (name, lo:int, hi:Poly)

    def spawn(self, modname=None):
        if self.depth >= 6:
            raise Bad("helper calls nested too deeply")
        sub = AInterp(self.ctx, self.cls, modname or self.modname, {}, self.trace, self.depth + 1)
        sub.ndim = self.ndim
        return sub

    # ---- statements
    def exec_block(self, body):
        for st in body:
            if self.result is not None:
                raise Bad("statement after return")
            if isinstance(st, ast.Expr) and isinstance(st.value, ast.Constant) and isinstance(st.value.value, str):
                continue
            if self.inert.skip(st):             # inert statement (tinert.py): no effect on the result
                continue
            st = tnum.plain_assign(st)
            if isinstance(st, ast.Assign):
                self.assign(st)
            elif isinstance(st, ast.AugAssign):
                self.augassign(st)
            elif isinstance(st, ast.If):
                ntrace = len(self.trace)
                try:
                    r = self.test(st.test)
                except Bad:
                    if self.inert.skip_guard(st):       # a validation guard on a test that is not understood
                        del self.trace[ntrace:]
                        continue
                    raise
                self.exec_block(st.body if r else st.orelse)
            elif isinstance(st, ast.For):
                self.exec_for(st)
            elif isinstance(st, ast.Return):
                if st.value is None:
                    raise Bad("bare return")
                self.result = self.ev(st.value)
            else:
                raise Bad(f"statement {type(st).__name__} (line {st.lineno})")

    def class_of(self, node):
        """node names a grid class and `E` in the test is the mesh"""
        return node.id if isinstance(node, ast.Name) and node.id in self.mesh.classes else None

    def is_mesh(self, node):
        try:
            v = self.ev(node)
        except Bad:
            return False
        return isinstance(v, Ref) and v.what[0] == "mesh"

    def type_arg(self, node):
        if (isinstance(node, ast.Call) and isinstance(node.func, ast.Name) and node.func.id == "type"
                and len(node.args) == 1 and not node.keywords):
            return node.args[0]
        if isinstance(node, ast.Attribute) and node.attr == "__class__" and "__class__" not in tnum.SHADOWED:
            return node.value               # `x.__class__` is `type(x)` (no class of the package defines `__class__`)
        return None

    def atom(self, t):
        """(value, mentions the mesh class)"""
        txt = ast.unparse(t)
        if isinstance(t, ast.BoolOp):
            vals = [self.atom(x) for x in t.values]
            r = any(v for v, _ in vals) if isinstance(t.op, ast.Or) else all(v for v, _ in vals)
            return r, any(m for _, m in vals)
        if isinstance(t, ast.UnaryOp) and isinstance(t.op, ast.Not):
            v, m = self.atom(t.operand)
            return (not v), m
        if (isinstance(t, ast.Call) and isinstance(t.func, ast.Name) and t.func.id == "issubclass" and len(t.args) == 2
                and not t.keywords):
            e, c = self.type_arg(t.args[0]), self.class_of(t.args[1])
            if e is not None and c is not None and self.is_mesh(e):
                if self.cls is None:
                    raise Bad(f"if {txt}: no grid class")
                return c in self.mesh.mro(self.cls), True
        if isinstance(t, ast.Compare) and len(t.ops) == 1 and isinstance(t.ops[0], (ast.Is, ast.IsNot)):
            e = self.type_arg(t.left)
            c = t.comparators[0]
            if e is not None and isinstance(c, ast.Name):
                neg = isinstance(t.ops[0], ast.IsNot)
                if c.id == "CellVariable":
                    v = self.ev(e)
                    if is_cell(v):
                        return (not neg), False
                    if isinstance(v, Poly) or (isinstance(v, Arr) and v.kind == "num" and not v.dims):
                        return neg, False
                    raise Bad(f"if {txt}: kind of the value unknown")
                if self.class_of(c) is not None and self.is_mesh(e):
                    return ((self.cls == c.id) != neg), True
        raise Bad(f"if {txt[:70]}")

    def test(self, t):
        r, mesh_test = self.atom(t)
        if mesh_test:
            names = [n.id for n in ast.walk(t) if isinstance(n, ast.Name) and n.id in SUFFIX]
            self.trace.append((self.modname, t.lineno, r, names[0] if names else None))
        return r

    def bind(self, name, v):
        if isinstance(v, Ref) and v.what[0] not in ("dims", "par", "mesh"):
            raise Bad(f"assignment of a {v.what[0]} reference to {name}")
        if isinstance(v, LoopIdx):
            raise Bad(f"assignment of the loop index to {name}")
        self.env[name] = v

    # in-place assignment to a component of a FaceVariable: the components are put into the environment under
    # synthetic names for the duration of the assignment, so that tupw's buffer checks see them
    def face_keys(self):
        keys = {}
        for n, v in list(self.env.items()):
            if isinstance(v, FaceObj):
                for a, c in v.comps.items():
                    if isinstance(c, Arr):
                        keys[f"{n}._{a}value"] = (v, a)
        return keys

    def assign(self, st):
        if len(st.targets) == 1 and isinstance(st.targets[0], ast.Subscript):
            t = st.targets[0]
            if isinstance(t.value, ast.Attribute) and isinstance(t.value.value, ast.Name):
                obj = self.env.get(t.value.value.id)
                key = f"{t.value.value.id}.{t.value.attr}"
                keys = self.face_keys()
                if not isinstance(obj, FaceObj) or key not in keys:
                    raise Bad(f"assignment target {ast.unparse(t)}")
                val = self.ev(st.value)
                for k, (o, a) in keys.items():
                    self.env[k] = o.comps[a]
                try:
                    self.item_assign(key, t.slice, val, ast.unparse(t))
                    obj.comps[keys[key][1]] = self.env[key]
                finally:
                    for k in keys:
                        self.env.pop(k, None)
                return
            if isinstance(t.value, ast.Name):
                x = self.env.get(t.value.id)
                n = getattr(x, "_zeros", None)
                if isinstance(x, Arr) and n is not None and not isinstance(t.slice, (ast.Slice, ast.Tuple)):
                    idx = self.ev(t.slice)
                    if isinstance(idx, Arr) and idx.kind == "G":        # 1-D form of zeros + interior assignment
                        self.check_mutable(t.value.id)
                        self.env[t.value.id] = Zeros(n)
                        return tnum.Interp.assign(self, st)
        return super().assign(st)

    def augassign(self, st):
        if isinstance(st.target, ast.Subscript) and isinstance(st.target.value, ast.Attribute):
            # `F._xvalue[sel] op= e` is `F._xvalue[sel] = F._xvalue[sel] op e` (the reading tupw gives `X[sel] op= e`)
            if type(st.op) not in (ast.Add, ast.Sub, ast.Mult, ast.Div):
                raise Bad(f"augmented assignment {type(st.op).__name__}")
            load = copy.deepcopy(st.target)
            load.ctx = ast.Load()
            new = ast.Assign(targets=[st.target], value=ast.BinOp(left=load, op=st.op, right=st.value))
            ast.copy_location(new, st)
            ast.fix_missing_locations(new)
            return self.assign(new)
        return super().augassign(st)

    # ---- scalar loops
    def exec_for(self, st):
        if self.loop is not None:
            raise Bad("nested loop")
        it = st.iter
        if st.orelse or not isinstance(st.target, ast.Name):
            raise Bad(f"for statement (line {st.lineno})")
        # np.arange(a, b) / range(a, b) = a .. b-1;  np.arange(b) / range(b) = 0 .. b-1  (integer bounds, no step)
        fname = ast.unparse(it.func) if isinstance(it, ast.Call) else None
        if not (fname in ("np.arange", "range") and len(it.args) in (1, 2) and not it.keywords) \
                or (fname == "range" and ("range" in self.env or "range" in self.pars or "range" in tnum.SHADOWED)):
            raise Bad(f"for ... in {ast.unparse(it)[:40]}: not np.arange(a, b)")
        lo = Poly() if len(it.args) == 1 else self.ev(it.args[0])
        hi = self.ev(it.args[-1])
        if not (isinstance(lo, Poly) and isinstance(hi, Poly)):
            raise Bad("np.arange bounds are not integers")
        lo = lo.constval()
        n = hi - Poly.const(lo)
        if lo < 0 or tupw.pmin(n) < 1:
            raise Bad(f"np.arange({lo}, {hi}): possibly empty / negative range")
        v = st.target.id
        if v in self.env or v in self.pars:
            raise Bad(f"loop variable {v} shadows a name")
        lbody = [x for x in st.body if not self.inert.skip(x)]
        if len(lbody) != 1:
            raise Bad("loop body is not a single statement")
        b = lbody[0]

        def target(s):
            if not (isinstance(s, ast.Assign) and len(s.targets) == 1 and isinstance(s.targets[0], ast.Subscript)
                    and isinstance(s.targets[0].value, ast.Name) and isinstance(s.targets[0].slice, ast.Name)
                    and s.targets[0].slice.id == v):
                raise Bad(f"loop body: `{ast.unparse(s)[:50]}` is not `T[{v}] = e`")
            return s.targets[0].value.id, s.value
        if isinstance(b, ast.If):
            if len(b.body) != 1 or len(b.orelse) != 1:
                raise Bad("loop body: branches of the if are not single assignments")
            (t1, e1), (t2, e2) = target(b.body[0]), target(b.orelse[0])
            if t1 != t2:
                raise Bad("loop body: the two branches assign different arrays")
            tname, cond, exprs = t1, b.test, [e1, e2]
        else:
            tname, e1 = target(b)
            cond, exprs = None, [e1]
        T = self.env.get(tname)
        if not (isinstance(T, Arr) and T.kind == "num" and len(T.dims) == 1 and not T.raveled and T.dims[0][0] is not None):
            raise Bad(f"loop body: {tname} is not a 1-D array")
        self.check_mutable(tname)
        for e in exprs + ([cond] if cond is not None else []):
            for nd in ast.walk(e):
                if isinstance(nd, ast.Name) and nd.id == tname:
                    raise Bad(f"loop body reads {tname}: loop-carried dependence")
        L = T.dims[0][1]
        if lo != 0 or hi != L:
            raise Bad(f"the loop range [{lo}, {hi}) is not the whole array {tname} (length {L})")
        self.loop = (v, lo, hi)
        try:
            vals = [self.as_num(self.ev(e)) for e in exprs]
            c = self.ev(cond) if cond is not None else None
        finally:
            self.loop = None
        if c is not None:
            if not (isinstance(c, Arr) and c.kind == "bool"):
                raise Bad("loop body: the if test is not a comparison of array entries")
            new = self.where(c, vals[0], vals[1])
        else:
            new = vals[0]
        if new.raveled or new.dims not in ([], T.dims):
            raise Bad(f"loop body: value of shape {new.shape()} for {tname} of shape {T.shape()}")
        f = new.fn
        res = Arr(T.dims, (lambda pos: f(pos)) if new.dims else (lambda pos: f([])))
        res._buf = bufof(T)
        self.env[tname] = res

    def where(self, c, a, b):
        ab = self.broadcast("pair", a, b)
        r = self.broadcast("pair", c, ab)
        f = r.fn

        def fn(pos):
            _, cc, (_, x, y) = f(pos)
            return ("ite", cc, x, y)
        return Arr(r.dims, fn, raveled=r.raveled)

    # ---- names, attributes
    def ev_Name(self, node):
        if self.loop is not None and node.id == self.loop[0]:
            return LoopIdx(0)
        if node.id in self.env:
            return self.env[node.id]
        if node.id in self.pars:
            kind, lean = self.pars[node.id]
            if kind == "scalar":
                return scalar(("var", lean))
            if kind == "const":
                return scalar(("num", lean))
            return Ref("par", lean, kind)
        raise Bad(f"name {node.id}")

    def ev_Attribute(self, node):
        if isinstance(node.value, ast.Name) and node.value.id == "np":
            if node.attr == "pi":
                return scalar(("pi",))
            raise Bad(f"np.{node.attr}")
        base = self.ev(node.value)
        at = node.attr
        if isinstance(base, FaceObj):
            if at == "domain":
                return Ref("mesh")
            if at in ("_xvalue", "_yvalue", "_zvalue"):
                c = base.comps[at[1]]
                if isinstance(c, Empty):
                    raise Bad(f"{at} of a FaceVariable without that direction")
                return c
            raise Bad(f"attribute .{at} of a FaceVariable")
        if isinstance(base, DCell):
            if at == "domain":
                return Ref("mesh")
            if at == "_value":
                nd = self.need_ndim()
                dims = [(a, Poly.var(a) + Poly.const(2)) for a in AXES[:nd]]

                def fn(pos):
                    raise Bad("the ghost cells of a derived CellVariable are not modelled (only `_value[1:-1, ...]`)")
                r = Arr(dims, fn)
                r._derived = base.interior
                r._buf = ("input", "derived", "_value")
                return r
            if at == "value":
                return self.cell_value(base)
            raise Bad(f"attribute .{at} of a derived CellVariable")
        if isinstance(base, Ref):
            w = base.what
            if w[0] == "par":
                _, lean, kind = w
                if at == "domain":
                    return Ref("mesh")
                if kind == "face" and at in ("_xvalue", "_yvalue", "_zvalue"):
                    return self.face_leaf2(at, lean)
                if kind == "cell" and at == "_value":
                    return self.cell_leaf(lean)
                if kind == "cell" and at == "value":
                    return self.cell_value(base)
                raise Bad(f"attribute .{at} of the parameter {lean}")
            if w[0] == "mesh":
                if at in ("cellsize", "cellcenters", "facecenters"):
                    return Ref("prop", at)
                if at == "dims":
                    return Ref("dims")
                raise Bad(f"mesh attribute .{at}")
            if w[0] == "prop":
                return self.leaf(w[1], at)
        raise Bad(f"attribute .{at}")

    def cell_value(self, obj):
        """the `value` property of CellVariable, interpreted"""
        fn = self.ctx.cell_method("value", prop=True)
        sub = self.spawn("cell")
        sub.env["self"] = obj
        try:
            return sub.run(fn)
        except Bad as ex:
            raise Bad(f"CellVariable.value: {ex}")

    # ---- operators
    def ev_BoolOp(self, node):
        vals = [self.ev(v) for v in node.values]
        if not all(isinstance(v, Arr) and v.kind == "bool" for v in vals):
            raise Bad(f"`{ast.unparse(node)[:50]}`: operands are not comparisons")
        tag = "or" if isinstance(node.op, ast.Or) else "andb"
        r = vals[0]
        for v in vals[1:]:
            r = self.broadcast(tag, r, v)
            r.kind = "bool"
        return r

    def cell_op(self, a, b, op):
        names = {ast.Add: "add", ast.Sub: "sub", ast.Mult: "mul", ast.Div: "truediv"}
        if op not in names:
            raise Bad(f"operator {op.__name__} on a CellVariable")
        if is_cell(a):
            meth, slf, other = f"__{names[op]}__", a, b
        else:
            meth, slf, other = f"__r{names[op]}__", b, a
        if not (is_cell(other) or isinstance(other, Poly) or (isinstance(other, Arr) and other.kind == "num"
                                                               and not other.dims)):
            raise Bad(f"CellVariable.{meth}: operand is neither a CellVariable nor a number")
        fn = self.ctx.cell_method(meth)
        fa = tinert.effective_args(fn)
        if [p.arg for p in fa.args] != ["self", "other"] or fa.vararg or fa.kwonlyargs or fa.defaults:
            raise Bad(f"CellVariable.{meth}: signature")
        sub = self.spawn("cell")
        sub.env["self"], sub.env["other"] = slf, other
        try:
            r = sub.run(fn)
        except Bad as ex:
            raise Bad(f"CellVariable.{meth}: {ex}")
        if not isinstance(r, DCell):
            raise Bad(f"CellVariable.{meth} does not return a CellVariable")
        return r

    def ev_BinOp(self, node):
        a, b = self.ev(node.left), self.ev(node.right)
        op = type(node.op)
        if isinstance(a, LoopIdx) or isinstance(b, LoopIdx):
            if isinstance(a, LoopIdx) and isinstance(b, Poly) and op in (ast.Add, ast.Sub):
                c = b.constval()
                return LoopIdx(a.off + (c if op is ast.Add else -c))
            if isinstance(b, LoopIdx) and isinstance(a, Poly) and op is ast.Add:
                return LoopIdx(b.off + a.constval())
            raise Bad(f"arithmetic on the loop index: {ast.unparse(node)[:40]}")
        if is_cell(a) or is_cell(b):
            return self.cell_op(a, b, op)
        if op in (ast.BitOr, ast.BitAnd):
            if not all(isinstance(v, Arr) and v.kind == "bool" for v in (a, b)):
                raise Bad(f"`{ast.unparse(node)[:50]}`: operands of | / & are not boolean arrays")
            r = self.broadcast("or" if op is ast.BitOr else "andb", a, b)
            r.kind = "bool"
            return r
        if isinstance(a, Mat) or isinstance(b, Mat):
            raise Bad("matrix arithmetic")
        if isinstance(a, Poly) and isinstance(b, Poly) and op in (ast.Add, ast.Sub, ast.Mult):
            return a + b if op is ast.Add else a - b if op is ast.Sub else a * b
        if op is ast.Pow:
            if not isinstance(b, Poly):
                raise Bad("exponent is not an integer constant")
            n = b.constval()
            if n < 0:
                raise Bad("negative exponent")
            a = self.as_num(a)
            return Arr(a.dims, lambda pos: ("pow", a.fn(pos), n), raveled=a.raveled)
        tag = {ast.Add: "add", ast.Sub: "sub", ast.Mult: "mul", ast.Div: "div"}.get(op)
        if tag is None:
            raise Bad(f"operator {op.__name__}")
        return self.broadcast(tag, self.as_num(a), self.as_num(b))

    # ---- indexing
    def ev_Subscript(self, node):
        base = self.ev(node.value)
        sl = node.slice
        txt = ast.unparse(node)
        if isinstance(base, Ref):
            if base.what[0] == "dims" and isinstance(sl, ast.Constant) and isinstance(sl.value, int) \
                    and not isinstance(sl.value, bool) and 0 <= sl.value < 3:
                if self.ndim is not None and sl.value >= self.ndim:
                    raise Bad(f".dims[{sl.value}] of a {self.ndim}-D grid")
                return Poly.var(AXES[sl.value])
            raise Bad(f"subscript {txt}")
        if not isinstance(base, Arr):
            raise Bad(f"subscript of {ast.unparse(node.value)[:40]}")
        if base.raveled:
            raise Bad("index of a raveled array")
        items = sl.elts if isinstance(sl, ast.Tuple) else [sl]
        if self.loop is not None and len(items) == 1 and not isinstance(items[0], ast.Slice):
            ix = self.ev(items[0])
            if isinstance(ix, LoopIdx):
                if len(base.dims) != 1 or base.dims[0][0] is None:
                    raise Bad(f"{txt}: loop index on an array that is not 1-D")
                _, lo, hi = self.loop
                start = lo + ix.off
                if start < 0:
                    raise Bad(f"{txt}: index {start} at the first iteration")
                return self.index2(base, [("sl", Poly.const(start), hi + Poly.const(ix.off))], txt)
        spec = self.parse_index(items, txt)
        inner = getattr(base, "_derived", None)
        if inner is not None:
            # the interior: `1:-1` or, the array having the ghosted length N+2 along the axis, `1:N+1`
            ok = len(spec) == len(base.dims) and all(
                s is not None and s[0] == "sl" and s[1] == ONE
                and (s[2] == Poly.const(-1) or (L == Poly.var(a) + Poly.const(2) and s[2] == Poly.var(a) + ONE))
                for s, (a, L) in zip(spec, base.dims))
            if not ok:
                raise Bad(f"{txt}: only the interior `_value[1:-1, ...]` of a derived CellVariable is modelled")
            return Arr(inner.dims, inner.fn)
        return self.index2(base, spec, txt)

    # ---- calls
    def ev_Call(self, node):
        f = node.func
        if isinstance(f, ast.Name) and f.id not in self.env:
            if f.id == "FaceVariable":
                return self.mk_face(node)
            if f.id == "CellVariable":
                return self.mk_cell(node)
            if f.id == "csr_array":
                return self.csr_any(node)
        return super().ev_Call(node)

    def mk_face(self, node):
        if self.ctx.face_by_ref:
            raise Bad(self.ctx.face_by_ref)
        if node.keywords or len(node.args) != 4:
            raise Bad("FaceVariable(...): not the four-argument form (mesh, X, Y, Z)")
        m = self.ev(node.args[0])
        if not (isinstance(m, Ref) and m.what[0] == "mesh"):
            raise Bad("FaceVariable(...): the first argument is not the mesh")
        nd = self.need_ndim()
        comps = {}
        for n, (a, x) in enumerate(zip(AXES, node.args[1:])):
            v = self.ev(x)
            if isinstance(v, Empty):
                if n < nd:
                    raise Bad(f"FaceVariable(...): empty {a} component on a {nd}-D grid")
            else:
                if n >= nd:
                    raise Bad(f"FaceVariable(...): a {a} component on a {nd}-D grid")
                if isinstance(v, Arr) and v.kind == "bool":
                    raise Bad(f"FaceVariable(...): boolean {a} component")
                v = self.as_num(v)
                want = [(b, Poly.var(b) + (ONE if b == a else Poly())) for b in AXES[:nd]]
                if v.raveled or v.dims != want:
                    raise Bad(f"FaceVariable(...): the {a} component has shape {v.shape()}, not "
                              f"({', '.join(str(L) for _, L in want)})")
            comps[a] = v
        return FaceObj(comps)

    def mk_cell(self, node):
        if node.keywords or len(node.args) not in (2, 3):
            raise Bad("CellVariable(...): arguments")
        m = self.ev(node.args[0])
        if not (isinstance(m, Ref) and m.what[0] == "mesh"):
            raise Bad("CellVariable(...): the first argument is not the mesh")
        v = self.ev(node.args[1])
        if isinstance(v, Arr) and v.kind == "bool":
            raise Bad("CellVariable(...): boolean values")
        v = self.as_num(v)
        dims = self.interior_dims()
        if v.raveled or v.dims not in ([], dims):
            raise Bad(f"CellVariable(...): values of shape {v.shape()} are neither a scalar nor of the interior shape")
        f = v.fn
        return DCell(Arr(dims, (lambda pos: f(pos)) if v.dims else (lambda pos: f([]))))

    def csr_any(self, node):
        if len(node.args) in (1, 2) and isinstance(node.args[0], ast.Tuple) and len(node.args[0].elts) == 2:
            vals = self.ev(node.args[0].elts[0])
            if isinstance(vals, Arr):
                return self.csr_diag(node, vals)
        return self.csr(node)

    def csr_diag(self, node, vals):
        if len(node.args) == 2 and not node.keywords:
            shp_node = node.args[1]
        elif len(node.args) == 1 and [k.arg for k in node.keywords] == ["shape"]:
            shp_node = node.keywords[0].value
        else:
            raise Bad("csr_array: expected csr_array((vals, (rows, cols)), shape=...)")
        rc = self.ev(node.args[0].elts[1])
        shp = self.ev(shp_node)
        if not (isinstance(rc, Tup) and len(rc.items) == 2):
            raise Bad("csr_array: argument structure")
        self.need_ndim()
        g = self.ghosted_size()
        if not (isinstance(shp, Tup) and len(shp.items) == 2 and all(isinstance(s, Poly) for s in shp.items)):
            raise Bad("csr_array: shape")
        if shp.items[0] != g or shp.items[1] != g:
            raise Bad(f"csr_array: shape ({shp.items[0]}, {shp.items[1]}) is not the ghosted size {g}")
        self.check_interior_block(vals, "diagonal values")
        self.check_interior_rows(rc.items[0], "row index")
        self.check_interior_rows(rc.items[1], "column index")
        return Diag(vals)

    def helper_call(self, name, node):
        """a module-level function of the same module: interpreted inline by tnum.Interp.call_helper (positional and
        keyword arguments, numeric defaults; the definition must be a plain undecorated function; arguments frozen)"""
        fn = self.helpers.fns[name]
        r = tnum.resolve_helper(self.modname, name)
        if r is None or r[0] is not fn:
            raise Bad(f"call {name}: the name does not denote the module-level function {name}")
        return self.call_helper(fn, self.modname, node)

    def check_helper_arg(self, name, v):
        if isinstance(v, Ref) and v.what[0] not in ("par", "mesh"):
            raise Bad(f"call of {name}: argument kind {v.what[0]}")
        if isinstance(v, (LoopIdx, Empty, Zeros, Vec, Mat, Diag, Cat)):
            raise Bad(f"call of {name}: argument kind {type(v).__name__}")

    def spawn_helper(self, fn, modname):
        self.ctx.trees.setdefault(modname, tnum.MODULES[modname])
        sub = self.spawn(modname)
        sub.frozen = list(self.frozen)
        self.init_helper(sub, modname)
        return sub

    def arrays_in(self, v):
        """the arrays an argument gives access to (frozen inside a helper)"""
        if isinstance(v, FaceObj):
            for c in v.comps.values():
                if isinstance(c, Arr):
                    yield c
        elif isinstance(v, DCell):
            yield v.interior
        elif isinstance(v, Tup):
            for x in v.items:
                yield from self.arrays_in(x)
        elif isinstance(v, Arr):
            yield v

    def np_call(self, name, node):
        if node.keywords:
            raise Bad(f"np.{name} with keywords")
        args = node.args
        if name == "array" and len(args) == 1 and isinstance(args[0], ast.List) and not args[0].elts:
            return Empty()
        if name == "asarray" and len(args) == 1:
            v = self.ev(args[0])
            if not (isinstance(v, Arr) and v.kind == "num"):
                raise Bad("np.asarray of a non-array")
            return v                                        # the SAME buffer
        if name in ("exp", "log") and len(args) == 1:
            v = self.ev(args[0])
            if isinstance(v, Arr) and v.kind == "bool":
                raise Bad(f"np.{name} of a boolean array")
            v = self.as_num(v)
            lean = name + "F"
            return Arr(v.dims, lambda pos: ("app", lean, v.fn(pos)), raveled=v.raveled)
        if name == "where" and len(args) == 3:
            c = self.ev(args[0])
            if not (isinstance(c, Arr) and c.kind == "bool"):
                raise Bad("np.where: the condition is not a boolean array")
            a, b = self.ev(args[1]), self.ev(args[2])
            for v in (a, b):
                if isinstance(v, Arr) and v.kind == "bool":
                    raise Bad("np.where of boolean values")
            return self.where(c, self.as_num(a), self.as_num(b))
        if name == "zeros" and len(args) == 1:
            r = super().np_call(name, node)
            if isinstance(r, Arr):
                n = self.ev(args[0])
                if isinstance(n, Poly):
                    r._zeros = n
            return r
        return super().np_call(name, node)


# ---------------------------------------------------------------------------------------------------------
# drivers
# ---------------------------------------------------------------------------------------------------------
# function: (module, [variants]); variant = (suffix of the definitions, [(python parameter, kind, lean name)], result)
CELL = lambda n, l: (n, "cell", l)
FUNCS = [
    ("averaging", "cell_size_array", [("", [("m", "mesh", None)], "sizes")]),
    ("averaging", "linearMean", [("", [CELL("phi", "φ")], "face")]),
    ("averaging", "arithmeticMean", [("", [CELL("phi", "φ")], "face")]),
    ("averaging", "harmonicMean", [("", [CELL("phi", "φ")], "face")]),
    ("averaging", "upwindMean", [("", [CELL("phi", "φ"), ("u", "face", "u")], "face")]),
    ("calculus", "gradientTerm", [("", [CELL("phi", "φ")], "face")]),
    ("calculus", "gradientTermFixedBC", [("", [CELL("phi", "φ")], "face")]),
    ("source", "constantSourceTerm", [("", [CELL("gamma", "γ")], "rhs")]),
    ("source", "linearSourceTerm", [("", [CELL("beta", "β")], "diag")]),
    ("source", "transientTerm", [("", [CELL("phi", "φ"), ("dt", "scalar", "dt"), CELL("alpha", "al")], "trans"),
                                 ("_scalar", [CELL("phi", "φ"), ("dt", "scalar", "dt"), ("alpha", "scalar", "al")], "trans"),
                                 ("_default", [CELL("phi", "φ"), ("dt", "scalar", "dt"), ("alpha", "default", None)], "trans")]),
    ("averaging", "geometricMean", [("", [CELL("phi", "φ")], "face")]),
]
BINDER = {"cell": "CellFld α", "face": "FaceFld α", "scalar": "α"}


def binders(variant_pars, extra=""):
    out = []
    for _, kind, lean in variant_pars:
        if kind in BINDER:
            if out and out[-1][1] == BINDER[kind]:
                out[-1][0].append(lean)
            else:
                out.append(([lean], BINDER[kind]))
    return extra + "(M : Mesh α) " + " ".join(f"({' '.join(ns)} : {t})" for ns, t in out)


def uses_app(e, name):
    return f"{name} (" in e


def run_class(ctx, mod, fname, vpars, cls):
    """-> (trace, {component: text}) ; raises Bad"""
    fn = ctx.functions(mod).get(fname)
    if fn is None:
        raise Bad("function not found")
    a = tinert.effective_args(fn)
    if a.vararg or a.kwarg or a.kwonlyargs or [p.arg for p in a.args] != [p for p, _, _ in vpars]:
        raise Bad("signature")
    ndef = len(a.defaults)
    pars = {}
    for n, (p, kind, lean) in enumerate(vpars):
        has_default = n >= len(a.args) - ndef
        if kind == "default":
            if not has_default:
                raise Bad(f"parameter {p} has no default")
            d = a.defaults[n - (len(a.args) - ndef)]
            if not (isinstance(d, ast.Constant) and isinstance(d.value, (int, float)) and not isinstance(d.value, bool)):
                raise Bad(f"default of {p} is not a numeric literal")
            pars[p] = ("const", Fraction(d.value))
        elif kind == "mesh":
            pars[p] = None
        else:
            pars[p] = (kind, lean)
    trace = []
    it = AInterp(ctx, cls, mod, {k: v for k, v in pars.items() if v is not None}, trace)
    for p, v in pars.items():
        if v is None:
            it.env[p] = Ref("mesh")
    it.cell_numbers()
    return it, it.run(fn), trace


def at_pos(it, arr, want, what):
    if not (isinstance(arr, Arr) and arr.kind == "num"):
        raise Bad(f"{what}: not a numeric array")
    if arr.raveled or arr.dims != want:
        raise Bad(f"{what}: shape {arr.shape()}")
    return sstrip(render(arr.fn(it.ipos()), {}))


def materialize(it, res, kind):
    """{component name: Lean term}"""
    nd = it.need_ndim()
    if kind == "face":
        if not isinstance(res, FaceObj):
            raise Bad("result is not a FaceVariable")
        out = {}
        for a in AXES[:nd]:
            want = [(b, Poly.var(b) + (ONE if b == a else Poly())) for b in AXES[:nd]]
            out[a] = at_pos(it, res.comps[a], want, f"{a} component")
        return out
    if kind == "sizes":
        items = [res] if isinstance(res, Arr) else res.items if isinstance(res, Tup) else None
        if items is None or len(items) != nd or not all(isinstance(x, Arr) and x.kind == "num" for x in items):
            raise Bad(f"result is not a tuple of {nd} arrays")
        out = {}
        for n, (a, x) in enumerate(zip(AXES, items)):
            want = [(a, Poly.var(a) + Poly.const(2)) if m == n else (None, ONE) for m in range(nd)]
            if x.raveled or x.dims != want:
                raise Bad(f"{a} component has shape {x.shape()}")
            pos = [(("p", 0) if m == n else None) for m in range(nd)]
            out[a] = sstrip(render(x.fn(pos), {}))
            out["shape_" + a] = x.shape()
        return out
    if kind == "rhs":
        if not isinstance(res, Vec):
            raise Bad("result is not a ghosted vector built as zeros + interior assignment")
        return {"rhs": tupw.at_interior(it, res.arr, {})}
    if kind == "diag":
        if not isinstance(res, Diag):
            raise Bad("result is not a diagonal csr_array over the interior cells")
        return {"diag": tupw.at_interior(it, res.arr, {})}
    if kind == "trans":
        if not (isinstance(res, Tup) and len(res.items) == 2 and isinstance(res.items[0], Diag)
                and isinstance(res.items[1], Vec)):
            raise Bad("result is not (diagonal matrix, ghosted vector)")
        return {"diag": tupw.at_interior(it, res.items[0].arr, {}), "rhs": tupw.at_interior(it, res.items[1].arr, {})}
    raise Bad(f"result kind {kind}")


def st7(p):
    return ("{ p := " + p + ",\n    xm := (0 : α), xp := (0 : α), ym := (0 : α), yp := (0 : α), zm := (0 : α), zp := (0 : α) }")


FACEPOS = {"x": "(i, j+1, k+1)", "y": "(i+1, j, k+1)", "z": "(i+1, j+1, k)"}


def emit(fname, fam, vsuf, vpars, kind, comps, classes):
    doc = "classes: " + ", ".join(classes)
    b = binders(vpars)
    out = []
    if kind == "face":
        extra = ""
        if any(uses_app(t, "expF") or uses_app(t, "logF") for t in comps.values()):
            extra = "(expF logF : α → α) "
        for a, t in comps.items():
            out.append(f"/-- `{fname}`, {a}-face array at 0-based position (i, j, k) = model face {FACEPOS[a]}; {doc} -/\n"
                       f"def {fname}_{a}_{fam}{vsuf} {binders(vpars, extra)} (i j k : ℕ) : α :=\n  {t}\n")
    elif kind == "sizes":
        for a in AXES:
            if a in comps:
                out.append(f"/-- `{fname}`, {a} component (shape {comps['shape_' + a]}) at position p; {doc} -/\n"
                           f"def {fname}_{a}_{fam} (M : Mesh α) (p : ℕ) : α :=\n  {comps[a]}\n")
    elif kind == "rhs":
        out.append(f"/-- `{fname}`: RHS entry of the interior cell at 0-based position (i, j, k); ghost entries 0; {doc} -/\n"
                   f"def {fname}_{fam}{vsuf} {b} (i j k : ℕ) : α :=\n  {comps['rhs']}\n")
    elif kind == "diag":
        out.append(f"/-- `{fname}`: matrix row of the interior cell at 0-based position (i, j, k) (rows = cols = interior "
                   f"cells: diagonal only); {doc} -/\n"
                   f"def {fname}_{fam}{vsuf} {b} (i j k : ℕ) : St7 α :=\n  {st7(comps['diag'])}\n")
    elif kind == "trans":
        out.append(f"/-- `{fname}(...)[0]`: matrix row of the interior cell at 0-based position (i, j, k); {doc} -/\n"
                   f"def {fname}_row_{fam}{vsuf} {b} (i j k : ℕ) : St7 α :=\n  {st7(comps['diag'])}\n")
        out.append(f"/-- `{fname}(...)[1]`: RHS entry of the interior cell at 0-based position (i, j, k); {doc} -/\n"
                   f"def {fname}_rhs_{fam}{vsuf} {b} (i j k : ℕ) : α :=\n  {comps['rhs']}\n")
    return out


def translate_function(ctx, mod, fname, variants, status):
    """-> ([(status key, [definitions])], classes table rows)"""
    defs, table = [], None
    for vsuf, vpars, kind in variants:
        runs = {}
        for cls in KIND:
            try:
                it, res, trace = run_class(ctx, mod, fname, vpars, cls)
                runs[cls] = (tuple(trace), materialize(it, res, kind), None)
            except Bad as ex:
                runs[cls] = (None, None, str(ex))
            except RecursionError:
                runs[cls] = (None, None, "recursion")
        groups = {}
        for cls, (trace, comps, err) in runs.items():
            if err is not None:
                status[f"{fname}{vsuf}.{cls}"] = f"untranslated: {err}"      # its family is unknown: keyed by class
                continue
            groups.setdefault(trace, []).append(cls)
        rows, labels = [], {}
        for trace, classes in groups.items():
            firsts = [t for t in trace if t[2]]
            lab = SUFFIX.get(firsts[0][3]) if firsts and firsts[0][3] else None
            if lab is None:
                lab = SUFFIX[classes[0]]
            key = f"{fname}{vsuf}.{lab}"
            if lab in labels:
                status[key] = f"untranslated: two different traces are both named {lab}"
                continue
            labels[lab] = classes
            texts = {json.dumps(runs[c][1], sort_keys=True) for c in classes}
            if len(texts) != 1:
                status[key] = f"untranslated: the classes {', '.join(classes)} reach the branch with different formulas"
                continue
            defs.append((key, emit(fname, lab, vsuf, vpars, kind, runs[classes[0]][1], classes)))
            status[key] = "ok"
            rows.append((lab, classes))
        if table is None:
            table = rows
        elif rows != table:
            for l, _ in rows:
                status[f"{fname}{vsuf}.{l}"] = "untranslated: the variants split the grid classes differently"
    return defs, table or []


HEADER = """/- GENERATED by harness/translate/tavg.py from averaging.py, calculus.py, source.py (operators of cell.py, class
   hierarchy of mesh.py) — do not edit.  Face values at the 0-based position (i, j, k) of the component array
   (x-face array ↔ model face (i, j+1, k+1), y ↔ (i+1, j, k+1), z ↔ (i+1, j+1, k)); source terms at the 0-based
   interior position (= model cell (i+1, j+1, k+1)).  Proved equal to the model in PyFV/Props/GenEqAvg.lean. -/
import PyFV.Model.Geom
import PyFV.Model.Terms

set_option linter.unusedVariables false

namespace PyFV.Gen.AvgGen

variable {α : Type} [Field α] [LinearOrder α] [IsStrictOrderedRing α]
"""


def generate(repo):
    status, out = {}, [HEADER]
    tinert.set_repo(repo)
    ctx = Ctx(repo)
    last_mod = None
    order = sorted(FUNCS, key=lambda f: ["averaging", "calculus", "source"].index(f[0]))
    for mod, fname, variants in order:
        if mod != last_mod:
            out.append(f"/-! ### {mod}.py -/\n")
            last_mod = mod
        try:
            defs, table = translate_function(ctx, mod, fname, variants, status)
        except Bad as ex:
            defs, table = [], []
            status[fname] = f"untranslated: {ex}"
        keep = [d for key, ds in defs if status.get(key) == "ok" for d in ds]
        out.extend(keep)
        if fname == "cell_size_array":
            shp = []
            for d in keep:
                nm = d.split("\ndef ", 1)[1].split(" ", 1)[0]
                s = d.split("(shape ", 1)[1].split(") at position", 1)[0]
                shp.append(f'("{nm}", "{s}")')
            out.append("/-- shapes of the arrays returned by `cell_size_array` (N* = cell counts) -/\n"
                       "def cell_size_array_shapes : List (String × String) :=\n  [" + ",\n   ".join(shp) + "]\n")
        rows = [(lab, cl) for lab, cl in table if all(status.get(f"{fname}{v}.{lab}") == "ok" for v, _, _ in variants)]
        out.append(f"/-- branch (family) of `{fname}` ↦ grid classes that reach it -/\n"
                   f"def {fname}_classes : List (String × List Kind) :=\n  ["
                   + ",\n   ".join(f'("{lab}", [' + ", ".join("." + KIND[c] for c in cl) + "])" for lab, cl in rows) + "]\n")
    bad = [k for k, v in status.items() if v != "ok"]
    out.append("def untranslated : List String := [" + ", ".join(f'"{k}"' for k in bad) + "]\n")
    out.append("end PyFV.Gen.AvgGen\n")
    return "\n".join(out), status


def main():
    repo = os.environ.get("VERIF_REPO", "/repo")
    dst = sys.argv[1]
    text, status = generate(repo)
    status = tnum.annotate_helpers(tinert.annotate(status))
    write_if_changed(dst, text)
    base = os.path.splitext(os.path.basename(dst))[0].lower()
    write_if_changed(os.path.join(os.path.dirname(os.path.abspath(dst)), f"{base}_status.json"),
                     json.dumps(status, indent=1, sort_keys=True) + "\n")
    print(json.dumps(status))


if __name__ == "__main__":
    main()
